package ir

import (
	"go/constant"
	"go/token"
	"go/types"
	"math"
	"strings"

	"golang.org/x/tools/go/ssa"
)

// CallSite is a call, go or defer instruction with its common part.
type CallSite struct {
	In     ssa.Instruction
	Common *ssa.CallCommon
	Kind   string // "call", "go", "defer"
}

// Value returns the call's result value (nil for go/defer).
func (c CallSite) Value() ssa.Value {
	if v, ok := c.In.(*ssa.Call); ok {
		return v
	}
	return nil
}

// AsCall views an instruction as a call site.
func AsCall(in ssa.Instruction) (CallSite, bool) {
	switch x := in.(type) {
	case *ssa.Call:
		return CallSite{In: in, Common: &x.Call, Kind: "call"}, true
	case *ssa.Go:
		return CallSite{In: in, Common: &x.Call, Kind: "go"}, true
	case *ssa.Defer:
		return CallSite{In: in, Common: &x.Call, Kind: "defer"}, true
	}
	return CallSite{}, false
}

// Calls lists call sites of fn (not of its closures) whose callee name passes
// the filter.
func (p *Prog) Calls(fn *ssa.Function, match func(name string, c CallSite) bool) []CallSite {
	var out []CallSite
	for _, b := range fn.Blocks {
		for _, in := range b.Instrs {
			if cs, ok := AsCall(in); ok {
				if match == nil || match(p.CalleeName(cs.Common), cs) {
					out = append(out, cs)
				}
			}
		}
	}
	return out
}

// CallsNamed lists call sites in fn whose callee name equals one of names.
func (p *Prog) CallsNamed(fn *ssa.Function, names ...string) []CallSite {
	return p.Calls(fn, func(n string, _ CallSite) bool {
		for _, x := range names {
			if n == x {
				return true
			}
		}
		return false
	})
}

// CallsDeep is CallsNamed over fn and all its nested closures.
func (p *Prog) CallsDeep(fn *ssa.Function, names ...string) []CallSite {
	var out []CallSite
	for _, f := range WithClosures(fn) {
		out = append(out, p.CallsNamed(f, names...)...)
	}
	return out
}

// Access is a read or write of a struct field.
type Access struct {
	In    ssa.Instruction
	Field string
	Write bool
	// Addr is the FieldAddr (nil for a value Field read).
	Addr *ssa.FieldAddr
	// AddrTaken marks a use of the field address that is neither a load nor a
	// store (it is passed somewhere).
	AddrTaken bool
}

// FieldAccesses lists every access in fn (not closures) to fields selected by
// want (nil = all).  Element accesses through a field slice/map
// (c.writeList[0] = nil, m[k] = v, delete) are reported as writes of the field.
func (p *Prog) FieldAccesses(fn *ssa.Function, want func(key string) bool) []Access {
	var out []Access
	for _, b := range fn.Blocks {
		for _, in := range b.Instrs {
			switch x := in.(type) {
			case *ssa.FieldAddr:
				key := p.FieldKey(x)
				if want != nil && !want(key) {
					continue
				}
				refs := x.Referrers()
				if refs == nil {
					continue
				}
				for _, r := range *refs {
					switch u := r.(type) {
					case *ssa.UnOp:
						if u.Op == token.MUL {
							out = append(out, Access{In: u, Field: key, Addr: x})
							// element writes through the loaded slice/map
							out = append(out, p.elemWrites(u, key, x)...)
							continue
						}
						out = append(out, Access{In: r, Field: key, Addr: x, AddrTaken: true})
					case *ssa.Store:
						if u.Addr == ssa.Value(x) {
							out = append(out, Access{In: u, Field: key, Write: true, Addr: x})
						} else {
							out = append(out, Access{In: r, Field: key, Addr: x, AddrTaken: true})
						}
					case *ssa.DebugRef:
					default:
						out = append(out, Access{In: r, Field: key, Addr: x, AddrTaken: true})
					}
				}
			case *ssa.Field:
				key := p.FieldKey(x)
				if want != nil && !want(key) {
					continue
				}
				out = append(out, Access{In: x, Field: key})
			}
		}
	}
	return out
}

func (p *Prog) elemWrites(load *ssa.UnOp, key string, fa *ssa.FieldAddr) []Access {
	var out []Access
	refs := load.Referrers()
	if refs == nil {
		return nil
	}
	for _, r := range *refs {
		switch u := r.(type) {
		case *ssa.IndexAddr:
			if u.X != ssa.Value(load) {
				continue
			}
			if rr := u.Referrers(); rr != nil {
				for _, s := range *rr {
					if st, ok := s.(*ssa.Store); ok && st.Addr == ssa.Value(u) {
						out = append(out, Access{In: st, Field: key, Write: true, Addr: fa})
					}
				}
			}
		case *ssa.MapUpdate:
			if u.Map == ssa.Value(load) {
				out = append(out, Access{In: u, Field: key, Write: true, Addr: fa})
			}
		case *ssa.Call:
			if b, ok := u.Call.Value.(*ssa.Builtin); ok && b.Name() == "delete" && len(u.Call.Args) > 0 && u.Call.Args[0] == ssa.Value(load) {
				out = append(out, Access{In: u, Field: key, Write: true, Addr: fa})
			}
		}
	}
	return out
}

// StoresTo lists the stores in fn to the named field.
func (p *Prog) StoresTo(fn *ssa.Function, field string) []*ssa.Store {
	var out []*ssa.Store
	for _, a := range p.FieldAccesses(fn, func(k string) bool { return k == field }) {
		if st, ok := a.In.(*ssa.Store); ok && a.Write && st.Addr == ssa.Value(a.Addr) {
			out = append(out, st)
		}
	}
	return out
}

// ---------------------------------------------------------------------------
// Conditions

// Interval is a closed integer interval; Lo > Hi means empty.
type Interval struct{ Lo, Hi int64 }

const (
	NegInf = math.MinInt64
	PosInf = math.MaxInt64
)

func (iv Interval) Empty() bool { return iv.Lo > iv.Hi }

// IntCmp describes "Expr op K" where K is an integer constant, as the set of
// Expr values on which the condition is true (one interval, or the complement
// of a point for !=).
type IntCmp struct {
	Expr ssa.Value
	// TrueSet describes the values for which the comparison holds; for `!=`
	// NotEq is set and TrueSet is the excluded point.
	TrueSet Interval
	NotEq   bool
}

// DecodeIntCmp decodes `expr op const` / `const op expr`.
func DecodeIntCmp(v ssa.Value) (IntCmp, bool) {
	b, ok := v.(*ssa.BinOp)
	if !ok {
		return IntCmp{}, false
	}
	op := b.Op
	x, y := b.X, b.Y
	k, isK := ConstInt(y)
	if !isK {
		k, isK = ConstInt(x)
		if !isK {
			return IntCmp{}, false
		}
		x = y
		// flip
		switch op {
		case token.LSS:
			op = token.GTR
		case token.LEQ:
			op = token.GEQ
		case token.GTR:
			op = token.LSS
		case token.GEQ:
			op = token.LEQ
		}
	}
	c := IntCmp{Expr: x}
	switch op {
	case token.EQL:
		c.TrueSet = Interval{k, k}
	case token.NEQ:
		c.TrueSet = Interval{k, k}
		c.NotEq = true
	case token.LSS:
		c.TrueSet = Interval{NegInf, k - 1}
	case token.LEQ:
		c.TrueSet = Interval{NegInf, k}
	case token.GTR:
		c.TrueSet = Interval{k + 1, PosInf}
	case token.GEQ:
		c.TrueSet = Interval{k, PosInf}
	default:
		return IntCmp{}, false
	}
	return c, true
}

// Holds evaluates the comparison for a concrete value.
func (c IntCmp) Holds(v int64) bool {
	in := v >= c.TrueSet.Lo && v <= c.TrueSet.Hi
	if c.NotEq {
		return !in
	}
	return in
}

// ZeroTest classifies a condition as an emptiness test of a non-negative
// expression (a len()): it returns the expression and whether the condition
// being `truth` means "expr == 0" (zero=true) or "expr > 0" (zero=false).
func ZeroTest(cond ssa.Value, truth bool) (expr ssa.Value, zero bool, ok bool) {
	cond, truth = StripNot(cond, truth)
	c, ok := DecodeIntCmp(cond)
	if !ok {
		return nil, false, false
	}
	// Over the non-negative integers: does the condition hold exactly at 0,
	// or exactly on [1,inf)?
	at0 := c.Holds(0)
	at1 := c.Holds(1)
	atBig := c.Holds(1 << 40)
	if at1 != atBig {
		return nil, false, false
	}
	if at0 == at1 {
		return nil, false, false
	}
	// condition true <=> (expr==0) when at0, else (expr>0)
	zeroWhenTrue := at0
	if truth {
		return c.Expr, zeroWhenTrue, true
	}
	return c.Expr, !zeroWhenTrue, true
}

// IsLenOf reports `len(x)` and returns x.
func IsLenOf(v ssa.Value) (ssa.Value, bool) {
	c, ok := Unconv(v).(*ssa.Call)
	if !ok {
		return nil, false
	}
	if b, ok := c.Call.Value.(*ssa.Builtin); ok && b.Name() == "len" && len(c.Call.Args) == 1 {
		return c.Call.Args[0], true
	}
	return nil, false
}

// IsCapOf reports `cap(x)` and returns x.
func IsCapOf(v ssa.Value) (ssa.Value, bool) {
	c, ok := Unconv(v).(*ssa.Call)
	if !ok {
		return nil, false
	}
	if b, ok := c.Call.Value.(*ssa.Builtin); ok && b.Name() == "cap" && len(c.Call.Args) == 1 {
		return c.Call.Args[0], true
	}
	return nil, false
}

// NilTest classifies `x == nil` / `x != nil`: returns x and whether `truth`
// of the condition means x is nil.
func NilTest(cond ssa.Value, truth bool) (x ssa.Value, isNil bool, ok bool) {
	cond, truth = StripNot(cond, truth)
	b, ok := cond.(*ssa.BinOp)
	if !ok || (b.Op != token.EQL && b.Op != token.NEQ) {
		return nil, false, false
	}
	var e ssa.Value
	switch {
	case IsNilConst(b.Y):
		e = b.X
	case IsNilConst(b.X):
		e = b.Y
	default:
		return nil, false, false
	}
	nilWhenTrue := b.Op == token.EQL
	if truth {
		return e, nilWhenTrue, true
	}
	return e, !nilWhenTrue, true
}

// BoolFieldTest classifies a condition that is (a negation of) a load of a
// boolean struct field; set reports the field's value on this edge.
func (p *Prog) BoolFieldTest(cond ssa.Value, truth bool) (field string, set bool, ok bool) {
	cond, truth = StripNot(cond, truth)
	if k := p.LoadedField(cond); k != "" {
		if bt, isb := cond.Type().Underlying().(*types.Basic); isb && bt.Kind() == types.Bool {
			return k, truth, true
		}
	}
	return "", false, false
}

// ErrorsIsTest classifies `errors.Is(e, target)` conditions; target is the
// descriptor of the second argument (e.g. "syscall.EINTR" printed as a constant).
func (p *Prog) ErrorsIsTest(cond ssa.Value, truth bool) (e ssa.Value, target string, is bool, ok bool) {
	cond, truth = StripNot(cond, truth)
	c, isCall := cond.(*ssa.Call)
	if !isCall {
		return nil, "", false, false
	}
	if p.CalleeName(&c.Call) != "errors.Is" || len(c.Call.Args) != 2 {
		return nil, "", false, false
	}
	return c.Call.Args[0], p.errnoName(c.Call.Args[1]), truth, true
}

// errnoName names a syscall.Errno constant wrapped into an error interface,
// by looking the value up among the constants of the loaded syscall package.
func (p *Prog) errnoName(v ssa.Value) string {
	u := Unconv(v)
	if c, ok := u.(*ssa.Const); ok {
		if p.TypeName(c.Type()) == "syscall.Errno" {
			if n, ok := ConstInt(c); ok {
				if name, ok := p.errnoNames()[n]; ok {
					return name
				}
				return "errno#" + itoa(n)
			}
		}
	}
	return p.Desc(v)
}

func (p *Prog) errnoNames() map[int64]string {
	if p.errnos != nil {
		return p.errnos
	}
	p.errnos = map[int64]string{}
	for _, sp := range p.SSA.AllPackages() {
		if sp.Pkg.Path() != "syscall" {
			continue
		}
		for _, name := range []string{"EINTR", "EAGAIN", "EINPROGRESS", "ENOENT", "EPIPE", "ECONNRESET"} {
			if c, ok := sp.Pkg.Scope().Lookup(name).(*types.Const); ok {
				if n, exact := constant.Int64Val(c.Val()); exact {
					if _, dup := p.errnos[n]; !dup {
						p.errnos[n] = name
					}
				}
			}
		}
	}
	return p.errnos
}

func itoa(n int64) string {
	if n == 0 {
		return "0"
	}
	neg := n < 0
	if neg {
		n = -n
	}
	var b []byte
	for n > 0 {
		b = append([]byte{byte('0' + n%10)}, b...)
		n /= 10
	}
	if neg {
		return "-" + string(b)
	}
	return string(b)
}

// HasFact reports whether some dominating branch fact satisfies pred.
func (fi *FnInfo) HasFact(at ssa.Instruction, pred func(f Fact) bool) bool {
	for _, f := range fi.Facts(at) {
		if pred(f) {
			return true
		}
	}
	return false
}

// NameHasSuffix is a small helper for callee-name filters.
func NameHasSuffix(n string, sufs ...string) bool {
	for _, s := range sufs {
		if strings.HasSuffix(n, s) {
			return true
		}
	}
	return false
}
