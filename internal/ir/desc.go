package ir

import (
	"fmt"
	"go/constant"
	"go/token"
	"go/types"
	"strings"

	"golang.org/x/tools/go/ssa"
)

// FieldKey names the field a FieldAddr/Field selects as "pkg.Type.field".
// Identity is by struct type, not by object (see DESIGN §3 E1).
func (p *Prog) FieldKey(v ssa.Value) string {
	switch v := v.(type) {
	case *ssa.FieldAddr:
		return p.fieldKeyOf(v.X.Type(), v.Field)
	case *ssa.Field:
		return p.fieldKeyOf(v.X.Type(), v.Field)
	}
	return ""
}

func (p *Prog) fieldKeyOf(t types.Type, idx int) string {
	tn := p.TypeName(t)
	if pt, ok := t.Underlying().(*types.Pointer); ok {
		t = pt.Elem()
	}
	st, ok := t.Underlying().(*types.Struct)
	if !ok || idx >= st.NumFields() {
		return "?"
	}
	if tn == "" {
		tn = "struct"
	}
	return tn + "." + st.Field(idx).Name()
}

// IsLoad reports a pointer dereference and returns the address operand.
func IsLoad(v ssa.Value) (ssa.Value, bool) {
	if u, ok := v.(*ssa.UnOp); ok && u.Op == token.MUL {
		return u.X, true
	}
	return nil, false
}

// Unconv strips value-preserving conversions.
func Unconv(v ssa.Value) ssa.Value {
	for {
		switch x := v.(type) {
		case *ssa.Convert:
			v = x.X
		case *ssa.ChangeType:
			v = x.X
		case *ssa.MakeInterface:
			v = x.X
		case *ssa.ChangeInterface:
			v = x.X
		default:
			return v
		}
	}
}

// LoadedField returns the field key when v is a load of a struct field (after
// stripping conversions), else "".
func (p *Prog) LoadedField(v ssa.Value) string {
	v = Unconv(v)
	if a, ok := IsLoad(v); ok {
		if fa, ok := a.(*ssa.FieldAddr); ok {
			return p.FieldKey(fa)
		}
	}
	if f, ok := v.(*ssa.Field); ok {
		return p.FieldKey(f)
	}
	return ""
}

// ResolveFreeVar maps a free variable of a closure to the value bound to it in
// the enclosing function (via the unique MakeClosure that creates it).
func ResolveFreeVar(fv *ssa.FreeVar) ssa.Value {
	fn := fv.Parent()
	par := fn.Parent()
	if par == nil {
		return nil
	}
	idx := -1
	for i, x := range fn.FreeVars {
		if x == fv {
			idx = i
		}
	}
	if idx < 0 {
		return nil
	}
	var found ssa.Value
	n := 0
	for _, b := range par.Blocks {
		for _, in := range b.Instrs {
			if mc, ok := in.(*ssa.MakeClosure); ok && mc.Fn == fn {
				n++
				found = mc.Bindings[idx]
			}
		}
	}
	if n == 1 {
		return found
	}
	return nil
}

// Root follows free variables out to the defining function.
func Root(v ssa.Value) ssa.Value {
	for {
		fv, ok := v.(*ssa.FreeVar)
		if !ok {
			return v
		}
		r := ResolveFreeVar(fv)
		if r == nil {
			return v
		}
		v = r
	}
}

// singleStore returns the only value ever stored into a local cell, if the
// cell has exactly one store (anywhere in its function or nested closures).
func singleStore(a *ssa.Alloc) ssa.Value {
	var val ssa.Value
	n := 0
	fns := WithClosures(a.Parent())
	for _, f := range fns {
		for _, b := range f.Blocks {
			for _, in := range b.Instrs {
				st, ok := in.(*ssa.Store)
				if !ok {
					continue
				}
				if Root(st.Addr) == ssa.Value(a) {
					n++
					val = st.Val
				}
			}
		}
	}
	if n == 1 {
		return val
	}
	return nil
}

// Desc renders a canonical, position-free descriptor of an SSA value.  Field
// loads print as their field key, locals with a single definition print as that
// definition, pointers to module structs print as «Type».
func (p *Prog) Desc(v ssa.Value) string { return p.desc(v, 0) }

func (p *Prog) desc(v ssa.Value, depth int) string {
	if v == nil {
		return "<nil>"
	}
	if depth > 12 {
		return "…"
	}
	d := func(x ssa.Value) string { return p.desc(x, depth+1) }
	switch x := v.(type) {
	case *ssa.Const:
		if x.Value == nil {
			return "nil"
		}
		if x.Value.Kind() == constant.String {
			return x.Value.ExactString()
		}
		return x.Value.String()
	case *ssa.Global:
		return "&" + p.Short(x.String())
	case *ssa.Function:
		return p.FuncName(x)
	case *ssa.Builtin:
		return x.Name()
	case *ssa.Parameter:
		if tn := p.structPtrName(x.Type()); tn != "" {
			return "«" + tn + "»"
		}
		for i, q := range x.Parent().Params {
			if q == x {
				return fmt.Sprintf("param#%d", i)
			}
		}
		return "param:" + x.Name()
	case *ssa.FreeVar:
		if r := ResolveFreeVar(x); r != nil {
			return d(r)
		}
		if tn := p.structPtrName(x.Type()); tn != "" {
			return "«" + tn + "»"
		}
		return "free:" + x.Name()
	case *ssa.Alloc:
		if x.Comment != "" {
			return "&local." + x.Comment
		}
		return "&new"
	case *ssa.FieldAddr:
		return "&" + p.FieldKey(x)
	case *ssa.Field:
		return p.FieldKey(x)
	case *ssa.IndexAddr:
		return "&" + p.indexable(x.X, depth) + "[" + d(x.Index) + "]"
	case *ssa.Index:
		return d(x.X) + "[" + d(x.Index) + "]"
	case *ssa.Lookup:
		return d(x.X) + "[" + d(x.Index) + "]"
	case *ssa.UnOp:
		switch x.Op {
		case token.MUL:
			a := Root(x.X)
			switch a := a.(type) {
			case *ssa.FieldAddr:
				return p.FieldKey(a)
			case *ssa.Global:
				return p.Short(a.String())
			case *ssa.IndexAddr:
				return p.indexable(a.X, depth) + "[" + d(a.Index) + "]"
			case *ssa.Alloc:
				if s := singleStore(a); s != nil {
					return d(s)
				}
				return "local." + a.Comment
			}
			return "*" + d(x.X)
		case token.NOT:
			return "!" + d(x.X)
		case token.SUB:
			return "-" + d(x.X)
		case token.ARROW:
			return "<-" + d(x.X)
		case token.XOR:
			return "^" + d(x.X)
		}
		return x.Op.String() + d(x.X)
	case *ssa.BinOp:
		return "(" + d(x.X) + " " + x.Op.String() + " " + d(x.Y) + ")"
	case *ssa.Convert:
		return d(x.X)
	case *ssa.ChangeType:
		return d(x.X)
	case *ssa.MakeInterface:
		return d(x.X)
	case *ssa.ChangeInterface:
		return d(x.X)
	case *ssa.TypeAssert:
		return d(x.X) + ".(" + p.Short(types.TypeString(x.AssertedType, nil)) + ")"
	case *ssa.Extract:
		return d(x.Tuple) + "#" + fmt.Sprint(x.Index)
	case *ssa.Slice:
		s := p.indexable(x.X, depth) + "["
		if x.Low != nil {
			s += d(x.Low)
		}
		s += ":"
		if x.High != nil {
			s += d(x.High)
		}
		if x.Max != nil {
			s += ":" + d(x.Max)
		}
		return s + "]"
	case *ssa.Call:
		return p.descCall(&x.Call, depth)
	case *ssa.MakeClosure:
		return "closure:" + p.FuncName(x.Fn.(*ssa.Function))
	case *ssa.Phi:
		if x.Comment != "" {
			return "φ" + x.Comment
		}
		return "φ"
	case *ssa.MakeSlice:
		return "make(" + p.Short(types.TypeString(x.Type(), nil)) + "," + d(x.Len) + ")"
	case *ssa.MakeMap:
		return "makemap"
	case *ssa.MakeChan:
		return "makechan"
	case *ssa.Next:
		return "next(" + d(x.Iter) + ")"
	case *ssa.Range:
		return "range(" + d(x.X) + ")"
	case *ssa.Select:
		return "select"
	}
	return fmt.Sprintf("%T", v)
}

// indexable prints the base of an index/slice operation; a pointer-to-array or
// pointer-to-slice deref is printed like the value.
func (p *Prog) indexable(v ssa.Value, depth int) string {
	return p.desc(v, depth+1)
}

func (p *Prog) structPtrName(t types.Type) string {
	pt, ok := t.Underlying().(*types.Pointer)
	if !ok {
		return ""
	}
	if _, ok := pt.Elem().Underlying().(*types.Struct); !ok {
		return ""
	}
	return p.TypeName(pt.Elem())
}

// CalleeName names what a call invokes: a static function/method
// ("syscall.Write", "(*sync.Mutex).Lock"), an interface method
// ("invoke:mempool.Allocator.Free"), a builtin ("builtin:len") or a dynamic
// call through a value ("dyn:nbio.Engine.onClose").
func (p *Prog) CalleeName(c *ssa.CallCommon) string {
	if c.IsInvoke() {
		return "invoke:" + p.TypeName(c.Value.Type()) + "." + c.Method.Name()
	}
	switch f := c.Value.(type) {
	case *ssa.Function:
		return p.FuncName(f)
	case *ssa.Builtin:
		return "builtin:" + f.Name()
	case *ssa.MakeClosure:
		return p.FuncName(f.Fn.(*ssa.Function))
	}
	return "dyn:" + p.Desc(c.Value)
}

func (p *Prog) descCall(c *ssa.CallCommon, depth int) string {
	name := p.CalleeName(c)
	var args []string
	for _, a := range c.Args {
		args = append(args, p.desc(a, depth+1))
	}
	if strings.HasPrefix(name, "builtin:") {
		name = strings.TrimPrefix(name, "builtin:")
	}
	if c.IsInvoke() {
		return p.desc(c.Value, depth+1) + "." + c.Method.Name() + "(" + strings.Join(args, ",") + ")"
	}
	return name + "(" + strings.Join(args, ",") + ")"
}

// StaticCallee resolves the function a call statically targets, looking
// through closures bound to single-assignment locals.
func StaticCallee(c *ssa.CallCommon) *ssa.Function {
	if c.IsInvoke() {
		return nil
	}
	v := c.Value
	for i := 0; i < 4; i++ {
		switch f := v.(type) {
		case *ssa.Function:
			return f
		case *ssa.MakeClosure:
			return f.Fn.(*ssa.Function)
		case *ssa.UnOp:
			if f.Op == token.MUL {
				if a, ok := Root(f.X).(*ssa.Alloc); ok {
					if s := singleStore(a); s != nil {
						v = s
						continue
					}
				}
			}
			return nil
		case *ssa.FreeVar:
			r := ResolveFreeVar(f)
			if r == nil {
				return nil
			}
			v = r
			continue
		default:
			return nil
		}
	}
	return nil
}

// ConstInt returns the integer value of a constant operand.
func ConstInt(v ssa.Value) (int64, bool) {
	c, ok := Unconv(v).(*ssa.Const)
	if !ok || c.Value == nil {
		return 0, false
	}
	if c.Value.Kind() != constant.Int {
		return 0, false
	}
	n, exact := constant.Int64Val(c.Value)
	if !exact {
		u, ok := constant.Uint64Val(c.Value)
		if ok {
			return int64(u), true
		}
		return 0, false
	}
	return n, true
}

// IsNilConst reports the nil constant.
func IsNilConst(v ssa.Value) bool {
	c, ok := v.(*ssa.Const)
	return ok && c.Value == nil
}

// ConstBool returns the value of a boolean constant.
func ConstBool(v ssa.Value) (bool, bool) {
	c, ok := v.(*ssa.Const)
	if !ok || c.Value == nil || c.Value.Kind() != constant.Bool {
		return false, false
	}
	return constant.BoolVal(c.Value), true
}

// Resolve strips value-preserving conversions, free-variable indirections and
// loads of local cells that have exactly one store, giving the defining value.
func Resolve(v ssa.Value) ssa.Value {
	for i := 0; i < 16; i++ {
		v = Unconv(v)
		switch x := v.(type) {
		case *ssa.FreeVar:
			r := ResolveFreeVar(x)
			if r == nil {
				return v
			}
			v = r
			continue
		case *ssa.UnOp:
			if x.Op == token.MUL {
				if a, ok := Root(x.X).(*ssa.Alloc); ok {
					if s := singleStore(a); s != nil {
						v = s
						continue
					}
				}
			}
		}
		return v
	}
	return v
}

// ReachingStore resolves a load of a local cell (a variable captured by a
// closure, hence not lifted to SSA registers) to the value stored by the
// nearest preceding store in the same block, scanning back through unique
// predecessors.  It returns nil when no such store is found.
func ReachingStore(v ssa.Value) ssa.Value {
	ld, ok := Unconv(v).(*ssa.UnOp)
	if !ok || ld.Op != token.MUL {
		return nil
	}
	cell := ld.X
	if _, isAlloc := cell.(*ssa.Alloc); !isAlloc {
		if _, isFV := cell.(*ssa.FreeVar); !isFV {
			return nil
		}
	}
	b := ld.Block()
	start := -1
	for i, in := range b.Instrs {
		if in == ssa.Instruction(ld) {
			start = i
		}
	}
	// the unique store that reaches the load on every backward path (joins
	// are followed; a path that reaches the entry, a second distinct store, a
	// call that could write the cell through a closure, or a search beyond 64
	// blocks gives up)
	var found *ssa.Store
	fail := false
	seen := map[*ssa.BasicBlock]bool{}
	var walk func(b *ssa.BasicBlock, from int)
	walk = func(b *ssa.BasicBlock, from int) {
		if fail {
			return
		}
		for k := from - 1; k >= 0; k-- {
			if st, ok := b.Instrs[k].(*ssa.Store); ok && st.Addr == cell {
				if found != nil && found != st {
					fail = true
				}
				found = st
				return
			}
		}
		if len(b.Preds) == 0 || len(seen) > 64 {
			fail = true
			return
		}
		for _, p := range b.Preds {
			if seen[p] {
				continue
			}
			seen[p] = true
			walk(p, len(p.Instrs))
		}
	}
	walk(b, start)
	if fail || found == nil {
		return nil
	}
	return found.Val
}

// SameValue reports that x denotes value v: directly, after resolving
// conversions / single-store cells, or through the reaching store of a cell.
func SameValue(x, v ssa.Value) bool {
	if x == v || Resolve(x) == v || Resolve(x) == Resolve(v) {
		return true
	}
	if r := ReachingStore(x); r != nil && (r == v || Resolve(r) == Resolve(v)) {
		return true
	}
	return false
}
