// Package ir loads a Go module into go/ssa form and offers the small query
// vocabulary the rule tables are written in: canonical expression
// descriptors, field accesses, call-site matching, branch-edge dominance and
// instruction-level path queries.  Nothing here executes the analysed code.
package ir

import (
	"fmt"
	"go/token"
	"go/types"
	"os"
	"path/filepath"
	"sort"
	"strings"

	"golang.org/x/tools/go/packages"
	"golang.org/x/tools/go/ssa"
	"golang.org/x/tools/go/ssa/ssautil"
)

// Prog is one loaded build of a module.
type Prog struct {
	Dir     string
	GOOS    string
	GOARCH  string
	ModPath string
	Pkgs    []*packages.Package // module packages (initial)
	SSA     *ssa.Program
	Fset    *token.FileSet

	// Funcs are all source-level functions (incl. anonymous ones) of the
	// module packages, sorted by name.
	Funcs  []*ssa.Function
	byName map[string]*ssa.Function
	pkgSh  map[string]string // package path -> short name
	fninfo map[*ssa.Function]*FnInfo
	errnos map[int64]string
	// AllPkgs maps every loaded package path (dependencies included) to its
	// syntax and type information.
	AllPkgs map[string]*packages.Package
}

// LoadOpts selects the build to analyse.
type LoadOpts struct {
	Dir      string
	GOOS     string
	GOARCH   string
	Patterns []string
	// DepsBodies builds SSA bodies for dependencies too (needed for a call
	// graph through the standard library); otherwise only module packages.
	DepsBodies bool
}

// Load type-checks the module in opts.Dir and builds SSA. Any load or type
// error is returned: a build that does not type-check is never analysed.
func Load(opts LoadOpts) (*Prog, error) {
	if opts.GOOS == "" {
		opts.GOOS = "linux"
	}
	if opts.GOARCH == "" {
		opts.GOARCH = "amd64"
	}
	if len(opts.Patterns) == 0 {
		opts.Patterns = []string{"./..."}
	}
	env := []string{}
	for _, e := range os.Environ() {
		if strings.HasPrefix(e, "GOWORK=") || strings.HasPrefix(e, "GOOS=") || strings.HasPrefix(e, "GOARCH=") ||
			strings.HasPrefix(e, "GOFLAGS=") || strings.HasPrefix(e, "CGO_ENABLED=") || strings.HasPrefix(e, "GOPROXY=") ||
			strings.HasPrefix(e, "GOSUMDB=") || strings.HasPrefix(e, "GOTOOLCHAIN=") {
			continue
		}
		env = append(env, e)
	}
	env = append(env, "GOWORK=off", "GOOS="+opts.GOOS, "GOARCH="+opts.GOARCH, "CGO_ENABLED=0",
		"GOFLAGS=-mod=mod", "GOPROXY=off", "GOSUMDB=off", "GOTOOLCHAIN=local")
	cfg := &packages.Config{
		Mode:  packages.LoadAllSyntax,
		Dir:   opts.Dir,
		Env:   env,
		Tests: false,
	}
	pkgs, err := packages.Load(cfg, opts.Patterns...)
	if err != nil {
		return nil, fmt.Errorf("load %s: %w", opts.Dir, err)
	}
	if len(pkgs) == 0 {
		return nil, fmt.Errorf("load %s: zero packages", opts.Dir)
	}
	var errs []string
	packages.Visit(pkgs, nil, func(p *packages.Package) {
		for _, e := range p.Errors {
			errs = append(errs, e.Error())
		}
	})
	if len(errs) > 0 {
		sort.Strings(errs)
		if len(errs) > 8 {
			errs = errs[:8]
		}
		return nil, fmt.Errorf("load %s: %d package error(s): %s", opts.Dir, len(errs), strings.Join(errs, "; "))
	}
	var prog *ssa.Program
	if opts.DepsBodies {
		prog, _ = ssautil.AllPackages(pkgs, ssa.InstantiateGenerics)
	} else {
		prog, _ = ssautil.Packages(pkgs, ssa.InstantiateGenerics)
	}
	prog.Build()

	p := &Prog{Dir: opts.Dir, GOOS: opts.GOOS, GOARCH: opts.GOARCH, Pkgs: pkgs, SSA: prog,
		Fset: pkgs[0].Fset, byName: map[string]*ssa.Function{}, pkgSh: map[string]string{},
		fninfo: map[*ssa.Function]*FnInfo{}}
	if pkgs[0].Module != nil {
		p.ModPath = pkgs[0].Module.Path
	}
	p.AllPkgs = map[string]*packages.Package{}
	packages.Visit(pkgs, nil, func(pk *packages.Package) { p.AllPkgs[pk.PkgPath] = pk })
	for _, pk := range pkgs {
		p.pkgSh[pk.PkgPath] = pk.Name
	}
	// Collect source functions of the module packages.
	seen := map[*ssa.Function]bool{}
	var add func(f *ssa.Function)
	add = func(f *ssa.Function) {
		if f == nil || seen[f] {
			return
		}
		seen[f] = true
		if f.Blocks != nil || f.Synthetic == "" {
			p.Funcs = append(p.Funcs, f)
		}
		for _, a := range f.AnonFuncs {
			add(a)
		}
	}
	for _, pk := range pkgs {
		sp := prog.Package(pk.Types)
		if sp == nil {
			continue
		}
		for _, m := range sp.Members {
			switch m := m.(type) {
			case *ssa.Function:
				add(m)
			case *ssa.Type:
				for _, t := range []types.Type{m.Type(), types.NewPointer(m.Type())} {
					ms := prog.MethodSets.MethodSet(t)
					for i := 0; i < ms.Len(); i++ {
						f := prog.MethodValue(ms.At(i))
						if f != nil && f.Synthetic == "" && f.Pkg == sp {
							add(f)
						}
					}
				}
			}
		}
	}
	sort.Slice(p.Funcs, func(i, j int) bool { return p.FuncName(p.Funcs[i]) < p.FuncName(p.Funcs[j]) })
	for _, f := range p.Funcs {
		p.byName[p.FuncName(f)] = f
	}
	return p, nil
}

// Short rewrites fully qualified module package paths to package names:
// "(*github.com/lesismal/nbio/nbhttp.Parser).Parse" -> "(*nbhttp.Parser).Parse".
func (p *Prog) Short(s string) string {
	// longest paths first
	paths := make([]string, 0, len(p.pkgSh))
	for k := range p.pkgSh {
		paths = append(paths, k)
	}
	sort.Slice(paths, func(i, j int) bool { return len(paths[i]) > len(paths[j]) })
	for _, k := range paths {
		s = strings.ReplaceAll(s, k+".", p.pkgSh[k]+".")
	}
	return s
}

// FuncName is the short, stable name of a function: "(*nbio.Conn).write",
// "nbio.writev", "(*nbio.Conn).flush$1".
func (p *Prog) FuncName(f *ssa.Function) string {
	if f == nil {
		return "<nil>"
	}
	return p.Short(f.String())
}

// Func resolves a function by short name, or nil.
func (p *Prog) Func(name string) *ssa.Function { return p.byName[name] }

// Pos renders a position relative to the module directory.
func (p *Prog) Pos(pos token.Pos) string {
	if !pos.IsValid() {
		return "-"
	}
	ps := p.Fset.Position(pos)
	rel, err := filepath.Rel(p.Dir, ps.Filename)
	if err != nil || strings.HasPrefix(rel, "..") {
		rel = ps.Filename
	}
	return fmt.Sprintf("%s:%d", rel, ps.Line)
}

// InstrPos finds a usable position for an instruction (falling back to
// operands / the enclosing function when the instruction itself has none).
func (p *Prog) InstrPos(in ssa.Instruction) string {
	if in == nil {
		return "-"
	}
	if in.Pos().IsValid() {
		return p.Pos(in.Pos())
	}
	if v, ok := in.(ssa.Value); ok {
		_ = v
	}
	var ops []*ssa.Value
	ops = in.Operands(ops)
	for _, o := range ops {
		if o != nil && *o != nil && (*o).Pos().IsValid() {
			return p.Pos((*o).Pos())
		}
	}
	// nearest positioned instruction in the same block
	b := in.Block()
	if b != nil {
		idx := -1
		for i, x := range b.Instrs {
			if x == in {
				idx = i
			}
		}
		for d := 1; d < len(b.Instrs); d++ {
			for _, j := range []int{idx - d, idx + d} {
				if j >= 0 && j < len(b.Instrs) && b.Instrs[j].Pos().IsValid() {
					return p.Pos(b.Instrs[j].Pos())
				}
			}
		}
	}
	if in.Parent() != nil {
		return p.Pos(in.Parent().Pos())
	}
	return "-"
}

// TypeName gives the short name of a (pointer to) named type, or "".
func (p *Prog) TypeName(t types.Type) string {
	if t == nil {
		return ""
	}
	if pt, ok := t.Underlying().(*types.Pointer); ok {
		if _, named := t.(*types.Named); !named {
			t = pt.Elem()
		}
	}
	switch n := t.(type) {
	case *types.Named:
		o := n.Obj()
		if o.Pkg() == nil {
			return o.Name()
		}
		if sh, ok := p.pkgSh[o.Pkg().Path()]; ok {
			return sh + "." + o.Name()
		}
		return o.Pkg().Path() + "." + o.Name()
	case *types.Alias:
		return p.TypeName(types.Unalias(n))
	}
	return ""
}

// InModule reports whether f belongs to one of the module's own packages.
func (p *Prog) InModule(f *ssa.Function) bool {
	if f == nil {
		return false
	}
	pk := f.Pkg
	if pk == nil && f.Parent() != nil {
		return p.InModule(f.Parent())
	}
	if pk == nil || pk.Pkg == nil {
		return false
	}
	_, ok := p.pkgSh[pk.Pkg.Path()]
	return ok
}

// PkgOf returns the short package name of f ("nbio", "nbhttp", ...).
func (p *Prog) PkgOf(f *ssa.Function) string {
	for f != nil && f.Pkg == nil {
		f = f.Parent()
	}
	if f == nil || f.Pkg == nil {
		return ""
	}
	return p.pkgSh[f.Pkg.Pkg.Path()]
}

// Outermost returns the named function enclosing an anonymous one.
func Outermost(f *ssa.Function) *ssa.Function {
	for f.Parent() != nil {
		f = f.Parent()
	}
	return f
}

// Closures lists the anonymous functions nested (transitively) in f.
func Closures(f *ssa.Function) []*ssa.Function {
	var out []*ssa.Function
	var rec func(*ssa.Function)
	rec = func(g *ssa.Function) {
		for _, a := range g.AnonFuncs {
			out = append(out, a)
			rec(a)
		}
	}
	rec(f)
	return out
}

// WithClosures returns f followed by all its nested closures.
func WithClosures(f *ssa.Function) []*ssa.Function {
	return append([]*ssa.Function{f}, Closures(f)...)
}
