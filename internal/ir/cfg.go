package ir

import (
	"go/token"

	"golang.org/x/tools/go/ssa"
)

// FnInfo caches per-function control-flow facts.
type FnInfo struct {
	P  *Prog
	Fn *ssa.Function

	idx map[ssa.Instruction]int // position inside its block

	// edgeDom[if][k] = set of blocks (by index) that are reachable from the
	// entry only through the k-th successor edge of that If (k=0 true, 1 false).
	edgeDom map[*ssa.If][2]map[int]bool
}

// Info returns (building on first use) the cached facts of a function.
func (p *Prog) Info(fn *ssa.Function) *FnInfo {
	if fi, ok := p.fninfo[fn]; ok {
		return fi
	}
	fi := &FnInfo{P: p, Fn: fn, idx: map[ssa.Instruction]int{}}
	for _, b := range fn.Blocks {
		for i, in := range b.Instrs {
			fi.idx[in] = i
		}
	}
	p.fninfo[fn] = fi
	return fi
}

// Instrs iterates all instructions in block order.
func (fi *FnInfo) Instrs(f func(in ssa.Instruction)) {
	for _, b := range fi.Fn.Blocks {
		for _, in := range b.Instrs {
			f(in)
		}
	}
}

// Dominates reports that every path from the entry to b passes a first
// (instruction-level dominance; a dominates itself).
func (fi *FnInfo) Dominates(a, b ssa.Instruction) bool {
	if a == b {
		return true
	}
	ba, bb := a.Block(), b.Block()
	if ba == bb {
		return fi.idx[a] < fi.idx[b]
	}
	return ba.Dominates(bb)
}

// reachableBlocks computes the blocks reachable from the entry when one CFG
// edge (from -> from.Succs[k]) is removed.
func (fi *FnInfo) reachableWithout(from *ssa.BasicBlock, k int) map[int]bool {
	seen := map[int]bool{}
	if len(fi.Fn.Blocks) == 0 {
		return seen
	}
	stack := []*ssa.BasicBlock{fi.Fn.Blocks[0]}
	seen[0] = true
	for len(stack) > 0 {
		b := stack[len(stack)-1]
		stack = stack[:len(stack)-1]
		for i, s := range b.Succs {
			if b == from && i == k {
				continue
			}
			if !seen[s.Index] {
				seen[s.Index] = true
				stack = append(stack, s)
			}
		}
	}
	return seen
}

func (fi *FnInfo) allReachable() map[int]bool {
	return fi.reachableWithout(nil, -1)
}

// EdgeDominates reports that block b can only be reached through the k-th
// successor edge of the If (k=0: condition true, k=1: false).
func (fi *FnInfo) EdgeDominates(i *ssa.If, k int, b *ssa.BasicBlock) bool {
	if fi.edgeDom == nil {
		fi.edgeDom = map[*ssa.If][2]map[int]bool{}
	}
	e, ok := fi.edgeDom[i]
	if !ok {
		all := fi.allReachable()
		for kk := 0; kk < 2; kk++ {
			// If both successors are the same block the edge cannot dominate.
			m := map[int]bool{}
			if i.Block().Succs[0] != i.Block().Succs[1] {
				r := fi.reachableWithout(i.Block(), kk)
				for bi := range all {
					if !r[bi] {
						m[bi] = true
					}
				}
			}
			e[kk] = m
		}
		fi.edgeDom[i] = e
	}
	return e[k][b.Index]
}

// Fact is a branch outcome known to hold at a program point.
type Fact struct {
	If    *ssa.If
	Cond  ssa.Value
	Truth bool
}

// Facts lists the branch outcomes that dominate the instruction: every path
// from the function entry to it took these edges.
func (fi *FnInfo) Facts(at ssa.Instruction) []Fact {
	var out []Fact
	for _, b := range fi.Fn.Blocks {
		if len(b.Instrs) == 0 {
			continue
		}
		i, ok := b.Instrs[len(b.Instrs)-1].(*ssa.If)
		if !ok {
			continue
		}
		for k := 0; k < 2; k++ {
			if fi.EdgeDominates(i, k, at.Block()) {
				c, t := StripNot(i.Cond, k == 0)
				out = append(out, Fact{If: i, Cond: c, Truth: t})
			}
		}
	}
	return out
}

// StripNot removes leading negations from a condition, flipping the truth.
func StripNot(c ssa.Value, truth bool) (ssa.Value, bool) {
	for {
		u, ok := c.(*ssa.UnOp)
		if !ok || u.Op != token.NOT {
			return c, truth
		}
		c = u.X
		truth = !truth
	}
}

// Succ returns the instructions that may execute immediately after in.
func Succ(in ssa.Instruction) []ssa.Instruction {
	b := in.Block()
	for i, x := range b.Instrs {
		if x == in {
			if i+1 < len(b.Instrs) {
				return []ssa.Instruction{b.Instrs[i+1]}
			}
			var out []ssa.Instruction
			for _, s := range b.Succs {
				if len(s.Instrs) > 0 {
					out = append(out, s.Instrs[0])
				}
			}
			return out
		}
	}
	return nil
}

// Reach computes the instructions reachable from (strictly after) the start
// points without entering an instruction for which stop returns true.  The
// stop instructions themselves are reported in the second result.
func (fi *FnInfo) Reach(starts []ssa.Instruction, stop func(ssa.Instruction) bool) (visited map[ssa.Instruction]bool, stopped map[ssa.Instruction]bool) {
	visited = map[ssa.Instruction]bool{}
	stopped = map[ssa.Instruction]bool{}
	var work []ssa.Instruction
	for _, s := range starts {
		work = append(work, Succ(s)...)
	}
	for len(work) > 0 {
		in := work[len(work)-1]
		work = work[:len(work)-1]
		if visited[in] || stopped[in] {
			continue
		}
		if stop != nil && stop(in) {
			stopped[in] = true
			continue
		}
		visited[in] = true
		work = append(work, Succ(in)...)
	}
	return
}

// ReachFromEdge is Reach starting at the first instruction of the k-th
// successor of an If (that instruction included).
func (fi *FnInfo) ReachFromEdge(i *ssa.If, k int, stop func(ssa.Instruction) bool) (visited, stopped map[ssa.Instruction]bool) {
	visited = map[ssa.Instruction]bool{}
	stopped = map[ssa.Instruction]bool{}
	s := i.Block().Succs[k]
	if len(s.Instrs) == 0 {
		return
	}
	work := []ssa.Instruction{s.Instrs[0]}
	for len(work) > 0 {
		in := work[len(work)-1]
		work = work[:len(work)-1]
		if visited[in] || stopped[in] {
			continue
		}
		if stop != nil && stop(in) {
			stopped[in] = true
			continue
		}
		visited[in] = true
		work = append(work, Succ(in)...)
	}
	return
}

// IsExit reports instructions that leave the function.
func IsExit(in ssa.Instruction) bool {
	switch in.(type) {
	case *ssa.Return, *ssa.Panic:
		return true
	}
	return false
}

// Exits lists the return/panic instructions of the function.
func (fi *FnInfo) Exits() []ssa.Instruction {
	var out []ssa.Instruction
	fi.Instrs(func(in ssa.Instruction) {
		if IsExit(in) {
			out = append(out, in)
		}
	})
	return out
}

// Returns lists the return instructions.
func (fi *FnInfo) Returns() []*ssa.Return {
	var out []*ssa.Return
	fi.Instrs(func(in ssa.Instruction) {
		if r, ok := in.(*ssa.Return); ok {
			out = append(out, r)
		}
	})
	return out
}

// CanReach reports whether b may execute after a.
func (fi *FnInfo) CanReach(a, b ssa.Instruction) bool {
	v, _ := fi.Reach([]ssa.Instruction{a}, nil)
	return v[b]
}

// EscapesWithout reports the exits that can be reached from the start points
// on a path that avoids every "through" instruction; empty means every path
// from a start to a function exit passes a through-instruction.
func (fi *FnInfo) EscapesWithout(starts []ssa.Instruction, through func(ssa.Instruction) bool) []ssa.Instruction {
	vis, _ := fi.Reach(starts, through)
	var out []ssa.Instruction
	for in := range vis {
		if IsExit(in) {
			out = append(out, in)
		}
	}
	return out
}

// InLoop reports whether the instruction can reach itself.
func (fi *FnInfo) InLoop(in ssa.Instruction) bool {
	v, _ := fi.Reach([]ssa.Instruction{in}, nil)
	return v[in]
}

// RetVals returns the values a return instruction yields, looking through the
// "defer-spilled" form (*res = v; rundefers; t = *res; return t) that go/ssa
// produces for functions with defers or named results.
func RetVals(r *ssa.Return) []ssa.Value {
	out := make([]ssa.Value, len(r.Results))
	for i, v := range r.Results {
		out[i] = v
		ld, ok := v.(*ssa.UnOp)
		if !ok || ld.Op != token.MUL {
			continue
		}
		a, ok := ld.X.(*ssa.Alloc)
		if !ok {
			continue
		}
		// last store to the cell before the load, scanning back through
		// unique predecessors
		b := r.Block()
		start := -1
		for k, in := range b.Instrs {
			if in == ssa.Instruction(ld) {
				start = k
			}
		}
		if ld.Block() != b {
			continue
		}
		found := false
		for hops := 0; hops < 8 && !found; hops++ {
			for k := start - 1; k >= 0; k-- {
				if st, ok := b.Instrs[k].(*ssa.Store); ok && st.Addr == ssa.Value(a) {
					out[i] = st.Val
					found = true
					break
				}
				// a call could write the cell only if its address escaped; named
				// results captured by deferred closures are left unresolved.
			}
			if found || len(b.Preds) != 1 {
				break
			}
			b = b.Preds[0]
			start = len(b.Instrs)
		}
	}
	return out
}

// ReachOpt is Reach with an additional filter on branch edges: an edge for
// which skipEdge returns true is not followed.  fromEdge, when non-nil,
// starts the walk at the first instruction of that successor instead of after
// the start instructions.
func (fi *FnInfo) ReachOpt(starts []ssa.Instruction, stop func(ssa.Instruction) bool, skipEdge func(i *ssa.If, k int) bool) (visited, stopped map[ssa.Instruction]bool) {
	visited = map[ssa.Instruction]bool{}
	stopped = map[ssa.Instruction]bool{}
	succ := func(in ssa.Instruction) []ssa.Instruction {
		if i, ok := in.(*ssa.If); ok && skipEdge != nil {
			var out []ssa.Instruction
			for k, s := range i.Block().Succs {
				if skipEdge(i, k) {
					continue
				}
				if len(s.Instrs) > 0 {
					out = append(out, s.Instrs[0])
				}
			}
			return out
		}
		return Succ(in)
	}
	var work []ssa.Instruction
	for _, s := range starts {
		work = append(work, succ(s)...)
	}
	for len(work) > 0 {
		in := work[len(work)-1]
		work = work[:len(work)-1]
		if visited[in] || stopped[in] {
			continue
		}
		if stop != nil && stop(in) {
			stopped[in] = true
			continue
		}
		visited[in] = true
		work = append(work, succ(in)...)
	}
	return
}

// Ifs lists the If instructions of the function.
func (fi *FnInfo) Ifs() []*ssa.If {
	var out []*ssa.If
	for _, b := range fi.Fn.Blocks {
		if len(b.Instrs) > 0 {
			if i, ok := b.Instrs[len(b.Instrs)-1].(*ssa.If); ok {
				out = append(out, i)
			}
		}
	}
	return out
}

// LoopBlocks returns the blocks of the natural cycle through b (blocks that b
// can reach and that can reach b), or nil when b is not in a loop.
func (fi *FnInfo) LoopBlocks(b *ssa.BasicBlock) map[*ssa.BasicBlock]bool {
	fwd := map[*ssa.BasicBlock]bool{}
	var stack []*ssa.BasicBlock
	stack = append(stack, b.Succs...)
	for len(stack) > 0 {
		x := stack[len(stack)-1]
		stack = stack[:len(stack)-1]
		if fwd[x] {
			continue
		}
		fwd[x] = true
		stack = append(stack, x.Succs...)
	}
	if !fwd[b] {
		return nil
	}
	bwd := map[*ssa.BasicBlock]bool{}
	stack = append(stack, b.Preds...)
	for len(stack) > 0 {
		x := stack[len(stack)-1]
		stack = stack[:len(stack)-1]
		if bwd[x] {
			continue
		}
		bwd[x] = true
		stack = append(stack, x.Preds...)
	}
	out := map[*ssa.BasicBlock]bool{}
	for x := range fwd {
		if bwd[x] {
			out[x] = true
		}
	}
	return out
}

// Feasible checks the dominating integer comparisons at `at` for a
// contradiction on identical (resolved) SSA values: engine E6.  It returns
// false together with the contradicting expression descriptor.
func (fi *FnInfo) Feasible(at ssa.Instruction) (bool, string) {
	type rng struct {
		lo, hi int64
		ne     map[int64]bool
	}
	m := map[ssa.Value]*rng{}
	for _, f := range fi.Facts(at) {
		c, ok := DecodeIntCmp(f.Cond)
		if !ok {
			continue
		}
		e := Resolve(c.Expr)
		r := m[e]
		if r == nil {
			r = &rng{lo: NegInf, hi: PosInf, ne: map[int64]bool{}}
			m[e] = r
		}
		// the fact: comparison is f.Truth
		lo, hi := c.TrueSet.Lo, c.TrueSet.Hi
		positive := f.Truth != c.NotEq // value lies inside [lo,hi]
		if positive {
			if lo > r.lo {
				r.lo = lo
			}
			if hi < r.hi {
				r.hi = hi
			}
		} else {
			// value lies outside [lo,hi]
			switch {
			case lo == NegInf && hi == PosInf:
				r.lo, r.hi = 1, 0
			case lo == NegInf:
				if hi+1 > r.lo {
					r.lo = hi + 1
				}
			case hi == PosInf:
				if lo-1 < r.hi {
					r.hi = lo - 1
				}
			case lo == hi:
				r.ne[lo] = true
			}
		}
	}
	for e, r := range m {
		for r.lo <= r.hi && r.ne[r.lo] {
			r.lo++
		}
		for r.lo <= r.hi && r.ne[r.hi] {
			r.hi--
		}
		if r.lo > r.hi {
			return false, fi.P.Desc(e)
		}
	}
	return true, ""
}

// FactsOnEdge lists the branch outcomes known when control flows from pred to
// its successor succ: the facts dominating pred's terminator plus, when pred
// ends in an If, the outcome of that very branch.
func (fi *FnInfo) FactsOnEdge(pred, succ *ssa.BasicBlock) []Fact {
	if len(pred.Instrs) == 0 {
		return nil
	}
	last := pred.Instrs[len(pred.Instrs)-1]
	out := fi.Facts(last)
	if i, ok := last.(*ssa.If); ok && pred.Succs[0] != pred.Succs[1] {
		for k := 0; k < 2; k++ {
			if pred.Succs[k] == succ {
				c, t := StripNot(i.Cond, k == 0)
				out = append(out, Fact{If: i, Cond: c, Truth: t})
			}
		}
	}
	return out
}

// IntervalAt computes the interval of v implied by the dominating integer
// comparisons of v with constants at the instruction (≠ facts are ignored
// unless they trim a bound).
func (fi *FnInfo) IntervalAt(at ssa.Instruction, v ssa.Value) (lo, hi int64) {
	return IntervalOf(fi.Facts(at), v)
}

// IntervalOf is IntervalAt over an explicit fact list.
func IntervalOf(facts []Fact, v ssa.Value) (lo, hi int64) {
	lo, hi = NegInf, PosInf
	rv := Resolve(v)
	if c, ok := rv.(*ssa.Call); ok {
		if b, ok := c.Call.Value.(*ssa.Builtin); ok && (b.Name() == "len" || b.Name() == "cap") {
			lo = 0
		}
	}
	ne := map[int64]bool{}
	for _, f := range facts {
		c, ok := DecodeIntCmp(f.Cond)
		if !ok || Resolve(c.Expr) != rv {
			continue
		}
		inside := f.Truth != c.NotEq
		l, h := c.TrueSet.Lo, c.TrueSet.Hi
		if inside {
			if l > lo {
				lo = l
			}
			if h < hi {
				hi = h
			}
		} else {
			switch {
			case l == NegInf && h != PosInf:
				if h+1 > lo {
					lo = h + 1
				}
			case h == PosInf && l != NegInf:
				if l-1 < hi {
					hi = l - 1
				}
			case l == h:
				ne[l] = true
			}
		}
	}
	for lo <= hi && ne[lo] {
		lo++
	}
	for lo <= hi && ne[hi] {
		hi--
	}
	return
}
