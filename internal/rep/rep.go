// Package rep collects obligation results of one property check, matches them
// against the committed known-findings file, prints the VIOLATION /
// KNOWN-FINDING lines and writes the evidence file.
package rep

import (
	"crypto/sha1"
	"encoding/json"
	"fmt"
	"os"
	"path/filepath"
	"sort"
	"strings"
	"time"
)

const (
	Discharged = "discharged"
	Violated   = "violated"
	Known      = "known-finding"
	Unresolved = "unresolved"
)

// Result is one evaluated obligation instance.
type Result struct {
	Ob        string `json:"obligation"` // e.g. C01.O2
	Construct string `json:"construct"`  // resolved construct key (no line numbers)
	Status    string `json:"status"`
	Pos       string `json:"pos,omitempty"`
	Detail    string `json:"detail,omitempty"`
	Build     string `json:"build,omitempty"`
}

// Key identifies the instance independent of source position.
func (r Result) Key() string { return r.Ob + "|" + r.Construct }

// RuleInfo documents an obligation generator.
type RuleInfo struct {
	Ob     string `json:"obligation"`
	Engine string `json:"engine"`
	Text   string `json:"rule"`
	Floor  int    `json:"instance_floor"`
	Count  int    `json:"instances"`
}

// Check accumulates the results for one property.
type Check struct {
	Prop    string
	Tier    string
	Seed    int64
	Build   string // label of the build currently analysed
	Results []Result
	rules   map[string]*RuleInfo
	order   []string
	Start   time.Time

	// measured coverage counters
	Packages      int
	Functions     int
	CallSites     int
	Builds        []string
	Fixtures      int
	FixtureFail   []string
	Info          []string // informational lines (e.g. darwin results)
	Assumptions   []string
	NotCovered    string
	Explanation   string
	Level         string
	TrustedBase   []string
	CheckerCmd    string
	ExhaustiveTbl map[string]int // name -> number of table cells enumerated
}

func New(prop, tier string, seed int64) *Check {
	return &Check{Prop: prop, Tier: tier, Seed: seed, rules: map[string]*RuleInfo{}, Start: time.Now(),
		Level: "other", ExhaustiveTbl: map[string]int{}}
}

// Rule registers an obligation generator with its instance floor.
func (c *Check) Rule(ob, engine, text string, floor int) {
	if _, ok := c.rules[ob]; ok {
		c.rules[ob].Floor = floor
		return
	}
	c.rules[ob] = &RuleInfo{Ob: ob, Engine: engine, Text: text, Floor: floor}
	c.order = append(c.order, ob)
}

func (c *Check) add(ob, construct, status, pos, detail string) {
	if _, ok := c.rules[ob]; !ok {
		c.Rule(ob, "?", "", 0)
	}
	c.Results = append(c.Results, Result{Ob: ob, Construct: construct, Status: status, Pos: pos, Detail: detail, Build: c.Build})
	if status == Discharged || status == Violated {
		c.rules[ob].Count++
	}
}

// OK records a discharged instance.
func (c *Check) OK(ob, construct, pos, detail string) { c.add(ob, construct, Discharged, pos, detail) }

// Bad records a violated instance.
func (c *Check) Bad(ob, construct, pos, detail string) { c.add(ob, construct, Violated, pos, detail) }

// Unres records an anchor that could not be resolved / a rule that could not decide.
func (c *Check) Unres(ob, construct, detail string) { c.add(ob, construct, Unresolved, "", detail) }

// Cond records OK when holds, else Bad.
func (c *Check) Cond(holds bool, ob, construct, pos, okDetail, badDetail string) {
	if holds {
		c.OK(ob, construct, pos, okDetail)
	} else {
		c.Bad(ob, construct, pos, badDetail)
	}
}

// KnownFile is the committed findings file.
type KnownFile struct {
	Open []struct {
		Property string `json:"property"`
		Key      string `json:"key"`
		What     string `json:"what"`
	} `json:"open"`
	Fixed []struct {
		Property string `json:"property"`
		Commit   string `json:"commit"`
		Key      string `json:"key"`
		What     string `json:"what"`
	} `json:"fixed"`
}

func loadKnown(path string) (*KnownFile, error) {
	var k KnownFile
	b, err := os.ReadFile(path)
	if err != nil {
		if os.IsNotExist(err) {
			return &k, nil
		}
		return nil, err
	}
	if err := json.Unmarshal(b, &k); err != nil {
		return nil, err
	}
	return &k, nil
}

// Finish applies floors and known findings, prints the verdict lines, writes
// the evidence and replay files and returns the process exit code.
func (c *Check) Finish(verifDir string) int {
	// a check that evaluated nothing must not pass
	if len(c.Results) == 0 {
		c.Results = append(c.Results, Result{Ob: c.Prop + ".empty", Construct: "obligations", Status: Unresolved, Detail: "the check evaluated no obligation"})
	}
	// floors
	for _, ob := range c.order {
		ri := c.rules[ob]
		if ri.Count < ri.Floor {
			c.Results = append(c.Results, Result{Ob: ob, Construct: "instance-floor", Status: Unresolved,
				Detail: fmt.Sprintf("matched %d instance(s), floor confirmed by hand is %d: the rule would pass vacuously", ri.Count, ri.Floor)})
		}
	}
	known, err := loadKnown(filepath.Join(verifDir, "known_findings.json"))
	if err != nil {
		fmt.Printf("ERROR reading known_findings.json: %v\n", err)
		known = &KnownFile{}
		c.Results = append(c.Results, Result{Ob: c.Prop + ".known", Construct: "known_findings.json", Status: Unresolved, Detail: err.Error()})
	}
	openKeys := map[string]string{}
	for _, o := range known.Open {
		if o.Property == c.Prop {
			openKeys[o.Key] = o.What
		}
	}
	seenKnown := map[string]bool{}
	for i := range c.Results {
		r := &c.Results[i]
		if r.Status == Violated {
			if what, ok := openKeys[r.Key()]; ok {
				r.Status = Known
				if !seenKnown[r.Key()] {
					seenKnown[r.Key()] = true
					fmt.Printf("KNOWN-FINDING: property=%s %s: %s\n", c.Prop, r.Key(), what)
				}
			}
		}
	}
	replayDir := filepath.Join(verifDir, "evidence", "replay")
	nviol := 0
	seenV := map[string]bool{}
	sort.SliceStable(c.Results, func(i, j int) bool { return false })
	for _, r := range c.Results {
		if r.Status != Violated && r.Status != Unresolved {
			continue
		}
		nviol++
		k := r.Key() + "|" + r.Build
		if seenV[k] {
			continue
		}
		seenV[k] = true
		_ = os.MkdirAll(replayDir, 0o755)
		h := sha1.Sum([]byte(k))
		path := filepath.Join(replayDir, fmt.Sprintf("%s-%x.json", c.Prop, h[:6]))
		rule := c.rules[r.Ob]
		rec := map[string]interface{}{"property": c.Prop, "result": r, "rule": rule}
		b, _ := json.MarshalIndent(rec, "", " ")
		_ = os.WriteFile(path, b, 0o644)
		fmt.Printf("%s %s [%s] %s: %s\n", strings.ToUpper(r.Status), r.Ob, r.Pos, r.Construct, r.Detail)
		fmt.Printf("VIOLATION property=%s replay=%s\n", c.Prop, path)
	}
	c.writeEvidence(verifDir, nviol)
	if nviol > 0 {
		return 1
	}
	return 0
}

func (c *Check) writeEvidence(verifDir string, nviol int) {
	obligations, discharged, knownN := 0, 0, 0
	distinct := map[string]bool{}
	for _, r := range c.Results {
		obligations++
		switch r.Status {
		case Discharged:
			discharged++
			distinct[r.Key()] = true
		case Known:
			knownN++
			distinct[r.Key()] = true
		case Violated:
			distinct[r.Key()] = true
		}
	}
	var rules []RuleInfo
	for _, ob := range c.order {
		rules = append(rules, *c.rules[ob])
	}
	// samples: first instance of each obligation, then violations.
	var samples []Result
	seen := map[string]bool{}
	for _, r := range c.Results {
		if r.Status != Discharged {
			samples = append(samples, r)
		} else if !seen[r.Ob] {
			seen[r.Ob] = true
			samples = append(samples, r)
		}
	}
	if len(samples) > 60 {
		samples = samples[:60]
	}
	cov := map[string]interface{}{
		"explanation":         c.Explanation,
		"not_covered":         c.NotCovered,
		"obligations":         obligations,
		"discharged":          discharged,
		"known_findings":      knownN,
		"evaluations":         obligations,
		"distinct_nontrivial": len(distinct),
		"rule":                "one evaluation = one obligation instance (rule x resolved construct) decided on the SSA/CFG of /repo's current tree; distinct = distinct obligation keys that analysed at least one site or path",
		"rules":               rules,
		"samples":             samples,
		"exhaustive":          true,
		"packages":            c.Packages,
		"functions_analysed":  c.Functions,
		"call_sites":          c.CallSites,
		"builds":              c.Builds,
		"fixtures_passed":     c.Fixtures,
		"fixture_failures":    c.FixtureFail,
		"tables_enumerated":   c.ExhaustiveTbl,
		"informational":       c.Info,
		"checker_cmd":         c.CheckerCmd,
		"trusted_base":        c.TrustedBase,
	}
	ev := map[string]interface{}{
		"property_id": c.Prop,
		"tier":        c.Tier,
		"seed":        c.Seed,
		"level":       c.Level,
		"coverage":    cov,
		"assumptions": c.Assumptions,
		"wall_s":      time.Since(c.Start).Seconds(),
		"violations":  nviol,
	}
	dir := filepath.Join(verifDir, "evidence")
	_ = os.MkdirAll(dir, 0o755)
	b, _ := json.MarshalIndent(ev, "", " ")
	_ = os.WriteFile(filepath.Join(dir, c.Prop+".json"), append(b, '\n'), 0o644)
}
