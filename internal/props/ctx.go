// Package props holds the per-property rule tables (DESIGN §4).
package props

import (
	"fmt"
	"sort"
	"strings"

	"golang.org/x/tools/go/ssa"

	"verif/internal/eng"
	"verif/internal/ir"
	"verif/internal/rep"
)

// Ctx is what a property's obligation generators see.
type Ctx struct {
	*rep.Check
	P     *ir.Prog
	Tier  string
	locks *eng.Locks
	// LoadBuild loads another GOOS/GOARCH build of /repo (thorough tier).
	LoadBuild func(goos, goarch string) (*ir.Prog, error)
}

// Locks returns the (cached) lockset analysis of the current build.
func (c *Ctx) Locks() *eng.Locks {
	if c.locks == nil {
		c.locks = eng.AnalyzeLocks(c.P)
	}
	return c.locks
}

// WithProg returns a context for another build sharing the result sink.
func (c *Ctx) WithProg(p *ir.Prog) *Ctx {
	return &Ctx{Check: c.Check, P: p, Tier: c.Tier, LoadBuild: c.LoadBuild}
}

// Fn resolves a function anchor; an unresolved anchor is recorded against ob.
func (c *Ctx) Fn(ob, name string) *ssa.Function {
	f := c.P.Func(name)
	if f == nil || len(f.Blocks) == 0 {
		c.Unres(ob, name, "anchor function not found in the "+c.P.GOOS+"/"+c.P.GOARCH+" build")
		return nil
	}
	return f
}

// Pos is shorthand for the position of an instruction.
func (c *Ctx) Pos(in ssa.Instruction) string { return c.P.InstrPos(in) }

// FnPos is the position of a function.
func (c *Ctx) FnPos(f *ssa.Function) string { return c.P.Pos(f.Pos()) }

// Property is a registered check.
type Property struct {
	ID          string
	Explanation string
	NotCovered  string
	Run         func(c *Ctx)
	Engines     []string // fixture groups this property depends on
}

var registry = map[string]*Property{}

func register(p *Property) { registry[p.ID] = p }

// Get returns a registered property.
func Get(id string) *Property { return registry[id] }

// IDs lists registered property ids.
func IDs() []string {
	var out []string
	for k := range registry {
		out = append(out, k)
	}
	sort.Strings(out)
	return out
}

// ordinal keys: the n-th call of callee inside fn (stable under moving code
// between files / re-indenting; changes only if calls are added or removed).
func (c *Ctx) siteKey(fn *ssa.Function, what string, n int) string {
	return fmt.Sprintf("%s: %s#%d", c.P.FuncName(fn), what, n)
}

func fnKey(p *ir.Prog, fn *ssa.Function, what string) string {
	return p.FuncName(fn) + ": " + what
}

func joinNames(p *ir.Prog, fs []*ssa.Function) string {
	var s []string
	for _, f := range fs {
		s = append(s, p.FuncName(f))
	}
	sort.Strings(s)
	return strings.Join(s, ", ")
}

func sortedKeys(m map[string]bool) []string {
	var s []string
	for k := range m {
		s = append(s, k)
	}
	sort.Strings(s)
	return s
}
