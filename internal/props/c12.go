package props

import (
	"fmt"
	"go/constant"
	"go/token"
	"go/types"
	"strings"

	"golang.org/x/tools/go/ssa"

	"verif/internal/ir"
)

func init() {
	register(&Property{
		ID:          "C12",
		Engines:     []string{"cfg"},
		Explanation: "WebSocket round trip, structural part (payload equality is value-level): writer and reader agree on the wire format. The encoder's partition of len(data) into 7-bit / 16-bit / 64-bit length classes with header sizes 2/4/10 (+4 when masking) and the decoder's equal RFC 6455 §5.2 (O1); both sides use the same header bit masks and the decoded bits reach the right results (O2); the client masks only the copy in its frame buffer with the key written in the four bytes before the payload, the caller's data is only read; the decoder unmasks only on the frame-complete edge and every path after it consumes the frame or fails (O3); WriteMessage fragments with opcode and compression bit on the first fragment only, FIN exactly on the last, fragment size <= MaxWebsocketFramePayloadSize, an empty message still emits one FIN frame (O4); fragments are appended at the tail, the type is the first frame's, state is reset on FIN, control frames do not touch the message, and the hand-off of a finished message does not depend on its buffer being non-nil (O5). The per-message compression flag is taken from a frame only while no message is open, cleared on FIN, and decides every inflate step (O6). The per-message state is reset only inside the data-frame case (O7); pooled (de)compressors are handed back once (O8). TLS drain loop of transferred connections (O10); the extension is negotiated only under enableCompression (O11). A message inflating to exactly the limit is delivered (O12).",
		NotCovered:  "the payload bytes, maskXOR arithmetic, deflate and the tail trimming / re-appending, all segmentations as executions",
		Run:         runC12,
	})
}

// byteIndexOf reports that addr is &buf[k] for a constant k and returns k.
func byteIndexOf(addr ssa.Value) (int64, bool) {
	ia, ok := addr.(*ssa.IndexAddr)
	if !ok {
		return 0, false
	}
	if pt, ok := ia.Type().Underlying().(*types.Pointer); !ok || pt.Elem().String() != "byte" && pt.Elem().String() != "uint8" {
		return 0, false
	}
	return ir.ConstInt(ia.Index)
}

// orConsts collects the constant leaves of an OR tree; other leaves are returned too.
func orLeaves(v ssa.Value) (consts []int64, others []ssa.Value) {
	v = ir.Resolve(v)
	if b, ok := v.(*ssa.BinOp); ok && b.Op == token.OR {
		c1, o1 := orLeaves(b.X)
		c2, o2 := orLeaves(b.Y)
		return append(c1, c2...), append(o1, o2...)
	}
	if k, ok := ir.ConstInt(v); ok {
		return []int64{k}, nil
	}
	return nil, []ssa.Value{v}
}

func sliceBounds(v ssa.Value) (lo, hi int64, ok bool) {
	sl, isSl := ir.Resolve(v).(*ssa.Slice)
	if !isSl || sl.Low == nil || sl.High == nil {
		return 0, 0, false
	}
	l, ok1 := ir.ConstInt(sl.Low)
	h, ok2 := ir.ConstInt(sl.High)
	return l, h, ok1 && ok2
}

func runC12(c *Ctx) {
	c.Rule("C12.O1", "E8", "length classes: encoder [0,125]->literal/2, [126,65535]->126+16bit@[2:4]/4, else 127+64bit@[2:10]/10, +4 when masking; decoder: <=125 literal, 126->[2:4]/4, 127->[2:10]/10, +4 when the mask bit is set", 2)
	c.Rule("C12.O2", "E9", "header bit masks: byte0 FIN 0x80 RSV1 0x40 RSV2 0x20 RSV3 0x10 opcode 0x0F, byte1 MASK 0x80 length 0x7F; decoded bits reach opcode/fin/compress and validFrame in the right positions", 2)
	c.Rule("C12.O3", "E4,E2-escape", "client: mask bit set, key in the 4 bytes before the payload, maskXOR on the frame buffer only, caller's data only read; decoder: unmask only on the frame-complete edge; afterwards the frame is consumed or an error is set", 3)
	c.Rule("C12.O4", "E4", "WriteMessage fragmentation: opcode and compression bit only on the first fragment, FIN iff n==len(rest), n<=MaxWebsocketFramePayloadSize, rest advances by n, empty message emits one FIN frame", 2)
	c.Rule("C12.O6", "E4", "per-message compression: Conn.compress is taken from a frame's RSV1 only while no message is open (msgType == 0) and cleared on the FIN edge; every inflate is decided by that field, not by the current frame's bit (only the first fragment carries RSV1)", 2)
	c.Rule("C12.O7", "E4", "the per-message state (msgType, compress) is reset only inside the data-frame case: no path through a control frame's case reaches a reset (a Ping between two fragments must not wipe the message under assembly)", 1)
	c.Rule("C12.O8", "E4", "pooled (de)compressors are handed back once: every sync.Pool.Put of a wrapper's reader/writer is followed on every path by clearing the wrapper's field", 2)
	c.Rule("C12.O9", "E4", "the unparsed-input cache is compacted by copying to the front, never by re-slicing the pooled buffer from the front (same rule as C11.O9)", 1)
	c.Rule("C12.O10", "E4,E6", "the TLS drain loop of a WebSocket connection handed to the poller reads the decrypted stream to exhaustion: draining stops only on a zero count (one socket read can carry several TLS records, i.e. several frames)", 1)
	c.Rule("C12.O11", "E4", "permessage-deflate is negotiated only under the option that the frame validator uses to accept RSV1: the client's offer (the Sec-Websocket-Extensions request field) and the server's acceptance (compress = true) are dominated by enableCompression being set", 2)
	c12NegotiationFlag(c)
	c.Rule("C12.O12", "E4", "a compressed message that inflates to exactly the limit is delivered: readAll refuses on its len+1 test only after a further read delivered a byte", 1)
	c12ExactLimitInflates(c)
	c10TLSDrain(c, "C12.O10", "websocket")
	c11NoFrontReslice(c, "C12.O9")
	c12ResetScope(c)
	c12PoolOnce(c)
	c.Rule("C12.O5", "E4", "reassembly: tail append; msgType assigned only while 0; reset on FIN; control frames leave message alone; the hand-off is decided by a flag set on the FIN edge, not by the buffer being non-nil", 4)
	c12CompressFlag(c)

	wf := c.Fn("C12.O1", "(*websocket.Conn).writeFrame")
	nf := c.Fn("C12.O1", "(*websocket.Conn).nextFrame")

	// ------------------------------------------------------------------ O1 encoder
	if wf != nil {
		fi := c.P.Info(wf)
		pd := paramOfType(wf, "[]byte")
		key := fnKey(c.P, wf, "encoder length classes")
		var bodyLen ssa.Value
		// the value compared against 126 / 65535
		for _, i := range fi.Ifs() {
			if cmp, ok := ir.DecodeIntCmp(i.Cond); ok {
				if x, isLen := ir.IsLenOf(ir.Resolve(cmp.Expr)); isLen && ir.Resolve(x) == ssa.Value(pd) {
					bodyLen = ir.Resolve(cmp.Expr)
				}
			}
		}
		bad := ""
		if bodyLen == nil {
			bad = "no length classification on len(data)"
		}
		type class struct {
			lo, hi   int64
			code     int64 // 0 = literal
			head     int64
			seen     bool
			slo, shi int64
		}
		classes := []*class{{0, 125, 0, 2, false, 0, 0}, {126, 65535, 126, 4, false, 2, 4}, {65536, ir.PosInf, 127, 10, false, 2, 10}}
		if bad == "" {
			// stores to byte 1, one per class
			for _, b := range wf.Blocks {
				for _, in := range b.Instrs {
					st, ok := in.(*ssa.Store)
					if !ok {
						continue
					}
					k, isIdx := byteIndexOf(st.Addr)
					if !isIdx || k != 1 {
						continue
					}
					lo, hi := fi.IntervalAt(st, bodyLen)
					if lo < 0 {
						lo = 0
					}
					consts, others := orLeaves(st.Val)
					var cl *class
					for _, x := range classes {
						if x.lo == lo && x.hi == hi {
							cl = x
						}
					}
					if cl == nil {
						bad = fmt.Sprintf("byte 1 is written at %s for lengths [%d,%d], which is not an RFC 6455 length class", c.Pos(st), lo, hi)
						continue
					}
					cl.seen = true
					var code int64
					for _, x := range consts {
						code |= x
					}
					literal := false
					for _, o := range others {
						if ir.Resolve(o) == bodyLen {
							literal = true
						}
					}
					if cl.code == 0 && (!literal || code&0x7f != 0) || cl.code != 0 && (literal || code&0x7f != cl.code) {
						bad = fmt.Sprintf("length class [%d,%d] writes length code %d (literal=%v), expected %d", lo, hi, code&0x7f, literal, cl.code)
					}
					// header size in this block: K + maskLen
					okHead := false
					for _, x := range b.Instrs {
						if bo, ok := x.(*ssa.BinOp); ok && bo.Op == token.ADD {
							if k, isK := ir.ConstInt(bo.X); isK && k == cl.head {
								okHead = true
							}
							if k, isK := ir.ConstInt(bo.Y); isK && k == cl.head {
								okHead = true
							}
						}
					}
					if !okHead {
						bad = fmt.Sprintf("length class [%d,%d] does not use header size %d (+mask)", lo, hi, cl.head)
					}
					// extended length field
					for _, x := range b.Instrs {
						cs, ok := ir.AsCall(x)
						if !ok {
							continue
						}
						n := c.P.CalleeName(cs.Common)
						if n == "(encoding/binary.bigEndian).PutUint16" || n == "(encoding/binary.bigEndian).PutUint64" {
							l, h, okB := sliceBounds(cs.Common.Args[1])
							want16 := cl.code == 126
							if !okB || l != cl.slo || h != cl.shi || (n == "(encoding/binary.bigEndian).PutUint16") != want16 || ir.Resolve(cs.Common.Args[2]) != bodyLen {
								bad = fmt.Sprintf("length class [%d,%d] writes its extended length with %s at [%d:%d]", lo, hi, n, l, h)
							}
							cl.slo, cl.shi = -1, -1 // mark found
						}
					}
					if cl.code != 0 && cl.slo != -1 {
						bad = fmt.Sprintf("length class [%d,%d] does not write its extended length field", lo, hi)
					}
				}
			}
			for _, cl := range classes {
				if !cl.seen && bad == "" {
					bad = fmt.Sprintf("no branch for the length class [%d,%d]", cl.lo, cl.hi)
				}
			}
		}
		c.Cond(bad == "", "C12.O1", key, c.FnPos(wf), "three classes with codes literal/126/127, fields [2:4]/[2:10], header 2/4/10 (+mask)", bad)
	}
	// ------------------------------------------------------------------ O1 decoder
	if nf != nil {
		fi := c.P.Info(nf)
		key := fnKey(c.P, nf, "decoder length classes")
		bad := ""
		// payloadLen = byte1 & 0x7f
		var payloadLen ssa.Value
		for _, b := range nf.Blocks {
			for _, in := range b.Instrs {
				bo, ok := in.(*ssa.BinOp)
				if !ok || bo.Op != token.AND {
					continue
				}
				if k, isK := ir.ConstInt(bo.Y); isK && k == 0x7f {
					if a, isLoad := ir.IsLoad(ir.Resolve(bo.X)); isLoad {
						if idx, okI := byteIndexOf(a); okI && idx == 1 {
							payloadLen = bo
						}
					}
				}
			}
		}
		if payloadLen == nil {
			bad = "payload length code (byte1 & 0x7F) not found"
		} else {
			for _, spec := range []struct {
				fn         string
				code, l, h int64
				head       int64
			}{{"(encoding/binary.bigEndian).Uint16", 126, 2, 4, 4}, {"(encoding/binary.bigEndian).Uint64", 127, 2, 10, 10}} {
				calls := c.P.CallsNamed(nf, spec.fn)
				if len(calls) != 1 {
					bad = fmt.Sprintf("expected one %s, found %d", spec.fn, len(calls))
					continue
				}
				cs := calls[0]
				lo, hi := fi.IntervalAt(cs.In, payloadLen)
				l, h, okB := sliceBounds(cs.Common.Args[1])
				if lo != spec.code || hi != spec.code || !okB || l != spec.l || h != spec.h {
					bad = fmt.Sprintf("%s reads [%d:%d] under length code [%d,%d]; expected [%d:%d] under %d", spec.fn, l, h, lo, hi, spec.l, spec.h, spec.code)
				}
			}
			// header sizes: a phi over 2, 4, 10 keyed by the class
			okHead := false
			for _, b := range nf.Blocks {
				for _, in := range b.Instrs {
					phi, ok := in.(*ssa.Phi)
					if !ok {
						continue
					}
					vals := map[int64]bool{}
					all := true
					for _, e := range phi.Edges {
						k, isK := ir.ConstInt(e)
						if !isK {
							all = false
						}
						vals[k] = true
					}
					if all && vals[2] && vals[4] && vals[10] && len(vals) == 3 {
						okHead = true
						// each constant comes from the block of its class
						for i, e := range phi.Edges {
							k, _ := ir.ConstInt(e)
							pred := phi.Block().Preds[i]
							lo, hi := ir.IntervalOf(fi.FactsOnEdge(pred, phi.Block()), payloadLen)
							has16 := len(c.callsInBlock(pred, "(encoding/binary.bigEndian).Uint16")) > 0
							has64 := blockOrPredsCall(c, pred, "(encoding/binary.bigEndian).Uint64")
							switch k {
							case 4:
								if !(lo == 126 && hi == 126 && has16) {
									bad = "header size 4 is not tied to the 16-bit length class"
								}
							case 10:
								if !(lo == 127 && hi == 127 && has64) {
									bad = "header size 10 is not tied to the 64-bit length class"
								}
							}
						}
					}
				}
			}
			if !okHead && bad == "" {
				bad = "header sizes 2/4/10 not found"
			}
			// +4 when the mask bit is set
			okMask := false
			for _, b := range nf.Blocks {
				for _, in := range b.Instrs {
					bo, ok := in.(*ssa.BinOp)
					if !ok || bo.Op != token.ADD {
						continue
					}
					if k, isK := ir.ConstInt(bo.Y); !isK || k != 4 {
						continue
					}
					if fi.HasFact(bo, func(ft ir.Fact) bool { return c.byteMaskFact(ft, 1, 0x80, true) }) {
						okMask = true
					}
				}
			}
			if !okMask && bad == "" {
				bad = "the 4 key bytes are not added to the header size on the mask-bit edge"
			}
		}
		c.Cond(bad == "", "C12.O1", key, c.FnPos(nf), "126->[2:4]/4, 127->[2:10]/10, literal otherwise, +4 when masked", bad)
	}

	// ------------------------------------------------------------------ O2
	if nf != nil {
		key := fnKey(c.P, nf, "decoder bit masks")
		got := map[int64]map[int64]bool{0: {}, 1: {}}
		val := map[[2]int64]ssa.Value{}
		for _, b := range nf.Blocks {
			for _, in := range b.Instrs {
				bo, ok := in.(*ssa.BinOp)
				if !ok || bo.Op != token.AND {
					continue
				}
				k, isK := ir.ConstInt(bo.Y)
				a, isLoad := ir.IsLoad(ir.Resolve(bo.X))
				if !isK || !isLoad {
					continue
				}
				if idx, okI := byteIndexOf(a); okI && (idx == 0 || idx == 1) {
					got[idx][k] = true
					val[[2]int64{idx, k}] = bo
				}
			}
		}
		bad := ""
		want0 := []int64{0x0f, 0x10, 0x20, 0x40, 0x80}
		want1 := []int64{0x7f, 0x80}
		if fmt.Sprint(keysOf(got[0])) != fmt.Sprint(want0) || fmt.Sprint(keysOf(got[1])) != fmt.Sprint(want1) {
			bad = fmt.Sprintf("byte0 masks %x, byte1 masks %x; RFC 6455 needs %x and %x", keysOf(got[0]), keysOf(got[1]), want0, want1)
		} else {
			// positions: results (total, opcode, body, ok, fin, compress, err); validFrame(c, opcode, fin, r1, r2, r3, expecting)
			derives := func(v ssa.Value, idx, mask int64) bool {
				memo := map[ssa.Value]int{}
				var rec0 func(x ssa.Value) bool
				rec := func(x ssa.Value) bool {
					x = ir.Resolve(x)
					if m, ok := memo[x]; ok {
						return m == 1
					}
					memo[x] = 0
					r := rec0(x)
					if r {
						memo[x] = 1
					}
					return r
				}
				_ = rec
				rec0 = func(x ssa.Value) bool {
					if x == val[[2]int64{idx, mask}] {
						return true
					}
					switch y := x.(type) {
					case *ssa.BinOp:
						return rec(y.X) || rec(y.Y)
					case *ssa.Phi:
						for _, e := range y.Edges {
							if _, isK := e.(*ssa.Const); isK {
								continue
							}
							if !rec(e) {
								return false
							}
						}
						return true
					}
					return false
				}
				return rec(v)
			}
			for _, r := range c.P.Info(nf).Returns() {
				rv := ir.RetVals(r)
				if len(rv) != 7 || ir.IsNilConst(rv[2]) && !ir.IsNilConst(rv[6]) {
					continue
				}
				if !derives(rv[1], 0, 0x0f) {
					bad = "the returned opcode is not byte0 & 0x0F"
				}
				if !derives(rv[4], 0, 0x80) {
					bad = "the returned FIN is not byte0 & 0x80"
				}
				if !derives(rv[5], 0, 0x40) {
					bad = "the returned compression flag is not RSV1 (byte0 & 0x40)"
				}
			}
			for _, cs := range c.P.CallsNamed(nf, "(*websocket.Conn).validFrame") {
				for pos, m := range map[int]int64{1: 0x0f, 2: 0x80, 3: 0x40, 4: 0x20, 5: 0x10} {
					if !derives(cs.Common.Args[pos], 0, m) {
						bad = fmt.Sprintf("validFrame argument %d is not byte0 & %#x", pos, m)
					}
				}
			}
		}
		c.Cond(bad == "", "C12.O2", key, c.FnPos(nf), "masks 0F/10/20/40/80 and 7F/80 in the right positions", bad)
	}
	if wf != nil {
		fi := c.P.Info(wf)
		key := fnKey(c.P, wf, "encoder bit masks")
		bad := ""
		sawFin, sawComp, sawOp, sawMask := false, false, false, false
		for _, b := range wf.Blocks {
			for _, in := range b.Instrs {
				st, ok := in.(*ssa.Store)
				if !ok {
					continue
				}
				k, isIdx := byteIndexOf(st.Addr)
				if !isIdx || k != 0 {
					continue
				}
				consts, others := orLeaves(st.Val)
				var m int64
				for _, x := range consts {
					m |= x
				}
				boolParamFact := func(name string) bool {
					return fi.HasFact(st, func(ft ir.Fact) bool {
						p, ok := ir.Resolve(ft.Cond).(*ssa.Parameter)
						return ok && p.Name() == name && ft.Truth
					})
				}
				switch {
				case m == 0x80 && len(others) == 1:
					sawFin = boolParamFact("fin")
					if !sawFin {
						bad = "0x80 is set in byte 0 off the fin edge"
					}
				case m == 0x40 && len(others) == 1:
					sawComp = boolParamFact("compress")
					if !sawComp {
						bad = "0x40 is set in byte 0 off the compress edge"
					}
				case m == 0 && len(others) == 1 && ir.Resolve(others[0]) == ssa.Value(wf.Params[1]):
					sawOp = boolParamFact("sendOpcode")
					if !sawOp {
						bad = "the opcode is written off the sendOpcode edge"
					}
				case m == 0 && len(others) == 0:
				default:
					bad = fmt.Sprintf("byte 0 receives %#x at %s", m, c.Pos(st))
				}
			}
		}
		// mask bit: byte1 phi gets 0x80 under isClient
		for _, b := range wf.Blocks {
			for _, in := range b.Instrs {
				bo, ok := in.(*ssa.BinOp)
				if !ok || bo.Op != token.OR {
					continue
				}
				cs, _ := orLeaves(bo)
				var m int64
				for _, x := range cs {
					m |= x
				}
				if m == 0x80 && fi.HasFact(bo, func(ft ir.Fact) bool {
					k, set, ok := c.P.BoolFieldTest(ft.Cond, ft.Truth)
					return ok && k == "websocket.Conn.isClient" && set
				}) {
					sawMask = true
				}
			}
		}
		if bad == "" && !(sawFin && sawComp && sawOp && sawMask) {
			bad = fmt.Sprintf("missing header bits: fin=%v rsv1=%v opcode=%v mask=%v", sawFin, sawComp, sawOp, sawMask)
		}
		c.Cond(bad == "", "C12.O2", key, c.FnPos(wf), "FIN 0x80 on fin, RSV1 0x40 on compress, opcode on sendOpcode, MASK 0x80 for clients", bad)
	}

	// ------------------------------------------------------------------ O3
	if wf != nil {
		fi := c.P.Info(wf)
		pd := paramOfType(wf, "[]byte")
		key := fnKey(c.P, wf, "client masks its own copy")
		bad := ""
		if e := c.sliceParamEscapes(wf, pd); e != "" {
			bad = "the caller's payload is not only read: " + e
		}
		n := 0
		for _, cs := range c.P.CallsNamed(wf, "websocket.maskXOR") {
			n++
			isClient := fi.HasFact(cs.In, func(ft ir.Fact) bool {
				k, set, ok := c.P.BoolFieldTest(ft.Cond, ft.Truth)
				return ok && k == "websocket.Conn.isClient" && set
			})
			if !isClient {
				bad = "frames are masked although the connection is not a client"
			}
			// both arguments are slices of the frame buffer (loaded through the pbuf cell)
			for i := 0; i < 2; i++ {
				sl, ok := ir.Resolve(cs.Common.Args[i]).(*ssa.Slice)
				if !ok || !strings.Contains(c.P.Desc(sl.X), "pbuf") {
					bad = "maskXOR is applied to something other than the frame buffer"
				}
			}
			// key = buf[headLen-4:headLen], payload = buf[headLen:]
			pl, _ := ir.Resolve(cs.Common.Args[0]).(*ssa.Slice)
			ks, _ := ir.Resolve(cs.Common.Args[1]).(*ssa.Slice)
			if pl != nil && ks != nil {
				if ks.High == nil || pl.Low == nil || ir.Resolve(ks.High) != ir.Resolve(pl.Low) {
					bad = "the mask key is not the four bytes directly before the payload"
				} else if bo, ok := ir.Resolve(ks.Low).(*ssa.BinOp); !ok || bo.Op != token.SUB || ir.Resolve(bo.X) != ir.Resolve(pl.Low) {
					bad = "the mask key is not the four bytes directly before the payload"
				} else if k, isK := ir.ConstInt(bo.Y); !isK || k != 4 {
					bad = "the mask key is not four bytes long"
				}
				// the payload was copied into the buffer before masking
				copied := false
				for _, cp := range c.P.CallsNamed(wf, "builtin:copy") {
					if ir.Resolve(cp.Common.Args[1]) == ssa.Value(pd) && fi.Dominates(cp.In, cs.In) {
						copied = true
					}
				}
				if !copied {
					bad = "the payload is masked before it is copied into the frame buffer"
				}
			}
		}
		if n != 1 && bad == "" {
			bad = fmt.Sprintf("expected one maskXOR in the encoder, found %d", n)
		}
		c.Cond(bad == "", "C12.O3", key, c.FnPos(wf), "maskXOR(buf[h:], buf[h-4:h]) after copy, clients only; data only read", bad)
	}
	if nf != nil {
		fi := c.P.Info(nf)
		key := fnKey(c.P, nf, "decoder unmasks a complete frame once")
		bad := "no maskXOR in the decoder"
		for _, cs := range c.P.CallsNamed(nf, "websocket.maskXOR") {
			bad = ""
			masked := fi.HasFact(cs.In, func(ft ir.Fact) bool { return c.byteMaskFact(ft, 1, 0x80, true) })
			// the unmasked bytes are buf[headLen:total] and the fact is l >= total for that total
			var total ssa.Value
			if sl, ok := ir.Resolve(cs.Common.Args[0]).(*ssa.Slice); ok && sl.High != nil {
				total = ir.Resolve(sl.High)
			}
			complete := total != nil && fi.HasFact(cs.In, func(ft ir.Fact) bool {
				b, ok := ft.Cond.(*ssa.BinOp)
				if !ok || !ft.Truth {
					return false
				}
				if b.Op == token.GEQ && ir.Resolve(b.Y) == total || b.Op == token.LEQ && ir.Resolve(b.X) == total {
					if sum, isSum := total.(*ssa.BinOp); isSum && sum.Op == token.ADD {
						return true
					}
				}
				return false
			})
			if !masked {
				bad = "the payload is unmasked although the mask bit is clear"
			}
			if !complete {
				bad = "the payload is unmasked before the whole frame is buffered: the next call would unmask the same bytes again"
			}
		}
		c.Cond(bad == "", "C12.O3", key, c.FnPos(nf), "unmask on the (mask bit, frame complete) edge", bad)
	}
	if body := c.wsParseBody(); body != nil {
		fi := c.P.Info(body)
		key := "(*websocket.Conn).Parse: a decoded frame is consumed or fails"
		// from the "frame ok" edge every path to the closure's return consumes the frame or sets err
		var okIf *ssa.If
		okEdge := -1
		for _, i := range fi.Ifs() {
			ld, isLd := ir.Unconv(stripNot(i.Cond)).(*ssa.UnOp)
			if !isLd {
				continue
			}
			if fv, isFV := ld.X.(*ssa.FreeVar); isFV && fv.Name() == "ok" {
				okIf = i
				okEdge = edgeForTruth(i, true)
			}
		}
		if okIf == nil {
			c.Unres("C12.O3", key, "test of the frame-complete flag not found")
		} else {
			consumed := func(in ssa.Instruction) bool {
				st, ok := in.(*ssa.Store)
				if !ok {
					return false
				}
				// c.bytesCached = nil
				if fa, isFA := st.Addr.(*ssa.FieldAddr); isFA && c.P.FieldKey(fa) == "websocket.Conn.bytesCached" && ir.IsNilConst(st.Val) {
					return true
				}
				// *c.bytesCached = (*c.bytesCached)[:l-total]
				if a, isLoad := ir.IsLoad(st.Addr); isLoad && c.P.LoadedField(ir.Unconv(st.Addr)) == "websocket.Conn.bytesCached" {
					_ = a
					if _, isSl := ir.Resolve(st.Val).(*ssa.Slice); isSl {
						return true
					}
				}
				// err = <non-nil>
				if fv, isFV := st.Addr.(*ssa.FreeVar); isFV && fv.Name() == "err" && !ir.IsNilConst(st.Val) {
					return true
				}
				return false
			}
			vis, _ := fi.ReachFromEdge(okIf, okEdge, consumed)
			bad := ""
			for in := range vis {
				if ir.IsExit(in) {
					if _, isPanic := in.(*ssa.Panic); !isPanic {
						bad = "after a frame was decoded (and unmasked in place) the iteration can end at " + c.Pos(in) + " without removing it from the input cache or failing: it would be decoded twice"
					}
				}
			}
			c.Cond(bad == "", "C12.O3", key, c.Pos(okIf), "every path consumes the frame or sets an error", bad)
		}
	}

	// ------------------------------------------------------------------ O4
	if wm := c.Fn("C12.O4", "(*websocket.Conn).WriteMessage"); wm != nil {
		c12Fragmentation(c, wm)
	}

	// ------------------------------------------------------------------ O5
	c12Reassembly(c)
}

func (c *Ctx) callsInBlock(b *ssa.BasicBlock, name string) []ssa.Instruction {
	var out []ssa.Instruction
	for _, in := range b.Instrs {
		if c.isCallTo(in, name) {
			out = append(out, in)
		}
	}
	return out
}

func blockOrPredsCall(c *Ctx, b *ssa.BasicBlock, name string) bool {
	for hops := 0; hops < 3; hops++ {
		if len(c.callsInBlock(b, name)) > 0 {
			return true
		}
		if len(b.Preds) != 1 {
			return false
		}
		b = b.Preds[0]
	}
	return false
}

// byteMaskFact: the fact says (buf[idx] & mask) != 0 is `set`.
func (c *Ctx) byteMaskFact(ft ir.Fact, idx, mask int64, set bool) bool {
	cmp, ok := ir.DecodeIntCmp(ft.Cond)
	if !ok {
		return false
	}
	bo, ok := ir.Resolve(cmp.Expr).(*ssa.BinOp)
	if !ok || bo.Op != token.AND {
		return false
	}
	k, isK := ir.ConstInt(bo.Y)
	a, isLoad := ir.IsLoad(ir.Resolve(bo.X))
	if !isK || k != mask || !isLoad {
		return false
	}
	if i, okI := byteIndexOf(a); !okI || i != idx {
		return false
	}
	nonZero := cmp.Holds(mask) == ft.Truth && cmp.Holds(0) != ft.Truth
	return nonZero == set
}

func c12Fragmentation(c *Ctx, wm *ssa.Function) {
	fi := c.P.Info(wm)
	key := fnKey(c.P, wm, "fragment loop")
	var loopCall, emptyCall *ir.CallSite
	calls := c.P.CallsNamed(wm, "(*websocket.Conn).writeFrame")
	for i := range calls {
		if fi.InLoop(calls[i].In) {
			loopCall = &calls[i]
		} else {
			emptyCall = &calls[i]
		}
	}
	if loopCall == nil || emptyCall == nil || len(calls) != 2 {
		c.Bad("C12.O4", key, c.FnPos(wm), fmt.Sprintf("expected the loop writeFrame and the empty-message writeFrame, found %d calls", len(calls)))
		return
	}
	bad := ""
	a := loopCall.Common.Args
	// data fragment: rest[:n]
	sl, ok := ir.Resolve(a[4]).(*ssa.Slice)
	if !ok || sl.High == nil || sl.Low != nil && !isZero(sl.Low) {
		bad = "the fragment is not rest[:n]"
	} else {
		rest, isPhi := ir.Resolve(sl.X).(*ssa.Phi)
		n := ir.Resolve(sl.High)
		if !isPhi {
			bad = "the remaining data is not a loop variable"
		} else {
			// rest advances by n
			adv := false
			for _, e := range rest.Edges {
				if s2, ok := ir.Resolve(e).(*ssa.Slice); ok && ir.Resolve(s2.X) == ssa.Value(rest) && s2.High == nil && s2.Low != nil && ir.Resolve(s2.Low) == n {
					adv = true
				}
			}
			if !adv {
				bad = "the remaining data does not advance by the fragment size (rest = rest[n:])"
			}
			// fin = (n == len(rest))
			fb, ok := ir.Resolve(a[3]).(*ssa.BinOp)
			if !ok || fb.Op != token.EQL {
				bad = "FIN is not decided by n == len(rest)"
			} else {
				okFin := false
				for _, p := range [][2]ssa.Value{{fb.X, fb.Y}, {fb.Y, fb.X}} {
					if x, isLen := ir.IsLenOf(ir.Resolve(p[1])); isLen && ir.Resolve(x) == ssa.Value(rest) && ir.Resolve(p[0]) == n {
						okFin = true
					}
				}
				if !okFin {
					bad = "FIN is not decided by n == len(rest)"
				}
			}
			// n = min(len(rest), Max)
			np, isPhi := n.(*ssa.Phi)
			if !isPhi {
				bad = "the fragment size is not clamped to MaxWebsocketFramePayloadSize"
			} else {
				sawLen, sawMax := false, false
				for i, e := range np.Edges {
					re := ir.Resolve(e)
					if x, isLen := ir.IsLenOf(re); isLen && ir.Resolve(x) == ssa.Value(rest) {
						sawLen = true
						// on this edge len <= Max
						continue
					}
					if c.P.LoadedField(re) == "nbhttp.Config.MaxWebsocketFramePayloadSize" {
						// on this edge len(rest) > Max
						facts := fi.FactsOnEdge(np.Block().Preds[i], np.Block())
						for _, ft := range facts {
							if b, ok := ft.Cond.(*ssa.BinOp); ok && ft.Truth && b.Op == token.GTR && c.P.LoadedField(ir.Resolve(b.Y)) == "nbhttp.Config.MaxWebsocketFramePayloadSize" {
								sawMax = true
							}
						}
						continue
					}
					bad = "the fragment size has an unexpected source " + c.P.Desc(re)
				}
				if !(sawLen && sawMax) && bad == "" {
					bad = "the fragment size is not min(len(rest), MaxWebsocketFramePayloadSize)"
				}
			}
		}
	}
	// opcode / compression only on the first fragment
	firstOnly := func(v ssa.Value, what string, wantFirst func(ssa.Value) bool) {
		phi, ok := ir.Resolve(v).(*ssa.Phi)
		if !ok {
			bad = what + " is not a loop variable that changes after the first fragment"
			return
		}
		for i, e := range phi.Edges {
			pred := phi.Block().Preds[i]
			fromLoop := fi.CanReach(loopCall.In, pred.Instrs[len(pred.Instrs)-1]) && pred != phi.Block().Preds[0] || fi.CanReach(loopCall.In, pred.Instrs[0]) && blockReaches(pred, loopCall.In.Block())
			_ = fromLoop
			back := fi.CanReach(loopCall.In, pred.Instrs[len(pred.Instrs)-1])
			if back {
				if b, isB := ir.ConstBool(e); !isB || b {
					bad = what + " stays set on later fragments"
				}
			} else if !wantFirst(e) {
				bad = what + " is not set on the first fragment"
			}
		}
	}
	firstOnly(a[2], "the opcode", func(e ssa.Value) bool { b, ok := ir.ConstBool(e); return ok && b })
	firstOnly(a[5], "the compression bit", func(e ssa.Value) bool { _, isConst := ir.ConstBool(e); return !isConst })
	if ir.Resolve(a[1]) != ssa.Value(wm.Params[1]) {
		bad = "the fragment's message type is not the caller's"
	}
	c.Cond(bad == "", "C12.O4", key, c.Pos(loopCall.In), "rest[:n], n=min(len,Max), FIN iff n==len(rest), opcode/compression first only", bad)

	// empty message
	key = fnKey(c.P, wm, "empty message")
	bad = ""
	e := emptyCall.Common.Args
	if b, ok := ir.ConstBool(e[2]); !ok || !b {
		bad = "the empty message's frame does not carry the opcode"
	}
	if b, ok := ir.ConstBool(e[3]); !ok || !b {
		bad = "the empty message's frame is not final"
	}
	if !fi.HasFact(emptyCall.In, func(ft ir.Fact) bool {
		_, zero, ok := ir.ZeroTest(ft.Cond, ft.Truth)
		return ok && zero
	}) {
		bad = "the single-frame path is not on the len(data)==0 edge"
	}
	c.Cond(bad == "", "C12.O4", key, c.Pos(emptyCall.In), "one FIN frame with the opcode on the empty edge", bad)
}

func isZero(v ssa.Value) bool { k, ok := ir.ConstInt(v); return ok && k == 0 }

func blockReaches(a, b *ssa.BasicBlock) bool {
	seen := map[*ssa.BasicBlock]bool{}
	stack := []*ssa.BasicBlock{a}
	for len(stack) > 0 {
		x := stack[len(stack)-1]
		stack = stack[:len(stack)-1]
		if seen[x] {
			continue
		}
		seen[x] = true
		if x == b {
			return true
		}
		stack = append(stack, x.Succs...)
	}
	return false
}

func c12Reassembly(c *Ctx) {
	body := c.wsParseBody()
	ps := c.P.Func("(*websocket.Conn).Parse")
	if body == nil || ps == nil {
		c.Unres("C12.O5", "(*websocket.Conn).Parse", "frame closure not found")
		return
	}
	fi := c.P.Info(body)
	const fMsg = "websocket.Conn.message"
	// (a) tail append
	{
		bad := "fragments are not appended to the message buffer"
		nApp := 0
		for _, cs := range c.P.Calls(body, nil) {
			if cs.Common.IsInvoke() && cs.Common.Method.Name() == "Append" && c.P.LoadedField(cs.Common.Args[0]) == fMsg {
				nApp++
				if ld, ok := ir.Unconv(cs.Common.Args[1]).(*ssa.UnOp); !ok || !strings.Contains(ld.X.Name(), "body") {
					bad = "what is appended to the message is not the frame's payload: fragments would be reordered"
					break
				}
				bad = "the appended buffer is not stored back"
				if refs := cs.Value().Referrers(); refs != nil {
					for _, r := range *refs {
						if st, ok := r.(*ssa.Store); ok {
							if fa, ok := st.Addr.(*ssa.FieldAddr); ok && c.P.FieldKey(fa) == fMsg {
								bad = ""
							}
						}
					}
				}
			}
		}
		if nApp != 1 && bad == "" {
			bad = fmt.Sprintf("expected exactly one append to the message, found %d", nApp)
		}
		c.Cond(bad == "", "C12.O5", "(*websocket.Conn).Parse: fragments appended at the tail", c.FnPos(body), "message = Append(message, body...)", bad)
	}
	// (b) msgType assigned only while 0; reset on FIN
	{
		bad := ""
		nAssign, nReset := 0, 0
		for _, st := range c.P.StoresTo(body, "websocket.Conn.msgType") {
			if isZero(st.Val) {
				nReset++
				continue
			}
			nAssign++
			if !fi.HasFact(st, func(ft ir.Fact) bool {
				cmp, ok := ir.DecodeIntCmp(ft.Cond)
				return ok && c.P.LoadedField(cmp.Expr) == "websocket.Conn.msgType" && cmp.Holds(0) == ft.Truth && cmp.Holds(1) != ft.Truth
			}) {
				bad = "the message type is overwritten by later frames (not only while it is 0): a fragmented text message would be delivered with type 0"
			}
		}
		if nAssign != 1 || nReset != 1 {
			bad = fmt.Sprintf("expected one assignment and one reset of msgType, found %d and %d", nAssign, nReset)
		}
		// resets on the FIN edge
		finFact := func(at ssa.Instruction, want bool) bool {
			return fi.HasFact(at, func(ft ir.Fact) bool {
				ld, ok := ir.Unconv(ft.Cond).(*ssa.UnOp)
				if !ok {
					return false
				}
				fv, isFV := ld.X.(*ssa.FreeVar)
				return isFV && fv.Name() == "fin" && ft.Truth == want
			})
		}
		for _, f := range []string{"websocket.Conn.msgType", "websocket.Conn.compress"} {
			for _, st := range c.P.StoresTo(body, f) {
				if (isZero(st.Val) || isFalse(st.Val)) && !finFact(st, true) {
					bad = f + " is reset off the FIN edge"
				}
			}
		}
		sawTrue, sawFalse := false, false
		for _, st := range c.P.StoresTo(body, "websocket.Conn.expectingFragments") {
			if b, ok := ir.ConstBool(st.Val); ok {
				if b && finFact(st, false) {
					sawTrue = true
				}
				if !b && finFact(st, true) {
					sawFalse = true
				}
			}
		}
		if !sawTrue || !sawFalse {
			bad = "expectingFragments is not set on the !FIN edge and cleared on the FIN edge"
		}
		c.Cond(bad == "", "C12.O5", "(*websocket.Conn).Parse: type and fragment state", c.FnPos(body), "msgType only while 0; reset on FIN; expectingFragments tracks FIN", bad)
	}
	// (c) control frames leave the message alone
	{
		bad := ""
		// the control case body: the block entered on opcode == 9/10/8
		for _, i := range fi.Ifs() {
			cmp, ok := ir.DecodeIntCmp(i.Cond)
			if !ok || cmp.NotEq || cmp.TrueSet.Lo != cmp.TrueSet.Hi || cmp.TrueSet.Lo < 8 || cmp.TrueSet.Lo > 10 {
				continue
			}
			if ld, isLd := ir.Unconv(cmp.Expr).(*ssa.UnOp); !isLd || !strings.Contains(ld.X.Name(), "opcode") {
				continue
			}
			// instructions reachable from the case edge up to the common tail (the frame removal)
			vis, _ := fi.ReachFromEdge(i, 0, func(in ssa.Instruction) bool {
				// stop at the shared tail: the first load of bytesCached
				return isLoadOfField(in, c.P, "websocket.Conn.bytesCached")
			})
			for in := range vis {
				if a, isAcc := in.(*ssa.FieldAddr); isAcc && c.P.FieldKey(a) == fMsg {
					bad = "a control frame touches the message being reassembled at " + c.Pos(in)
				}
			}
		}
		c.Cond(bad == "", "C12.O5", "(*websocket.Conn).Parse: control frames leave the message alone", c.FnPos(body), "no access to Conn.message in the control case", bad)
	}
	// (d) hand-off
	{
		pi := c.P.Info(ps)
		key := "(*websocket.Conn).Parse: message hand-off"
		var hand *ir.CallSite
		calls := c.P.CallsNamed(ps, "(*websocket.Conn).handleMessage")
		for i := range calls {
			hand = &calls[i]
		}
		if hand == nil || len(calls) != 1 {
			c.Unres("C12.O5", key, fmt.Sprintf("expected one handleMessage call in Parse, found %d", len(calls)))
			return
		}
		bad := ""
		msgCell := cellOf(hand.Common.Args[2])
		var flag ssa.Value
		for _, ft := range pi.Facts(hand.In) {
			if x, isNil, ok := ir.NilTest(ft.Cond, ft.Truth); ok && !isNil && msgCell != nil && cellOf(x) == msgCell {
				bad = "the hand-off of a finished message is guarded by its buffer being non-nil; an empty uncompressed message has a nil buffer and is never delivered"
			}
			if ld, ok := ir.Unconv(ft.Cond).(*ssa.UnOp); ok && ft.Truth {
				if a, isAlloc := ld.X.(*ssa.Alloc); isAlloc && a.Type().String() == "*bool" {
					flag = a
				}
			}
		}
		if bad == "" {
			if flag == nil {
				bad = "the hand-off is not decided by a flag"
			} else {
				// the flag is set true in the frame closure on the FIN edge, under an installed handler
				okSet := false
				for _, b := range body.Blocks {
					for _, in := range b.Instrs {
						st, ok := in.(*ssa.Store)
						if !ok {
							continue
						}
						if r := ir.Root(st.Addr); r != flag {
							continue
						}
						if bv, isB := ir.ConstBool(st.Val); isB && bv {
							fin := fi.HasFact(st, func(ft ir.Fact) bool {
								ld, ok := ir.Unconv(ft.Cond).(*ssa.UnOp)
								if !ok {
									return false
								}
								fv, isFV := ld.X.(*ssa.FreeVar)
								return isFV && fv.Name() == "fin" && ft.Truth
							})
							handler := fi.HasFact(st, func(ft ir.Fact) bool {
								x, isNil, ok := ir.NilTest(ft.Cond, ft.Truth)
								return ok && !isNil && c.P.LoadedField(x) == "websocket.commonFields.messageHandler"
							})
							if fin && handler {
								okSet = true
							}
						}
					}
				}
				if !okSet {
					bad = "the hand-off flag is not set on the (FIN, message handler installed) edge of the frame closure"
				}
				// and cleared after the hand-off
				cleared := false
				after, _ := pi.Reach([]ssa.Instruction{hand.In}, nil)
				for in := range after {
					if st, ok := in.(*ssa.Store); ok && st.Addr == flag {
						if bv, isB := ir.ConstBool(st.Val); isB && !bv {
							cleared = true
						}
					}
				}
				if !cleared && bad == "" {
					bad = "the hand-off flag is not cleared after delivery: the next frame would deliver again"
				}
			}
		}
		c.Cond(bad == "", "C12.O5", key, c.Pos(hand.In), "decided by a flag set on the FIN edge, cleared after delivery", bad)
	}
}

func isFalse(v ssa.Value) bool { b, ok := ir.ConstBool(v); return ok && !b }

// cellOf returns the local cell a value is loaded from, or nil.
func cellOf(v ssa.Value) ssa.Value {
	ld, ok := ir.Unconv(v).(*ssa.UnOp)
	if !ok || ld.Op != token.MUL {
		return nil
	}
	return ir.Root(ld.X)
}

// c12CompressFlag: O6.
func c12CompressFlag(c *Ctx) {
	parse := c.Fn("C12.O6", "(*websocket.Conn).Parse")
	if parse == nil {
		return
	}
	const fCompress = "websocket.Conn.compress"
	const fMsgType = "websocket.Conn.msgType"
	bad := ""
	nSet, nClr := 0, 0
	for _, f := range ir.WithClosures(parse) {
		fi := c.P.Info(f)
		for _, st := range c.P.StoresTo(f, fCompress) {
			if k, ok := ir.ConstBool(st.Val); ok && !k {
				nClr++
				continue
			}
			nSet++
			if !fi.HasFact(st, func(ft ir.Fact) bool {
				cmp, ok := ir.DecodeIntCmp(ft.Cond)
				return ok && c.P.LoadedField(cmp.Expr) == fMsgType && cmp.Holds(0) == ft.Truth && !cmp.Holds(1) == ft.Truth
			}) {
				bad = "the per-message compression flag is overwritten at " + c.Pos(st) + " while a message is open: continuation frames carry RSV1 = 0"
			}
		}
	}
	if nSet == 0 || nClr == 0 {
		bad = fmt.Sprintf("expected the flag to be taken from the first frame and cleared on FIN (stores: %d set, %d clear)", nSet, nClr)
	}
	c.Cond(bad == "", "C12.O6", fnKey(c.P, parse, "flag set on the first frame, cleared on FIN"), c.FnPos(parse), fmt.Sprintf("%d set under msgType == 0, %d clear", nSet, nClr), bad)

	bad = ""
	n := 0
	for _, f := range ir.WithClosures(parse) {
		fi := c.P.Info(f)
		for _, cs := range c.P.Calls(f, func(name string, _ ir.CallSite) bool {
			return name == "(*websocket.Conn).readAll" || name == "websocket.decompressReader" || name == "dyn:nbhttp.Engine.WebsocketDecompressor" || name == "dyn:websocket.Conn.WebsocketDecompressor"
		}) {
			n++
			if !fi.HasFact(cs.In, func(ft ir.Fact) bool {
				k, set, ok := c.P.BoolFieldTest(ft.Cond, ft.Truth)
				return ok && k == fCompress && set
			}) {
				bad = "the inflate step at " + c.Pos(cs.In) + " is not decided by the per-message flag Conn.compress: decided by the last frame's RSV1 bit, a fragmented compressed message is delivered as raw deflate bytes"
			}
		}
	}
	if n == 0 && bad == "" {
		bad = "no inflate step found"
	}
	c.Cond(bad == "", "C12.O6", fnKey(c.P, parse, "inflate iff the message is compressed"), c.FnPos(parse), fmt.Sprintf("%d inflate call(s) behind Conn.compress", n), bad)
}

// c12ResetScope: O7.
func c12ResetScope(c *Ctx) {
	parse := c.Fn("C12.O7", "(*websocket.Conn).Parse")
	if parse == nil {
		return
	}
	bad := ""
	n := 0
	for _, f := range ir.WithClosures(parse) {
		fi := c.P.Info(f)
		var resets []ssa.Instruction
		for _, field := range []string{"websocket.Conn.msgType", "websocket.Conn.compress"} {
			for _, st := range c.P.StoresTo(f, field) {
				if k, ok := st.Val.(*ssa.Const); ok && (k.Value == nil || k.Value.String() == "0" || k.Value.String() == "false") {
					resets = append(resets, st)
				}
			}
		}
		if len(resets) == 0 {
			continue
		}
		// edges "opcode == Fragment/Text/Binary"
		skip := func(i *ssa.If, k int) bool {
			b, ok := i.Cond.(*ssa.BinOp)
			if !ok || b.Op != token.EQL || k != 0 {
				return false
			}
			if !strings.HasSuffix(b.X.Type().String(), "websocket.MessageType") {
				return false
			}
			v, isK := ir.ConstInt(b.Y)
			return isK && v >= 0 && v <= 2
		}
		first := f.Blocks[0].Instrs[0]
		vis, _ := fi.ReachOpt([]ssa.Instruction{first}, nil, skip)
		for _, st := range resets {
			n++
			if vis[st] {
				bad = "the per-message state is reset at " + c.Pos(st) + " on a path that does not go through the data-frame case: a control frame (always FIN) between two fragments wipes the message type and the compression flag of the message under assembly"
			}
		}
	}
	if n == 0 && bad == "" {
		bad = "no reset of msgType / compress found"
	}
	c.Cond(bad == "", "C12.O7", fnKey(c.P, parse, "reset inside the data-frame case only"), c.FnPos(parse), fmt.Sprintf("%d reset store(s), all behind opcode in {0,1,2}", n), bad)
}

// c12PoolOnce: O8.
func c12PoolOnce(c *Ctx) {
	for _, f := range c.pkgFuncs("websocket") {
		fi := c.P.Info(f)
		for _, cs := range c.P.CallsNamed(f, "(*sync.Pool).Put") {
			arg := cs.Common.Args[1]
			if mi, ok := arg.(*ssa.MakeInterface); ok {
				arg = mi.X
			}
			field := c.P.LoadedField(ir.Resolve(arg))
			if ci, ok := ir.Resolve(arg).(*ssa.ChangeInterface); ok {
				field = c.P.LoadedField(ir.Resolve(ci.X))
			}
			if !strings.HasPrefix(field, "websocket.flate") {
				continue
			}
			key := fnKey(c.P, f, "Put("+field+") then clear")
			isClear := func(in ssa.Instruction) bool {
				st, ok := in.(*ssa.Store)
				if !ok {
					return false
				}
				fa, ok := st.Addr.(*ssa.FieldAddr)
				return ok && c.P.FieldKey(fa) == field && ir.IsNilConst(st.Val)
			}
			esc := fi.EscapesWithout([]ssa.Instruction{cs.In}, isClear)
			if len(esc) > 0 {
				// cleared before the Put (fr := r.fr; r.fr = nil; Put(fr)): the value put was
				// loaded before a clear that dominates the Put, and nothing re-assigns the field
				if ld, isLd := ir.Resolve(arg).(*ssa.UnOp); isLd {
					for _, b := range f.Blocks {
						for _, in := range b.Instrs {
							if isClear(in) && fi.Dominates(ld, in) && fi.Dominates(in, cs.In) && len(c.P.StoresTo(f, field)) == 1 {
								esc = nil
							}
						}
					}
				}
			}
			c.Cond(len(esc) == 0, "C12.O8", key, c.Pos(cs.In), "the wrapper forgets the pooled object", "the object put into the pool at "+c.Pos(cs.In)+" stays in "+field+": a later Close puts it again, and two connections can then draw the same (de)compressor")
		}
	}
}

// c12NegotiationFlag: O11.  validFrame rejects RSV1 unless Conn.enableCompression
// (copied from the Upgrader/Options) is set.  An endpoint that negotiates the
// extension under any other condition tells the peer it may compress and then
// fails the connection on the first compressed frame.
func c12NegotiationFlag(c *Ctx) {
	const fEnable = "websocket.Upgrader.enableCompression"
	under := func(fi *ir.FnInfo, at ssa.Instruction) bool {
		return fi.HasFact(at, func(ft ir.Fact) bool {
			k, set, ok := c.P.BoolFieldTest(ft.Cond, ft.Truth)
			return ok && k == fEnable && set
		})
	}
	// the client's offer
	if fn := c.Fn("C12.O11", "(*websocket.Dialer).DialContext"); fn != nil {
		fi := c.P.Info(fn)
		n := 0
		bad := ""
		for _, b := range fn.Blocks {
			for _, in := range b.Instrs {
				mu, ok := in.(*ssa.MapUpdate)
				if !ok {
					continue
				}
				k, ok := mu.Key.(*ssa.Const)
				if !ok || k.Value == nil || k.Value.Kind() != constant.String || !strings.EqualFold(constant.StringVal(k.Value), "Sec-Websocket-Extensions") {
					continue
				}
				n++
				if !under(fi, in) {
					bad = "the extension offer at " + c.Pos(in) + " is not decided by the enableCompression option alone: offered without it, an accepting server compresses and the client fails the connection on the first RSV1 frame"
				}
			}
		}
		if n == 0 {
			c.OK("C12.O11", fnKey(c.P, fn, "extension offer"), c.FnPos(fn), "the client never offers the extension")
		} else {
			c.Cond(bad == "", "C12.O11", fnKey(c.P, fn, "extension offer"), c.FnPos(fn), fmt.Sprintf("%d offer site(s) under enableCompression", n), bad)
		}
	}
	// the server's acceptance: constant true flowing into the compress result
	for _, f := range c.pkgFuncs("websocket") {
		if !strings.HasPrefix(c.P.FuncName(f), "(*websocket.Upgrader).") {
			continue
		}
		calls := c.P.Calls(f, func(name string, _ ir.CallSite) bool { return name == "websocket.parseExtensions" })
		if len(calls) == 0 {
			continue
		}
		fi := c.P.Info(f)
		bad := ""
		for _, cs := range calls {
			if !under(fi, cs.In) {
				bad = "the request's extensions are evaluated at " + c.Pos(cs.In) + " without enableCompression being set: the server accepts permessage-deflate and then rejects the client's compressed frames"
			}
		}
		c.Cond(bad == "", "C12.O11", fnKey(c.P, f, "extension acceptance"), c.FnPos(f), fmt.Sprintf("%d evaluation(s) of the offered extensions under enableCompression", len(calls)), bad)
	}
}
