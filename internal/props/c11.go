package props

import (
	"fmt"
	"go/token"
	"go/types"
	"os"
	"strings"

	"golang.org/x/tools/go/ssa"

	"verif/internal/eng"
	"verif/internal/ir"
)

func init() {
	register(&Property{
		ID:          "C11",
		Engines:     []string{"typestate", "cfg"},
		Explanation: "Pooled-buffer ownership as a typestate property of every function of nbio, nbhttp and nbhttp/websocket: after Free (or after being consumed by Append/AppendString/Realloc) a buffer, every view of its contents and every field or local that still refers to it must not be used, stored or released again on any path; a field whose buffer was released is overwritten before the function returns; buffers released by a closure handed to an executor are released by the caller exactly on the !ok edge (O1-O5, one flow-sensitive analysis); functions touching Parser.bytesCached test the terminal state first under Parser.mux, which justifies the single frozen exception (O6); each write-queue entry is released on flush's completion edge before the pop or by teardown's loop, which then drops the list (O7); views handed to body/parse sinks are only read or copied (O8). No view of a released buffer or queue entry is used after the release (O10). Every release of a request passes RetainHTTPBody (O11).",
		NotCovered:  "cross-goroutine use after release that needs a schedule (a handler retaining Request.Body buffers after it returned), user allocators, heap aliasing beyond struct-field places keyed by type and local cells",
		Run:         runC11,
	})
}

// tsConfig builds the typestate configuration for the repository's allocator API.
func (c *Ctx) tsConfig() eng.TSConfig {
	p := c.P
	argOf := func(cs ir.CallSite, pkgFn, method string) ssa.Value {
		n := p.CalleeName(cs.Common)
		switch {
		case n == "mempool."+pkgFn:
			return cs.Common.Args[0]
		case n == "invoke:mempool.Allocator."+method:
			return cs.Common.Args[0]
		case strings.HasPrefix(n, "(*mempool.") && strings.HasSuffix(n, ")."+method):
			if len(cs.Common.Args) > 1 {
				return cs.Common.Args[1]
			}
		}
		return nil
	}
	summaries := map[*ssa.Function][]int{}
	done := map[*ssa.Function]bool{}
	var cfg eng.TSConfig
	cfg = eng.TSConfig{
		P:       p,
		FreeArg: func(cs ir.CallSite) ssa.Value { return argOf(cs, "Free", "Free") },
		ConsumeArg: func(cs ir.CallSite) ssa.Value {
			for _, m := range []string{"Append", "AppendString", "Realloc"} {
				if a := argOf(cs, m, m); a != nil {
					return a
				}
			}
			return nil
		},
		IsMalloc: func(cs ir.CallSite) bool {
			n := p.CalleeName(cs.Common)
			return n == "mempool.Malloc" || n == "invoke:mempool.Allocator.Malloc" || strings.HasPrefix(n, "(*mempool.") && strings.HasSuffix(n, ").Malloc")
		},
		ExecutorClosure: func(cs ir.CallSite) *ssa.Function {
			n := p.CalleeName(cs.Common)
			if n != "dyn:websocket.Conn.Execute" && n != "dyn:nbhttp.Parser.Execute" && n != "(*nbio.Conn).Execute" {
				return nil
			}
			if len(cs.Common.Args) == 0 {
				return nil
			}
			if mc, ok := cs.Common.Args[len(cs.Common.Args)-1].(*ssa.MakeClosure); ok {
				return mc.Fn.(*ssa.Function)
			}
			return nil
		},
		SkipDangling: func(place string, fn *ssa.Function) bool {
			if place == "nbio.toWrite.buf" && p.FuncName(ir.Outermost(fn)) != "(*nbio.Conn).newToWriteBuf" {
				// the queue entry itself is dropped with its buffer (decided by C11.O7);
				// the enqueue function keeps its entries, so a released buffer left in
				// an entry there is a dangling reference like any other
				return true
			}
			if place == "nbhttp.Parser.bytesCached" && p.FuncName(fn) == "(*nbhttp.Parser).CloseAndClean" {
				// frozen exception: terminal state set in the same critical section (C11.O6)
				return true
			}
			return false
		},
		FreesParam: func(callee *ssa.Function) []int {
			if done[callee] {
				return summaries[callee]
			}
			done[callee] = true
			var out []int
			for i, prm := range callee.Params {
				if prm.Type().String() != "*[]byte" {
					continue
				}
				frees := false
				for _, g := range ir.WithClosures(callee) {
					for _, b := range g.Blocks {
						for _, in := range b.Instrs {
							cs, ok := ir.AsCall(in)
							if !ok {
								continue
							}
							if a := cfg.FreeArg(cs); a != nil && ir.Resolve(a) == ssa.Value(prm) {
								frees = true
							}
							// transitively through a callee that frees
							if callee2 := ir.StaticCallee(cs.Common); callee2 != nil && callee2 != callee && p.InModule(callee2) && !done[callee2] {
								for _, j := range cfg.FreesParam(callee2) {
									if j < len(cs.Common.Args) && ir.Resolve(cs.Common.Args[j]) == ssa.Value(prm) {
										frees = true
									}
								}
							}
						}
					}
				}
				if frees {
					out = append(out, i)
				}
			}
			summaries[callee] = out
			return out
		},
	}
	return cfg
}

func runC11(c *Ctx) {
	c.Rule("C11.O1-O5", "E2", "typestate of every pooled buffer, its views and the fields/cells holding it: no use, store, resize or second release after release/consumption; released fields overwritten before return; executor closures' releases mirrored exactly on the !ok edge", 25)
	c.Rule("C11.O6", "E4", "every function that touches Parser.bytesCached tests state == stateClose first, under Parser.mux", 2)
	c.Rule("C11.O7", "E2,E4", "write queue: each entry released once — on flush's completion edge before the pop, or by teardown's loop followed by dropping the list; releaseToWrite closes the queued descriptor too", 3)
	c.Rule("C11.O8", "E2-summaries", "views handed to BodyReader.append / websocket.Conn.Parse / processors' OnBody are only measured, copied or re-sliced", 3)
	c.Rule("C11.O9", "E4", "a pooled buffer is never re-sliced from the front in place (*p = (*p)[k:]): its capacity would no longer be the one the allocator handed out, and a size-class allocator files it under the wrong class on Free", 1)
	c.Rule("C11.O11", "E5", "a retained request body has one owner: every release of a request passes the engine's RetainHTTPBody setting, so the library never frees or recycles body buffers the application was told it owns", 3)
	c10RetainSetting(c, "C11.O11")
	c.Rule("C11.O10", "E2", "a view taken from a pooled buffer or from a write-queue entry before it is released (a dereference, a re-slice, a field of the entry) is not used on any path after the release: callbacks and copies that need the bytes run before the buffer goes back to the pool", 40)
	c11StaleViews(c)
	c11NoFrontReslice(c, "C11.O9")

	cfg := c.tsConfig()
	ts := eng.NewTypestate(cfg)
	if tr := os.Getenv("NBV_TS_TRACE"); tr != "" {
		eng.Trace = func(fn *ssa.Function, in ssa.Instruction, dump string) {
			if strings.HasPrefix(c.P.FuncName(fn), tr) {
				if cs, ok := ir.AsCall(in); ok {
					n := c.P.CalleeName(cs.Common)
					if strings.Contains(n, "Free") || strings.Contains(n, "Append") || strings.Contains(n, "handleMessage") || strings.Contains(n, "Parse$") {
						fmt.Printf("TRACE %s %s %s\n%s", c.P.FuncName(fn), c.Pos(in), n, dump)
					}
				}
			}
		}
	}
	overflowIn := map[string]int{}
	eng.Overflows = 0
	eng.OverflowHook = func() { overflowIn[c.P.FuncName(eng.CurFn)]++ }
	scope := c.pkgFuncs("nbio", "nbhttp", "websocket")
	// roots: named functions and closures that are not invoked in line by their parent
	inline := map[*ssa.Function]bool{}
	for _, f := range scope {
		for _, cs := range c.P.Calls(f, nil) {
			if callee := ir.StaticCallee(cs.Common); callee != nil && callee.Parent() != nil && ir.Outermost(callee) == ir.Outermost(f) && cs.Kind != "go" {
				inline[callee] = true
			}
			if cl := cfg.ExecutorClosure(cs); cl != nil {
				// analysed as a root as well (its own body), transfer handled at the call
				_ = cl
			}
		}
	}
	perFn := map[*ssa.Function]int{}
	for _, f := range scope {
		if inline[f] {
			continue
		}
		before := ts.Frees + ts.Consumes
		ts.AnalyzeRoot(f)
		perFn[ir.Outermost(f)] += ts.Frees + ts.Consumes - before
	}
	viol := ts.Violations()
	byFn := map[*ssa.Function][]eng.TSViolation{}
	for _, v := range viol {
		o := ir.Outermost(v.Fn)
		byFn[o] = append(byFn[o], v)
	}
	for _, f := range scope {
		if f.Parent() != nil {
			continue
		}
		vs := byFn[f]
		if len(vs) == 0 {
			if perFn[f] > 0 {
				c.OK("C11.O1-O5", c.P.FuncName(f)+": buffer typestate", c.FnPos(f), fmt.Sprintf("%d release/resize events analysed on all paths", perFn[f]))
			}
			continue
		}
		// one report per (kind, release site): the first use in source order
		seen := map[string]int{}
		done := map[string]bool{}
		for _, v := range vs {
			grp := fmt.Sprintf("%s|%p", v.Kind, v.Freed)
			if done[grp] {
				continue
			}
			done[grp] = true
			what := string(v.Kind)
			if v.Freed != nil {
				if cs, ok := ir.AsCall(v.Freed); ok {
					what += " after " + c.P.CalleeName(cs.Common)
				}
			}
			seen[what]++
			key := fmt.Sprintf("%s: %s#%d", c.P.FuncName(f), what, seen[what])
			c.Bad("C11.O1-O5", key, c.Pos(v.In), v.Detail)
		}
	}
	c.Info = append(c.Info, fmt.Sprintf("typestate: disjunct overflows (merged program points): %d %v", eng.Overflows, overflowIn))
	c.Info = append(c.Info, fmt.Sprintf("typestate: %d function bodies, %d instructions, %d release and %d resize events", ts.Funcs, ts.Instrs, ts.Frees, ts.Consumes))

	// ------------------------------------------------------------------ O6
	{
		L := c.Locks()
		n := 0
		for _, f := range c.pkgFuncs("nbhttp") {
			if f.Parent() != nil {
				continue
			}
			accs := c.P.FieldAccesses(f, func(k string) bool { return k == "nbhttp.Parser.bytesCached" })
			if len(accs) == 0 {
				continue
			}
			n++
			fi := c.P.Info(f)
			key := fnKey(c.P, f, "terminal-state guard")
			bad := ""
			for _, a := range accs {
				if _, fresh := ir.Root(a.Addr.X).(*ssa.Alloc); fresh {
					continue
				}
				if !L.HeldClass(a.In, "nbhttp.Parser.mux") {
					bad = "bytesCached is accessed at " + c.Pos(a.In) + " without Parser.mux"
				}
				if !fi.HasFact(a.In, func(ft ir.Fact) bool {
					cmp, ok := ir.DecodeIntCmp(ft.Cond)
					return ok && c.P.LoadedField(cmp.Expr) == "nbhttp.Parser.state" && cmp.Holds(0) != ft.Truth && cmp.Holds(1) == ft.Truth
				}) {
					bad = "bytesCached is accessed at " + c.Pos(a.In) + " without first testing state != stateClose: after CloseAndClean the field refers to a released buffer"
				}
			}
			c.Cond(bad == "", "C11.O6", key, c.FnPos(f), "every access under Parser.mux behind state != stateClose", bad)
		}
		if n < 2 {
			c.Unres("C11.O6", "functions touching Parser.bytesCached", fmt.Sprintf("found %d", n))
		}
	}

	// ------------------------------------------------------------------ O7
	core := c.Core()
	if core.Release != nil && core.Teardown != nil {
		rel := core.Release
		// releaseToWrite: frees t.buf when non-nil and closes t.fd when > 0
		{
			fi := c.P.Info(rel)
			frees, closes := false, false
			for _, cs := range c.P.Calls(rel, nil) {
				if a := cfg.FreeArg(cs); a != nil && c.P.LoadedField(a) == "nbio.toWrite.buf" {
					frees = fi.HasFact(cs.In, func(ft ir.Fact) bool {
						x, isNil, ok := ir.NilTest(ft.Cond, ft.Truth)
						return ok && !isNil && c.P.LoadedField(x) == "nbio.toWrite.buf"
					})
				}
				if c.P.CalleeName(cs.Common) == "syscall.Close" && c.P.LoadedField(cs.Common.Args[0]) == "nbio.toWrite.fd" {
					closes = true
				}
			}
			c.Cond(frees && closes, "C11.O7", fnKey(c.P, rel, "releases buffer and descriptor"), c.FnPos(rel), "Free(t.buf) when non-nil; Close(t.fd)",
				"releaseToWrite does not release the entry's buffer (non-nil) and close its queued descriptor")
		}
		// who calls releaseToWrite: flush's closures and teardown only
		callers := map[string]bool{}
		n := 0
		for _, f := range c.nbioFuncs() {
			for _, cs := range c.P.Calls(f, nil) {
				if callsFn(cs.In, rel) {
					callers[c.P.FuncName(ir.Outermost(f))] = true
					n++
				}
			}
		}
		okCallers := len(callers) == 2 && callers["(*nbio.Conn).flush"] && callers[c.P.FuncName(core.Teardown)] && n == 3
		c.Cond(okCallers, "C11.O7", "callers of releaseToWrite", "", fmt.Sprintf("%v (%d sites)", sortedKeys(callers), n),
			fmt.Sprintf("releaseToWrite is called from %v (%d sites); expected flush (2) and teardown (1): an entry could be released twice", sortedKeys(callers), n))
		// teardown: release loop over the list, then the list is dropped
		{
			td := core.Teardown
			fi := c.P.Info(td)
			var relCall, drop ssa.Instruction
			for _, cs := range c.P.Calls(td, nil) {
				if callsFn(cs.In, rel) {
					relCall = cs.In
				}
			}
			for _, st := range c.P.StoresTo(td, fConnWriteList) {
				if ir.IsNilConst(st.Val) {
					drop = st
				}
			}
			bad := ""
			switch {
			case relCall == nil || !fi.InLoop(relCall):
				bad = "teardown does not release every queued entry"
			case drop == nil:
				bad = "teardown releases the entries but keeps the list: a late flush would release them again"
			case !fi.CanReach(relCall, drop) || fi.CanReach(drop, relCall):
				bad = "the list is not dropped after the release loop"
			default:
				// the loop ranges over the connection's writeList
				cs, _ := ir.AsCall(relCall)
				if !derivedFromField(c, cs.Common.Args[1], fConnWriteList) {
					bad = "the release loop does not range over the connection's write list"
				}
			}
			c.Cond(bad == "", "C11.O7", fnKey(c.P, td, "release loop then drop"), c.FnPos(td), "for each entry release; writeList = nil", bad)
		}
	} else {
		c.Unres("C11.O7", "releaseToWrite / teardown", "not resolved")
	}

	// ------------------------------------------------------------------ O8
	for _, name := range []string{"(*nbhttp.BodyReader).append", "(*websocket.Conn).Parse", "(*nbhttp.ServerProcessor).OnBody", "(*nbhttp.ClientProcessor).OnBody"} {
		fn := c.Fn("C11.O8", name)
		if fn == nil {
			continue
		}
		pd := paramOfType(fn, "[]byte")
		bad := c.viewEscapes(fn, pd)
		c.Cond(bad == "", "C11.O8", fnKey(c.P, fn, "view only read/copied"), c.FnPos(fn), "len / copy source / Append source / re-slice / pass to a checked sink", bad)
	}
}

// derivedFromField: v is an element loaded from a slice that was loaded from the field.
func derivedFromField(c *Ctx, v ssa.Value, field string) bool {
	v = ir.Resolve(v)
	a, ok := ir.IsLoad(v)
	if ok {
		if ia, ok := a.(*ssa.IndexAddr); ok {
			return c.P.LoadedField(ia.X) == field
		}
	}
	if e, ok := v.(*ssa.Extract); ok {
		if n, ok := e.Tuple.(*ssa.Next); ok {
			if r, ok := n.Iter.(*ssa.Range); ok {
				return c.P.LoadedField(r.X) == field
			}
		}
	}
	return false
}

// viewEscapes checks that a []byte parameter is only measured, copied,
// re-sliced (recursively with the same restriction) or passed on to one of
// the sinks that are themselves checked.
func (c *Ctx) viewEscapes(fn *ssa.Function, pd *ssa.Parameter) string {
	if pd == nil {
		return "no []byte parameter"
	}
	bad := ""
	seen := map[ssa.Value]bool{}
	var visit func(v ssa.Value, depth int)
	visit = func(v ssa.Value, depth int) {
		if seen[v] || depth > 8 {
			return
		}
		seen[v] = true
		refs := v.Referrers()
		if refs == nil {
			return
		}
		for _, r := range *refs {
			switch u := r.(type) {
			case *ssa.DebugRef:
			case *ssa.Phi:
				visit(u, depth+1)
			case *ssa.Slice:
				if u.X == v {
					visit(u, depth+1)
				}
			case *ssa.Store:
				if u.Val == v {
					if a, ok := u.Addr.(*ssa.Alloc); ok {
						visit(a, depth+1) // spill of the parameter (captured / address taken)
						continue
					}
					bad = "the caller's view is stored at " + c.Pos(u) + ": it would outlive the caller's buffer"
				}
			case *ssa.UnOp:
				if u.Op == token.MUL {
					visit(u, depth+1)
				}
			case *ssa.MakeClosure:
				f := u.Fn.(*ssa.Function)
				for i, b := range u.Bindings {
					if b == v {
						visit(f.FreeVars[i], depth+1)
					}
				}
			case *ssa.Call:
				name := c.P.CalleeName(&u.Call)
				ok := false
				switch {
				case name == "builtin:len":
					ok = true
				case name == "builtin:copy":
					ok = len(u.Call.Args) == 2 && u.Call.Args[1] == v && u.Call.Args[0] != v
				case strings.HasSuffix(name, ".Append") && (strings.HasPrefix(name, "invoke:mempool.Allocator") || name == "mempool.Append"):
					ok = u.Call.Args[0] != v
				case name == "(*nbhttp.BodyReader).append":
					ok = true // checked itself
				}
				if !ok {
					bad = "the caller's view flows into " + name + " at " + c.Pos(u)
				}
			case *ssa.IndexAddr, *ssa.Index:
				// element reads
			case *ssa.BinOp:
			default:
				bad = fmt.Sprintf("the caller's view is used by %T at %s", r, c.Pos(r))
			}
		}
	}
	visit(pd, 0)
	return bad
}

// c11NoFrontReslice: O9.
func c11NoFrontReslice(c *Ctx, ob string) {
	bad := ""
	n := 0
	for _, f := range c.pkgFuncs("nbio", "nbhttp", "websocket") {
		for _, b := range f.Blocks {
			for _, in := range b.Instrs {
				st, ok := in.(*ssa.Store)
				if !ok || st.Addr.Type().String() != "*[]byte" {
					continue
				}
				sl, ok := st.Val.(*ssa.Slice)
				if !ok {
					continue
				}
				a, isLoad := ir.IsLoad(sl.X)
				if !isLoad || (ir.Resolve(a) != ir.Resolve(st.Addr) && c.P.Desc(a) != c.P.Desc(st.Addr)) {
					continue
				}
				n++
				if sl.Low == nil {
					continue
				}
				if k, isK := ir.ConstInt(sl.Low); isK && k == 0 {
					continue
				}
				// only buffers that can come from an allocator: a pointer held in a field, a parameter,
				// or a Malloc result (a local slice variable's own address is not pooled)
				if al, isAlloc := ir.Root(st.Addr).(*ssa.Alloc); isAlloc && al.Comment != "" && !strings.HasPrefix(al.Type().String(), "**") {
					continue
				}
				bad = c.P.FuncName(ir.Outermost(f)) + " re-slices a pooled buffer from the front in place at " + c.Pos(in) + " (" + c.P.Desc(st.Val) + "): the capacity shrinks, and mempool's size-class allocator files the buffer under a class larger than its capacity when it is freed, so a later Malloc panics"
			}
		}
	}
	c.Cond(bad == "", ob, "no in-place front re-slice of pooled buffers", "", fmt.Sprintf("%d in-place re-slices, all from offset 0", n), bad)
}

// c11StaleViews: O10.  The typestate engine follows the pointer that is
// released; this rule follows what was derived from it before: `buf :=
// (*head.buf)[off:]` stays a valid Go slice after releaseToWrite(head), but
// its bytes belong to the pool's next customer.
func c11StaleViews(c *Ctx) {
	cfg := c.tsConfig()
	isMem := func(t types.Type) bool {
		switch u := t.Underlying().(type) {
		case *types.Slice, *types.Pointer:
			return true
		case *types.Basic:
			return u.Kind() == types.String || u.Kind() == types.UnsafePointer
		}
		return false
	}
	n := 0
	for _, f := range c.libFuncs() {
		fi := c.P.Info(f)
		k := 0
		for _, cs := range c.P.Calls(f, nil) {
			var arg ssa.Value
			if a := cfg.FreeArg(cs); a != nil {
				arg = a
			} else if c.P.CalleeName(cs.Common) == "(*nbio.Conn).releaseToWrite" && len(cs.Common.Args) > 1 {
				arg = cs.Common.Args[1]
			}
			if arg == nil {
				continue
			}
			if _, isDefer := cs.In.(*ssa.Defer); isDefer {
				continue
			}
			root := ir.Resolve(arg)
			n++
			k++
			key := c.siteKey(f, "release", k)
			// views: closure of the root under dereference, re-slice, field/index address, load, phi
			views := map[ssa.Value]bool{root: true}
			work := []ssa.Value{root}
			for len(work) > 0 {
				v := work[len(work)-1]
				work = work[:len(work)-1]
				refs := v.Referrers()
				if refs == nil {
					continue
				}
				for _, r := range *refs {
					var d ssa.Value
					switch x := r.(type) {
					case *ssa.UnOp:
						if x.Op == token.MUL && x.X == v {
							d = x
						}
					case *ssa.Slice:
						if x.X == v {
							d = x
						}
					case *ssa.FieldAddr:
						d = x
					case *ssa.IndexAddr:
						if x.X == v {
							d = x
						}
					case *ssa.ChangeType:
						d = x
					case *ssa.Phi:
						d = x
					}
					if d != nil && !views[d] && isMem(d.Type()) {
						views[d] = true
						work = append(work, d)
					}
				}
			}
			var def ssa.Instruction
			if di, ok := root.(ssa.Instruction); ok {
				def = di
			}
			vis, _ := fi.Reach([]ssa.Instruction{cs.In}, func(in ssa.Instruction) bool { return def != nil && in == def })
			bad := ""
			for in := range vis {
				if in == cs.In || in == def {
					continue
				}
				if _, isDbg := in.(*ssa.DebugRef); isDbg {
					continue
				}
				if v, ok := in.(ssa.Value); ok && views[v] {
					// the derivation itself; its use is what counts
					if _, isPhi := in.(*ssa.Phi); isPhi {
						continue
					}
				}
				for _, op := range in.Operands(nil) {
					if *op == nil || !views[*op] {
						continue
					}
					if bad == "" || c.Pos(in) < bad {
						bad = c.Pos(in)
					}
				}
			}
			detail := ""
			if bad != "" {
				detail = "a view of the buffer released at " + c.Pos(cs.In) + " (taken from " + c.P.Desc(root) + " before) is still used at " + bad + ": by then the pool may have handed the bytes to another owner"
			}
			c.Cond(bad == "", "C11.O10", key, c.Pos(cs.In), "no view of the released object is used afterwards", detail)
		}
	}
	_ = n
}
