package props

import (
	"fmt"
	"go/token"
	"strings"

	"golang.org/x/tools/go/ssa"

	"verif/internal/ir"
)

func init() {
	register(&Property{
		ID:          "C03",
		Engines:     []string{"cfg", "lockset"},
		Explanation: "Connection lifecycle, structural part: every teardown call is dominated, inside one critical section, by the !closed edge and the store closed=true (O1); the close/open notification fields, deleteConn and close(fd) have exactly the frozen caller sets (O2); open and close notifications are guarded by the same type predicate and the connection WaitGroup Add/Done sites are the frozen sets (O3); every effect of the public operations is dominated by the !closed edge and the closed edge returns the closed indication without effect (O4); table removal precedes close(fd), the open notification precedes the table insert and EPOLL_CTL_ADD (O5); closeErr has only the two frozen writers (O6); a dial success report is dominated by evidence of establishment and a pending dial callback is reported on teardown (O7). DialAsyncTimeout keeps a descriptor as a pending dial only for connect()==nil or EINPROGRESS (O8); deleteConn reports the close on every path except the nil guard and the UDP listener type (O9). The dial timer is armed only for a pending connect (O10). After the repair of the dial outcome: SO_ERROR evidence, consume-once under the mutex, teardown reports a pending callback once (O7). The UDP session table is accessed under its own lock only (O11).",
		NotCovered:  "histories and interleavings as such (the argument is one flag, one critical section, one caller chain); descriptor reuse by the kernel; UDP session races",
		Run:         runC03,
	})
}

func runC03(c *Ctx) {
	c.Rule("C03.O1", "E4,E1", "each call of teardown is dominated by the false edge of a closed read and by closed=true, both in one critical section of Conn.mux", 5)
	c.Rule("C03.O2", "E5", "onClose is invoked only from deleteConn, deleteConn only from teardown, close(Conn.fd) only in teardown and udpConn.Close, onOpen only from addConn and the UDP miss edge", 4)
	c.Rule("C03.O3", "E7c,E5", "onOpen and onClose are guarded by the same Conn.typ predicate; wgConn.Add / Done sites are the frozen sets; the close wrapper defers Done before calling the user handler inside the Async job", 4)
	c.Rule("C03.O4", "E4", "every effect (kernel I/O, queue/job mutation, timer creation, epoll_ctl) of the listed operations is dominated by the !closed edge; the closed edge has no effect and returns the closed indication", 10)
	c.Rule("C03.O5", "E4", "teardown removes the table entry before close(fd); addConn notifies open before the table insert and EPOLL_CTL_ADD", 2)
	c.Rule("C03.O6", "E5", "closeErr is written only by teardown and by the nil-guarded UDP read path", 1)
	c.Rule("C03.O8", "E4", "DialAsyncTimeout keeps the descriptor as a pending dial only for connect() == nil or EINPROGRESS: every other errno closes the descriptor and is returned", 1)
	c.Rule("C03.O9", "E4", "deleteConn reports the close on every path (one close notification per connection means at least one): the only exits without onClose are the nil guard and the UDP-listener type", 1)
	c.Rule("C03.O7", "E4", "onConnected(c, nil) is dominated by evidence that the connect succeeded; teardown reports a still-pending dial callback", 2)
	c03AlwaysNotifies(c, "C03.O9")
	c.Rule("C03.O10", "E4", "the dial timer is armed only for a connect that is still pending: a dial that is reported as a success is never closed by its own dial timer", 1)
	c.Rule("C03.O11", "E1", "every access of the UDP listener's session table (lookup, insert, delete, range, reset) holds the table's own lock, udpConn.mux", 4)
	c03UDPSessionTable(c)
	c16DialTimerPending(c, "C03.O10")
	c03DialClassify(c)

	core := c.Core()
	if core.Teardown == nil || core.DeleteConn == nil {
		c.Unres("C03.O1", "core anchors", "teardown/deleteConn not resolved")
		return
	}
	L := c.Locks()

	// ------------------------------------------------------------------ O1
	for _, f := range c.nbioFuncs() {
		fi := c.P.Info(f)
		n := 0
		for _, cs := range c.P.Calls(f, nil) {
			if !callsFn(cs.In, core.Teardown) {
				continue
			}
			n++
			key := c.siteKey(f, "teardown", n)
			bad := ""
			// dominating !closed fact
			var guard *ir.Fact
			for _, ft := range fi.Facts(cs.In) {
				if cl, ok := c.closedTest(ft, fConnClosed); ok && !cl {
					ft := ft
					guard = &ft
				}
			}
			var set *ssa.Store
			for _, st := range c.P.StoresTo(f, fConnClosed) {
				if isStoreTrue(st, c.P, fConnClosed) && fi.Dominates(st, cs.In) {
					set = st
				}
			}
			switch {
			case guard == nil:
				bad = "teardown is not dominated by the false edge of a closed test: it can run twice"
			case set == nil:
				bad = "teardown is not preceded by closed = true: a concurrent closer can run it again"
			default:
				// the load feeding the guard
				var load ssa.Instruction
				if ld, ok := ir.Unconv(guard.Cond).(*ssa.UnOp); ok {
					load = ld
				}
				if load == nil || !L.HeldClass(load, fConnMux) || !L.HeldClass(set, fConnMux) {
					bad = "the closed test / closed=true are not both under Conn.mux"
				} else if ok, rel := L.SameRegion(fi, fConnMux, load, set); !ok {
					bad = "the mutex is released at " + c.Pos(rel) + " between the closed test and closed=true (check-then-act is not atomic)"
				} else if !fi.Dominates(load, set) {
					bad = "closed=true does not follow the closed test"
				}
			}
			c.Cond(bad == "", "C03.O1", key, c.Pos(cs.In), "guarded by !closed and closed=true in one critical section", bad)
		}
	}

	// ------------------------------------------------------------------ O2
	whoCalls := func(pred func(name string, cs ir.CallSite) bool) (map[string]bool, int) {
		set := map[string]bool{}
		n := 0
		for _, f := range c.libFuncs() {
			for _, cs := range c.P.Calls(f, pred) {
				_ = cs
				set[c.P.FuncName(ir.Outermost(f))] = true
				n++
			}
		}
		return set, n
	}
	expectSet := func(ob, what string, got map[string]bool, n int, want []string, wantN int) {
		w := map[string]bool{}
		for _, x := range want {
			w[x] = true
		}
		bad := ""
		for g := range got {
			if !w[g] {
				bad += "unexpected " + g + "; "
			}
		}
		for x := range w {
			if !got[x] {
				bad += "missing " + x + "; "
			}
		}
		if wantN >= 0 && n != wantN {
			bad += fmt.Sprintf("%d sites, expected %d; ", n, wantN)
		}
		c.Cond(bad == "", ob, what, "", fmt.Sprintf("%v (%d sites)", sortedKeys(got), n), what+": "+bad)
	}
	{
		got, n := whoCalls(func(name string, _ ir.CallSite) bool { return name == "dyn:"+fEngOnClose })
		expectSet("C03.O2", "callers of Engine.onClose", got, n, []string{"(*nbio.poller).deleteConn"}, 1)
		got, n = whoCalls(func(name string, _ ir.CallSite) bool { return name == "(*nbio.poller).deleteConn" })
		expectSet("C03.O2", "callers of deleteConn", got, n, []string{c.P.FuncName(core.Teardown)}, 1)
		got, n = whoCalls(func(name string, cs ir.CallSite) bool {
			return name == "syscall.Close" && len(cs.Common.Args) == 1 && c.isConnFd(cs.Common.Args[0])
		})
		expectSet("C03.O2", "close(Conn.fd) sites", got, n, []string{c.P.FuncName(core.Teardown), "(*nbio.udpConn).Close"}, 2)
		got, n = whoCalls(func(name string, _ ir.CallSite) bool { return name == "dyn:"+fEngOnOpen })
		expectSet("C03.O2", "callers of Engine.onOpen", got, n, []string{"(*nbio.poller).addConn", "(*nbio.Conn).readUDP"}, 2)
	}

	// ------------------------------------------------------------------ O3
	{
		typPred := func(fn *ssa.Function, field string) (string, ssa.Instruction) {
			if fn == nil {
				return "", nil
			}
			fi := c.P.Info(fn)
			for _, cs := range c.P.Calls(fn, func(name string, _ ir.CallSite) bool { return name == "dyn:"+field }) {
				var preds []string
				for _, ft := range fi.Facts(cs.In) {
					b, ok := ft.Cond.(*ssa.BinOp)
					if !ok || (b.Op != token.EQL && b.Op != token.NEQ) {
						continue
					}
					var k int64
					var isK bool
					if c.P.LoadedField(b.X) == fConnTyp {
						k, isK = ir.ConstInt(b.Y)
					} else if c.P.LoadedField(b.Y) == fConnTyp {
						k, isK = ir.ConstInt(b.X)
					}
					if !isK {
						continue
					}
					eq := (b.Op == token.EQL) == ft.Truth
					if eq {
						preds = append(preds, fmt.Sprintf("typ==%d", k))
					} else {
						preds = append(preds, fmt.Sprintf("typ!=%d", k))
					}
				}
				return strings.Join(preds, "&"), cs.In
			}
			return "<no call>", nil
		}
		open, oi := typPred(c.P.Func("(*nbio.poller).addConn"), fEngOnOpen)
		cls, ci := typPred(core.DeleteConn, fEngOnClose)
		_ = oi
		pos := ""
		if ci != nil {
			pos = c.Pos(ci)
		}
		c.Cond(open == cls && open != "" && open != "<no call>", "C03.O3", "open/close type predicate", pos,
			"both notifications guarded by "+open, fmt.Sprintf("onOpen is guarded by [%s] but onClose by [%s]: some connection type gets one notification without the other", open, cls))

		wg := func(method string) (map[string]bool, int) {
			return whoCalls(func(name string, cs ir.CallSite) bool {
				if name != "(*sync.WaitGroup)."+method || len(cs.Common.Args) == 0 {
					return false
				}
				fa, ok := ir.Root(cs.Common.Args[0]).(*ssa.FieldAddr)
				return ok && c.P.FieldKey(fa) == "nbio.Engine.wgConn"
			})
		}
		got, n := wg("Add")
		expectSet("C03.O3", "wgConn.Add sites", got, n, []string{"(*nbio.Engine).OnOpen", "(*nbio.Engine).DialAsyncTimeout", "(*nbio.Engine).initHandlers"}, 3)
		got, n = wg("Done")
		expectSet("C03.O3", "wgConn.Done sites", got, n, []string{"(*nbio.Engine).OnClose", "(*nbio.Engine).DialAsyncTimeout", "(*nbio.Engine).Stop"}, 3)

		// close wrapper: Done is deferred inside the Async job, before the user handler
		if fn := c.Fn("C03.O3", "(*nbio.Engine).OnClose"); fn != nil {
			bad := "no deferred wgConn.Done found in the close wrapper"
			for _, g := range ir.Closures(fn) {
				for _, cs := range c.P.Calls(g, nil) {
					if cs.Kind != "defer" || c.P.CalleeName(cs.Common) != "(*sync.WaitGroup).Done" {
						continue
					}
					bad = ""
					gi := c.P.Info(g)
					// the user handler (free variable h) is called after the defer
					called := false
					for _, hc := range c.P.Calls(g, nil) {
						if hc.Kind == "call" && strings.HasPrefix(c.P.CalleeName(hc.Common), "dyn:") && gi.Dominates(cs.In, hc.In) {
							called = true
						}
					}
					if !called {
						bad = "the user close handler does not run under the deferred Done"
					}
					// g must be handed to Async (not run inline by the poller)
					if !c.closurePassedTo(g, "(*timer.Timer).Async") {
						bad = "the close job is not handed to the engine's Async queue"
					}
				}
			}
			c.Cond(bad == "", "C03.O3", "close wrapper shape", c.FnPos(fn), "Async job: defer Done; user handler", bad)
		}
	}

	// ------------------------------------------------------------------ O4
	c03ClosedFirst(c)

	// ------------------------------------------------------------------ O5
	{
		fn := core.Teardown
		fi := c.P.Info(fn)
		var del ssa.Instruction
		for _, cs := range c.P.CallsNamed(fn, "(*nbio.poller).deleteConn") {
			del = cs.In
		}
		bad := ""
		n := 0
		// a connection without a poller was never in the table: that edge is exempt
		noPoller := func(i *ssa.If, k int) bool {
			x, isNil, ok := ir.NilTest(i.Cond, k == 0)
			return ok && isNil && c.P.LoadedField(x) == "nbio.Conn.p"
		}
		for _, cs := range c.P.Calls(fn, nil) {
			name := c.P.CalleeName(cs.Common)
			isClose := name == "syscall.Close" && c.isConnFd(cs.Common.Args[0]) || name == "(*nbio.udpConn).Close"
			if !isClose {
				continue
			}
			n++
			// reachable from the entry without passing deleteConn?
			entry := fn.Blocks[0].Instrs[0]
			vis, _ := fi.ReachOpt([]ssa.Instruction{entry}, func(in ssa.Instruction) bool { return in == del }, noPoller)
			if del == nil || vis[cs.In] || entry == cs.In {
				bad = "the descriptor is closed at " + c.Pos(cs.In) + " before the table entry is removed: a reused fd could be attributed to the dead connection"
			}
		}
		if n == 0 {
			bad = "no close of the descriptor found"
		}
		c.Cond(bad == "", "C03.O5", fnKey(c.P, fn, "table removal before close(fd)"), c.FnPos(fn), "deleteConn dominates every close", bad)
	}
	if fn := c.Fn("C03.O5", "(*nbio.poller).addConn"); fn != nil {
		fi := c.P.Info(fn)
		var open []ssa.Instruction
		for _, cs := range c.P.Calls(fn, func(name string, _ ir.CallSite) bool { return name == "dyn:"+fEngOnOpen }) {
			open = append(open, cs.In)
		}
		bad := ""
		if len(open) != 1 {
			bad = fmt.Sprintf("expected one open notification, found %d", len(open))
		} else {
			after, _ := fi.Reach(open, nil)
			nIns, nAdd := 0, 0
			for _, b := range fn.Blocks {
				for _, in := range b.Instrs {
					if st, ok := in.(*ssa.Store); ok && !ir.IsNilConst(st.Val) {
						if ia, ok := st.Addr.(*ssa.IndexAddr); ok && c.P.LoadedField(ia.X) == fEngConnsUnix {
							nIns++
							if !after[in] || fi.CanReach(in, open[0]) {
								bad = "the table insert at " + c.Pos(in) + " is not after the open notification"
							}
						}
					}
					if c.isCallTo(in, "(*nbio.poller).addRead", "(*nbio.poller).addReadWrite", "syscall.EpollCtl") {
						nAdd++
						if !after[in] || fi.CanReach(in, open[0]) {
							bad = "EPOLL_CTL_ADD at " + c.Pos(in) + " is not after the open notification: data could be delivered before OnOpen"
						}
					}
				}
			}
			if nIns == 0 || nAdd == 0 {
				bad = "table insert / registration not found"
			}
		}
		c.Cond(bad == "", "C03.O5", fnKey(c.P, fn, "open before registration"), c.FnPos(fn), "onOpen precedes table insert and ADD", bad)
	}

	// ------------------------------------------------------------------ O6
	{
		bad := ""
		n := 0
		for _, f := range c.libFuncs() {
			for _, st := range c.P.StoresTo(f, fConnCloseErr) {
				if _, fresh := ir.Root(st.Addr.(*ssa.FieldAddr).X).(*ssa.Alloc); fresh {
					continue
				}
				n++
				name := c.P.FuncName(ir.Outermost(f))
				switch name {
				case c.P.FuncName(core.Teardown):
					// the cause reported is this close call's own argument, stored unconditionally
					// before the notification (the UDP read path parks routine errnos in the field)
					tfi := c.P.Info(f)
					if _, isParam := ir.Resolve(st.Val).(*ssa.Parameter); !isParam {
						bad = "teardown stores " + c.P.Desc(st.Val) + " into closeErr, not the error it was called with"
					}
					for _, cs := range c.P.CallsNamed(f, "(*nbio.poller).deleteConn") {
						if !tfi.Dominates(st, cs.In) {
							bad = "teardown reaches the close notification at " + c.Pos(cs.In) + " on a path that does not store its own error into closeErr (the store at " + c.Pos(st) + " is conditional): a routine errno parked there by the UDP read path is reported as the close cause"
						}
					}
				case "(*nbio.Conn).readUDP":
					fi := c.P.Info(f)
					if !fi.HasFact(st, func(ft ir.Fact) bool {
						x, isNil, ok := ir.NilTest(ft.Cond, ft.Truth)
						return ok && isNil && c.P.LoadedField(x) == fConnCloseErr
					}) {
						bad = "readUDP overwrites closeErr at " + c.Pos(st) + " without the nil guard"
					}
				default:
					bad = "closeErr is written by " + name + " at " + c.Pos(st)
				}
			}
		}
		c.Cond(bad == "" && n == 2, "C03.O6", "writers of "+fConnCloseErr, "", "teardown + nil-guarded UDP read", fmt.Sprintf("%s (stores=%d)", bad, n))
	}

	// ------------------------------------------------------------------ O7
	c03Dial(c)
}

// closurePassedTo reports that closure g is created and passed as an argument
// to a call of the named callee.
func (c *Ctx) closurePassedTo(g *ssa.Function, callee string) bool {
	par := g.Parent()
	if par == nil {
		return false
	}
	for _, b := range par.Blocks {
		for _, in := range b.Instrs {
			mc, ok := in.(*ssa.MakeClosure)
			if !ok || mc.Fn != ssa.Value(g) {
				continue
			}
			if refs := mc.Referrers(); refs != nil {
				for _, r := range *refs {
					if cs, ok := ir.AsCall(r); ok && c.P.CalleeName(cs.Common) == callee {
						for _, a := range cs.Common.Args {
							if a == ssa.Value(mc) {
								return true
							}
						}
					}
				}
			}
		}
	}
	return false
}

// c03ClosedFirst: O4.
func c03ClosedFirst(c *Ctx) {
	core := c.Core()
	kernel, enqueue := c.writeSinks()
	L := c.Locks()
	readSeed := map[*ssa.Function]bool{}
	for _, kr := range core.KernelReads {
		readSeed[ir.Outermost(kr.In.Parent())] = true
	}
	readers := c.reachers(readSeed, c.nbioFuncs())
	type row struct {
		fn      string
		locked  bool   // the closed read must hold Conn.mux in this function
		retKind string // "err" closed edge returns a non-nil error; "false"; "nilerr" returns nil; "none"
		effect  func(in ssa.Instruction) string
	}
	callEffect := func(set map[*ssa.Function]bool, what string) func(in ssa.Instruction) string {
		return func(in ssa.Instruction) string {
			if cs, ok := ir.AsCall(in); ok {
				if callee := ir.StaticCallee(cs.Common); callee != nil && (set[callee] || set[ir.Outermost(callee)]) && callee != core.Teardown {
					return what + " " + c.P.FuncName(callee)
				}
			}
			for _, kw := range append(append([]ir.CallSite{}, core.KernelWrites...), core.KernelReads...) {
				if kw.In == in {
					return "kernel I/O " + c.P.CalleeName(kw.Common)
				}
			}
			return ""
		}
	}
	writeEff := func(in ssa.Instruction) string {
		if s := callEffect(kernel, "write via")(in); s != "" {
			return s
		}
		return callEffect(enqueue, "enqueue via")(in)
	}
	timerEff := func(in ssa.Instruction) string {
		if cs, ok := ir.AsCall(in); ok {
			switch c.P.CalleeName(cs.Common) {
			case "(*timer.Timer).AfterFunc", "time.AfterFunc":
				return "timer creation"
			case "(*time.Timer).Reset":
				return "timer reset"
			}
		}
		return ""
	}
	storeEff := func(field string) func(in ssa.Instruction) string {
		return func(in ssa.Instruction) string {
			if st, ok := in.(*ssa.Store); ok {
				if fa, ok := st.Addr.(*ssa.FieldAddr); ok && c.P.FieldKey(fa) == field {
					return "store to " + field
				}
			}
			return ""
		}
	}
	both := func(fs ...func(in ssa.Instruction) string) func(in ssa.Instruction) string {
		return func(in ssa.Instruction) string {
			for _, f := range fs {
				if s := f(in); s != "" {
					return s
				}
			}
			return ""
		}
	}
	pollerCall := func(names ...string) func(in ssa.Instruction) string {
		return func(in ssa.Instruction) string {
			if c.isCallTo(in, names...) {
				return "epoll_ctl"
			}
			return ""
		}
	}
	rows := []row{
		{fnWriteAPI, true, "err", writeEff},
		{fnWritevAPI, true, "err", writeEff},
		{fnSendfile, true, "err", writeEff},
		{fnFlush, true, "err", writeEff},
		{"(*nbio.Conn).Read", true, "err", callEffect(readers, "read via")},
		{"(*nbio.Conn).ReadAndGetConn", true, "err", callEffect(readers, "read via")},
		{"(*nbio.Conn).Execute", true, "false", storeEff(fConnJobList)},
		{"(*nbio.Conn).SetDeadline", true, "none", timerEff},
		{"(*nbio.Conn).setDeadline", true, "none", timerEff},
		{"(*nbio.Conn).modWrite", false, "none", both(storeEff(fConnIsWAdded), pollerCall("(*nbio.poller).modWrite"))},
		{"(*nbio.Conn).resetRead", false, "none", both(storeEff(fConnIsWAdded), pollerCall("(*nbio.poller).resetRead"))},
	}
	for _, r := range rows {
		fn := c.Fn("C03.O4", r.fn)
		if fn == nil {
			continue
		}
		key := fnKey(c.P, fn, "closed-check-first")
		bad := ""
		nEff := 0
		for _, g := range ir.WithClosures(fn) {
			gi := c.P.Info(g)
			for _, b := range g.Blocks {
				for _, in := range b.Instrs {
					e := r.effect(in)
					if e == "" {
						continue
					}
					nEff++
					if g != fn {
						// effects inside local closures: the call of the closure must be guarded
						continue
					}
					if !c.underNotClosed(gi, in, fConnClosed) {
						bad = e + " at " + c.Pos(in) + " is not dominated by the !closed edge"
					}
				}
			}
		}
		if nEff == 0 {
			c.Unres("C03.O4", key, "no effect site matched in "+r.fn)
			continue
		}
		fi := c.P.Info(fn)
		// the closed edge
		sawEdge := false
		for _, i := range fi.Ifs() {
			for k := 0; k < 2; k++ {
				cl, ok := c.closedTest(ir.Fact{Cond: stripNot(i.Cond), Truth: condTruth(i.Cond, k)}, fConnClosed)
				if !ok || !cl {
					continue
				}
				sawEdge = true
				if r.locked {
					if ld, ok := ir.Unconv(stripNot(i.Cond)).(*ssa.UnOp); ok && !L.HeldClass(ld, fConnMux) {
						bad = "the closed flag is read at " + c.Pos(ld) + " without Conn.mux"
					}
				}
				vis, _ := fi.ReachFromEdge(i, k, nil)
				for in := range vis {
					if e := r.effect(in); e != "" {
						bad = e + " at " + c.Pos(in) + " is reachable on the closed edge"
					}
					if ret, ok := in.(*ssa.Return); ok {
						switch r.retKind {
						case "err":
							if _, kind := c.retErr(fi, ret); kind != "nonnil" {
								bad = "the closed edge returns without a closed error at " + c.Pos(ret)
							}
						case "false":
							rv := ir.RetVals(ret)
							if b, ok := ir.ConstBool(rv[0]); !ok || b {
								bad = "the closed edge does not return false at " + c.Pos(ret)
							}
						}
					}
				}
			}
		}
		if !sawEdge {
			bad = "no test of the closed flag"
		}
		c.Cond(bad == "", "C03.O4", key, c.FnPos(fn), fmt.Sprintf("%d effect sites dominated by !closed; closed edge is inert", nEff), bad)
	}
}

// condTruth gives the truth of the un-negated condition on successor k.
func condTruth(cond ssa.Value, k int) bool {
	_, t := ir.StripNot(cond, k == 0)
	return t
}

// c03Dial: O7.  The dial callback is the dial's outcome.  Success may be
// reported only behind the socket's SO_ERROR (or the event's error flags), the
// callback is consumed under the connection's mutex behind the !closed test
// (so the poller's success report and a concurrent teardown cannot both run
// it), and the teardown reports a callback that is still pending.
func c03Dial(c *Ctx) {
	core := c.Core()
	L := c.Locks()
	isCB := func(name string, _ ir.CallSite) bool { return name == "dyn:"+fConnOnConn }
	n := 0
	for _, fn := range c.nbioFuncs() {
		if fn == core.Teardown {
			continue
		}
		fi := c.P.Info(fn)
		k := 0
		for _, cs := range c.P.Calls(fn, isCB) {
			n++
			k++
			key := c.siteKey(fn, "onConnected", k)
			if len(cs.Common.Args) != 2 || !ir.IsNilConst(cs.Common.Args[1]) {
				c.OK("C03.O7", key, c.Pos(cs.In), "reports a non-nil error")
				continue
			}
			// evidence of establishment
			ev := fi.HasFact(cs.In, func(ft ir.Fact) bool {
				d := c.P.Desc(ft.Cond)
				if strings.Contains(d, "syscall.GetsockoptInt") {
					return true
				}
				cmp, ok := ir.DecodeIntCmp(ft.Cond)
				if !ok {
					return false
				}
				b, ok := ir.Resolve(cmp.Expr).(*ssa.BinOp)
				if !ok || b.Op != token.AND {
					return false
				}
				mask, isK := ir.ConstInt(b.Y)
				if !isK {
					mask, isK = ir.ConstInt(b.X)
				}
				errBits := c.epollConst("EPOLLERR") | c.epollConst("EPOLLHUP")
				if !isK || mask&errBits != errBits {
					return false
				}
				return cmp.Holds(0) == ft.Truth && cmp.Holds(1) != ft.Truth
			})
			if !ev {
				// SO_ERROR read by a dominating getsockopt whose outcome (error or errno) is tested nil on this path
				for _, g := range c.P.CallsNamed(fn, "syscall.GetsockoptInt") {
					if len(g.Common.Args) != 3 || !fi.Dominates(g.In, cs.In) {
						continue
					}
					if so, ok := ir.ConstInt(g.Common.Args[2]); !ok || so != c.sysConst("SO_ERROR") {
						continue
					}
					dep := c.dependsOn(fn, g.Value())
					if fi.HasFact(cs.In, func(ft ir.Fact) bool {
						x, isNil, ok := ir.NilTest(ft.Cond, ft.Truth)
						return ok && isNil && dep[ir.Resolve(x)]
					}) {
						ev = true
					}
				}
			}
			c.Cond(ev, "C03.O7", key, c.Pos(cs.In), "success report dominated by an SO_ERROR / error-flag test",
				"dial success is reported on the first EPOLLOUT without testing SO_ERROR or the event's error flags: a refused connect is reported as (c, nil)")
			// consume-once: the callback value is taken and the field cleared under Conn.mux, behind !closed
			key2 := c.siteKey(fn, "onConnected consumed once", k)
			bad := ""
			ld, isLoad := ir.Resolve(cs.Common.Value).(*ssa.UnOp)
			if !isLoad || c.P.LoadedField(ld) != fConnOnConn {
				bad = "the callback is not read from Conn.onConnected"
			} else {
				if !L.HeldClass(ld, fConnMux) {
					bad = "the pending callback is read at " + c.Pos(ld) + " without Conn.mux: the poller's success report and a teardown running at the same time (dial timeout, Stop) can both run it"
				} else if !c.underNotClosed(fi, ld, fConnClosed) {
					bad = "the pending callback is taken at " + c.Pos(ld) + " without the !closed test: a teardown that has already set closed reports the failure as well"
				}
				cleared := false
				for _, st := range c.P.StoresTo(fn, fConnOnConn) {
					if ir.IsNilConst(st.Val) && fi.Dominates(st, cs.In) && L.HeldClass(st, fConnMux) {
						cleared = true
					}
				}
				if bad == "" && !cleared {
					bad = "Conn.onConnected is not cleared (under Conn.mux) before the callback is run: a teardown during the callback reports a second outcome"
				}
			}
			c.Cond(bad == "", "C03.O7", key2, c.Pos(cs.In), "taken under Conn.mux behind !closed, field cleared before the call", bad)
		}
	}
	if n == 0 {
		c.Unres("C03.O7", "success report of the dial completion", "no call of Conn.onConnected outside the teardown")
	}
	// teardown reports a pending callback, once
	td := core.Teardown
	reports := false
	clears := false
	for _, g := range ir.WithClosures(td) {
		gi := c.P.Info(g)
		for _, cs := range c.P.Calls(g, isCB) {
			if len(cs.Common.Args) == 2 && !ir.IsNilConst(cs.Common.Args[1]) {
				reports = true
			}
			for _, st := range c.P.StoresTo(g, fConnOnConn) {
				if ir.IsNilConst(st.Val) && gi.Dominates(st, cs.In) {
					clears = true
				}
			}
		}
	}
	c.Cond(reports, "C03.O7", fnKey(c.P, td, "pending dial callback reported"), c.FnPos(td), "teardown invokes a pending onConnected with the failure",
		"a connection torn down while its dial callback is pending (refused, timed out, closed) never invokes the callback: the dial outcome is not reported")
	if reports {
		c.Cond(clears, "C03.O7", fnKey(c.P, td, "pending dial callback reported once"), c.FnPos(td), "field cleared before the callback",
			"the teardown runs the pending callback without clearing Conn.onConnected first")
	}
}

// sysConst looks up an integer constant of package syscall.
func (c *Ctx) sysConst(name string) int64 {
	for _, sp := range c.P.SSA.AllPackages() {
		if sp.Pkg.Path() == "syscall" {
			if m, ok := sp.Members[name].(*ssa.NamedConst); ok {
				if n, ok := ir.ConstInt(m.Value); ok {
					return n
				}
			}
		}
	}
	return -1
}

// epollConst looks up a syscall EPOLL* constant.
func (c *Ctx) epollConst(name string) int64 {
	for _, sp := range c.P.SSA.AllPackages() {
		if sp.Pkg.Path() == "syscall" {
			if m, ok := sp.Members[name].(*ssa.NamedConst); ok {
				if n, ok := ir.ConstInt(m.Value); ok {
					return n
				}
			}
		}
	}
	return 0
}

// c03DialClassify: O8.
func c03DialClassify(c *Ctx) {
	fn := c.Fn("C03.O8", "(*nbio.Engine).DialAsyncTimeout")
	if fn == nil {
		return
	}
	fi := c.P.Info(fn)
	key := fnKey(c.P, fn, "connect error classification")
	var connectErr ssa.Value
	for _, cs := range c.P.CallsNamed(fn, "syscall.Connect") {
		connectErr = cs.Value()
	}
	if connectErr == nil {
		c.Unres("C03.O8", key, "syscall.Connect not found")
		return
	}
	var reg ssa.Instruction
	for _, cs := range c.P.Calls(fn, func(name string, _ ir.CallSite) bool { return name == "(*nbio.Engine).addDialer" }) {
		reg = cs.In
	}
	if reg == nil {
		c.Unres("C03.O8", key, "registration not found")
		return
	}
	bad := ""
	n := 0
	for _, i := range fi.Ifs() {
		for k := 0; k < 2; k++ {
			e, target, is, ok := c.P.ErrorsIsTest(i.Cond, k == 0)
			if !ok || !is || ir.Resolve(e) != ir.Resolve(connectErr) {
				continue
			}
			n++
			vis, _ := fi.ReachFromEdge(i, k, nil)
			if vis[reg] && target != "EINPROGRESS" {
				bad = "a connect() that failed with " + target + " is kept as a dial in progress (" + c.Pos(i) + "): no connection attempt is pending for that errno, and the first writable event reports success for a connection that was never made"
			}
		}
	}
	// the failing edge: err != nil and not in progress must not reach the registration
	if n == 0 && bad == "" {
		bad = "no classification of connect's error found"
	}
	if bad == "" {
		for _, i := range fi.Ifs() {
			for k := 0; k < 2; k++ {
				e, target, is, ok := c.P.ErrorsIsTest(i.Cond, k == 0)
				if !ok || is || target != "EINPROGRESS" || ir.Resolve(e) != ir.Resolve(connectErr) {
					continue
				}
				vis, _ := fi.ReachFromEdge(i, k, nil)
				if vis[reg] {
					bad = "a connect() error other than EINPROGRESS reaches the registration (" + c.Pos(i) + ")"
				}
			}
		}
	}
	c.Cond(bad == "", "C03.O8", key, c.FnPos(fn), fmt.Sprintf("%d errno test(s): only EINPROGRESS continues", n), bad)
}

// c03AlwaysNotifies: O9.
func c03AlwaysNotifies(c *Ctx, ob string) {
	fn := c.Fn(ob, "(*nbio.poller).deleteConn")
	if fn == nil {
		return
	}
	fi := c.P.Info(fn)
	key := fnKey(c.P, fn, "close always reported")
	udpServer := c.pkgConstInt("nbio", "ConnTypeUDPServer")
	isNotify := func(in ssa.Instruction) bool {
		cs, ok := ir.AsCall(in)
		return ok && c.P.CalleeName(cs.Common) == "dyn:"+fEngOnClose
	}
	skip := func(i *ssa.If, k int) bool {
		if x, isNil, ok := ir.NilTest(i.Cond, k == 0); ok && isNil {
			if _, isParam := ir.Resolve(x).(*ssa.Parameter); isParam {
				return true
			}
		}
		cnd, truth := ir.StripNot(i.Cond, k == 0)
		if cmp, ok := ir.DecodeIntCmp(cnd); ok && c.P.LoadedField(cmp.Expr) == "nbio.Conn.typ" {
			// edge on which typ == ConnTypeUDPServer
			if cmp.Holds(udpServer) == truth && cmp.Holds(udpServer+1) != truth && cmp.Holds(udpServer-1) != truth {
				return true
			}
		}
		return false
	}
	first := fn.Blocks[0].Instrs[0]
	vis, _ := fi.ReachOpt([]ssa.Instruction{first}, isNotify, skip)
	bad := ""
	n := 0
	for _, b := range fn.Blocks {
		for _, in := range b.Instrs {
			if isNotify(in) {
				n++
			}
		}
	}
	for _, r := range fi.Returns() {
		if vis[r] {
			bad = "deleteConn can return at " + c.Pos(r) + " without the close notification for a connection that is neither nil nor the UDP listener: its OnClose never runs and the engine's connection WaitGroup is never released (Stop blocks)"
		}
	}
	if n == 0 {
		bad = "no close notification in deleteConn"
	}
	c.Cond(bad == "", ob, key, c.FnPos(fn), "every other path passes onClose", bad)
}
