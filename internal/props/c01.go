package props

import (
	"fmt"
	"go/token"
	"go/types"
	"strings"

	"golang.org/x/tools/go/ssa"

	"verif/internal/ir"
)

func init() {
	register(&Property{
		ID:          "C01",
		Engines:     []string{"cfg", "lockset"},
		Explanation: "Outbound stream integrity, structural part: every kernel write and enqueue on a connection runs under the connection mutex with no release between the closed test and the write (O1); in write() every success path after a direct kernel write queues b[n:] unless nothing is left, and the queued path never overtakes the queue (O2); predicates over the connection type treat Unix like TCP (O3); the vectored remainder loop is total and its enqueue sites feasible (O4); success returns carry the input length (O5); the queue copies the caller's slice (O6); flush consumes head-first by the syscall count and pops only on completion after release (O7); EINTR/EAGAIN are never handed to teardown (O8); a failed Dup never reaches a success return (O9). Re-allocating the queue tail's buffer copies the whole old buffer to the front of the new one (O10). A kernel write in a loop is repeated only behind a test of its count or on data advanced by it (O11); no measurement of the tail buffer is used after the buffer was changed (O10). The write path stores nothing on the poller (O12).",
		NotCovered:  "what the kernel does with the bytes; byte-for-byte equality at the peer; sendfile offset arithmetic beyond the pattern of O7; peer pacing; UDP",
		Run:         runC01,
	})
}

const fnWrite = "(*nbio.Conn).write"
const fnWritev = "(*nbio.Conn).writev"
const fnFlush = "(*nbio.Conn).flush"
const fnSendfile = "(*nbio.Conn).Sendfile"
const fnWriteAPI = "(*nbio.Conn).Write"
const fnWritevAPI = "(*nbio.Conn).Writev"

// retErr classifies the error result of a return: "nil", "nonnil" or "maybe".
func (c *Ctx) retErr(fi *ir.FnInfo, r *ssa.Return) (ssa.Value, string) {
	rv := ir.RetVals(r)
	if len(rv) == 0 {
		return nil, "nil"
	}
	e := rv[len(rv)-1]
	if !types.Identical(e.Type(), types.Universe.Lookup("error").Type()) {
		return nil, "nil"
	}
	if ir.IsNilConst(e) {
		return e, "nil"
	}
	if c.isNonNilErrorValue(e) {
		return e, "nonnil"
	}
	re := ir.Resolve(e)
	if fi.HasFact(r, func(f ir.Fact) bool {
		x, isNil, ok := ir.NilTest(f.Cond, f.Truth)
		return ok && !isNil && ir.Resolve(x) == re
	}) {
		return e, "nonnil"
	}
	return e, "maybe"
}

func runC01(c *Ctx) {
	c.Rule("C01.O1", "E1", "kernel writes and enqueues on a Conn run with Conn.mux held; no release between the closed test and the write/queue mutation in Write/Writev/Sendfile/flush", 12)
	c.Rule("C01.O2", "E4", "write(): after the direct kernel write every success path queues b[n:] (n the clamped syscall count) unless nothing is left; the queued path enqueues all of b and performs no kernel write; Sendfile attempts the kernel only on the empty-queue edge", 3)
	c.Rule("C01.O3", "E7a", "every predicate over Conn.typ on the I/O path that selects ConnTypeTCP also selects ConnTypeUnix", 6)
	c.Rule("C01.O4", "E4,E6", "writev(): the loop redistributing the syscall count leaves only through its index bound, and every enqueue site in it is feasible under its dominating comparisons", 1)
	c.Rule("C01.O5", "E4", "write/writev/Sendfile: a return whose error may be nil carries the input length", 6)
	c.Rule("C01.O6", "E2-escape", "the enqueue function only measures and copies its slice parameter (len, copy source, Append source); it never stores it", 1)
	c.Rule("C01.O7", "E4", "flush: data is taken from element 0 at entry.offset; offset advances by the syscall count under n>0; the entry is popped (index 0) only on the completion edge after releaseToWrite", 2)
	c.Rule("C01.O8", "E7b,E4", "EINTR and EAGAIN are never handed to teardown or returned as fatal; the EINTR edge re-enters the loop without touching the queue, the EAGAIN edge leaves it untouched", 6)
	c.Rule("C01.O10", "E4", "coalescing into the queue's tail keeps the entry's (buffer, offset) meaning: when the tail's buffer is re-allocated the whole old buffer is copied to the front of the new one (the entry's offset still counts from the buffer's start); no length measured on the buffer is used after the buffer was changed", 2)
	c01TailGrowth(c)
	c.Rule("C01.O11", "E4", "a kernel write that can be repeated within one call (it sits in a loop) is repeated only behind a test of the previous count, or on data advanced by that count: a short count is never followed by a write of later bytes", 2)
	c01RepeatedWrite(c)
	c.Rule("C01.O12", "E5", "the write path keeps no state on the poller: functions reachable from Write/Writev/Sendfile run in user goroutines under the connection's mutex only, so a store to a field of nbio.poller (a scratch vector, a shared buffer) there is shared by every connection of that poller without any lock", 1)
	c01NoPollerState(c)
	c.Rule("C01.O13", "E5", "a queued file range is told from a queued buffer by its missing buffer, never by comparing the duplicated descriptor with 0: Dup returns 0 when descriptor 0 is free (a daemon with stdin closed), and such an entry would be written as a buffer it does not have and never closed", 1)
	c01FileEntryTest(c)
	c.Rule("C01.O9", "E3", "a failed syscall.Dup before queuing a file range never reaches a success return", 2)

	core := c.Core()
	for _, pr := range core.problems {
		c.Unres("C01.O1", "core anchors", pr)
	}
	if core.Teardown == nil || core.EnqueueBuf == nil || core.EnqueueFile == nil || len(core.KernelWrites) < 5 {
		c.Unres("C01.O1", "core anchors", fmt.Sprintf("teardown=%v enqueueBuf=%v enqueueFile=%v kernelWrites=%d", core.Teardown != nil, core.EnqueueBuf != nil, core.EnqueueFile != nil, len(core.KernelWrites)))
		return
	}
	kernel, enqueue := c.writeSinks()
	L := c.Locks()

	// ------------------------------------------------------------------ O1
	for i, kw := range core.KernelWrites {
		_ = i
		f := kw.In.Parent()
		key := fnKey(c.P, f, "kernel "+c.P.CalleeName(kw.Common))
		c.Cond(L.HeldClass(kw.In, fConnMux), "C01.O1", key, c.Pos(kw.In), "Conn.mux held (entry lockset "+L.Entry[f].String()+")",
			"kernel write without the connection mutex: held="+L.Held(kw.In).String())
	}
	for _, f := range c.nbioFuncs() {
		n := 0
		for _, cs := range c.P.Calls(f, nil) {
			callee := ir.StaticCallee(cs.Common)
			if callee == nil {
				continue
			}
			if callee == core.EnqueueBuf || callee == core.EnqueueFile {
				n++
				key := fmt.Sprintf("%s: enqueue %s#%d", c.P.FuncName(f), callee.Name(), n)
				c.Cond(L.HeldClass(cs.In, fConnMux), "C01.O1", key, c.Pos(cs.In), "Conn.mux held", "enqueue without the connection mutex: held="+L.Held(cs.In).String())
			}
		}
	}
	for _, name := range []string{fnWriteAPI, fnWritevAPI, fnSendfile, fnFlush} {
		fn := c.Fn("C01.O1", name)
		if fn == nil {
			continue
		}
		fi := c.P.Info(fn)
		key := fnKey(c.P, fn, "closed-test..write in one critical section")
		var closedLoads []ssa.Instruction
		for _, a := range c.P.FieldAccesses(fn, func(k string) bool { return k == fConnClosed }) {
			if !a.Write && !a.AddrTaken && L.HeldClass(a.In, fConnMux) {
				closedLoads = append(closedLoads, a.In)
			}
		}
		if len(closedLoads) == 0 {
			c.Bad("C01.O1", key, c.FnPos(fn), "no read of the closed flag under the mutex")
			continue
		}
		first := closedLoads[0]
		bad := ""
		n := 0
		for _, cs := range c.P.Calls(fn, nil) {
			callee := ir.StaticCallee(cs.Common)
			if callee == nil || !(kernel[callee] || enqueue[callee] || kernel[ir.Outermost(callee)]) || callee == core.Teardown {
				continue
			}
			n++
			if !fi.Dominates(first, cs.In) {
				bad = "write path at " + c.Pos(cs.In) + " is not preceded by the closed test"
				continue
			}
			if ok, rel := L.SameRegion(fi, fConnMux, first, cs.In); !ok {
				bad = "the mutex is released at " + c.Pos(rel) + " between the closed test and the write at " + c.Pos(cs.In)
			}
		}
		// direct kernel writes in the function itself
		for _, kw := range core.KernelWrites {
			if kw.In.Parent() == fn {
				n++
				if ok, rel := L.SameRegion(fi, fConnMux, first, kw.In); !ok || !fi.Dominates(first, kw.In) {
					bad = "the mutex is released at " + c.Pos(rel) + " between the closed test and the kernel write"
				}
			}
		}
		if n == 0 {
			c.Unres("C01.O1", key, "no write site found")
			continue
		}
		c.Cond(bad == "", "C01.O1", key, c.Pos(first), fmt.Sprintf("%d write/enqueue sites in the critical section of the closed test", n), bad)
	}

	// ------------------------------------------------------------------ O2
	if fn := c.Fn("C01.O2", fnWrite); fn != nil {
		c01WriteTail(c, fn, kernel, enqueue)
	}
	if fn := c.Fn("C01.O2", fnSendfile); fn != nil {
		fi := c.P.Info(fn)
		key := fnKey(c.P, fn, "kernel sendfile only on empty queue")
		n := 0
		bad := ""
		for _, kw := range core.KernelWrites {
			if kw.In.Parent() != fn {
				continue
			}
			n++
			if !fi.HasFact(kw.In, func(f ir.Fact) bool { e, ok := c.queueTest(f); return ok && e }) {
				bad = "kernel write at " + c.Pos(kw.In) + " may overtake a non-empty queue"
			}
		}
		if n == 0 {
			c.Unres("C01.O2", key, "no kernel write in Sendfile")
		} else {
			c.Cond(bad == "", "C01.O2", key, c.FnPos(fn), "dominated by the queue-empty edge", bad)
		}
	}

	// ------------------------------------------------------------------ O3
	c01TypePredicates(c)

	// ------------------------------------------------------------------ O4
	if fn := c.Fn("C01.O4", fnWritev); fn != nil {
		c01WritevLoop(c, fn, kernel)
	}

	// ------------------------------------------------------------------ O5
	for _, name := range []string{fnWrite, fnWritev, fnSendfile} {
		if fn := c.Fn("C01.O5", name); fn != nil {
			c01ReturnContract(c, fn)
		}
	}

	// ------------------------------------------------------------------ O6
	{
		fn := core.EnqueueBuf
		key := fnKey(c.P, fn, "slice parameter is only measured and copied")
		pb := paramOfType(fn, "[]byte")
		if pb == nil {
			c.Unres("C01.O6", key, "no []byte parameter")
		} else {
			bad := c.sliceParamEscapes(fn, pb)
			c.Cond(bad == "", "C01.O6", key, c.FnPos(fn), "uses: len, copy source, Append source", bad)
		}
	}

	// ------------------------------------------------------------------ O7
	if fn := c.Fn("C01.O7", fnFlush); fn != nil {
		c01FlushConsume(c, fn)
	}

	// ------------------------------------------------------------------ O8
	c01Errno(c, kernel)

	// ------------------------------------------------------------------ O9
	if fn := c.Fn("C01.O9", fnSendfile); fn != nil {
		fi := c.P.Info(fn)
		n := 0
		for _, cs := range c.P.CallsNamed(fn, "syscall.Dup") {
			n++
			key := c.siteKey(fn, "syscall.Dup", n)
			bad := c.errReachesSuccess(fi, cs)
			c.Cond(bad == "", "C01.O9", key, c.Pos(cs.In), "failure edge reaches only error returns", bad)
		}
	}
}

// errReachesSuccess checks the error result (last tuple element) of call cs:
// it must be nil-tested and the non-nil edge must reach only failing returns.
func (c *Ctx) errReachesSuccess(fi *ir.FnInfo, cs ir.CallSite) string {
	call, ok := cs.In.(*ssa.Call)
	if !ok {
		return "not a plain call"
	}
	var errv ssa.Value
	if refs := call.Referrers(); refs != nil {
		for _, r := range *refs {
			if e, ok := r.(*ssa.Extract); ok && types.Identical(e.Type(), types.Universe.Lookup("error").Type()) {
				errv = e
			}
		}
	}
	if tup, ok := call.Type().(*types.Tuple); !ok || tup.Len() == 0 {
		if types.Identical(call.Type(), types.Universe.Lookup("error").Type()) {
			errv = call
		}
	}
	if errv == nil {
		return "the error result is discarded"
	}
	tested := false
	for _, i := range fi.Ifs() {
		for k := 0; k < 2; k++ {
			x, isNil, ok := ir.NilTest(i.Cond, k == 0)
			if !ok || ir.Resolve(x) != errv || isNil {
				continue
			}
			tested = true
			vis, _ := fi.ReachFromEdge(i, k, nil)
			for in := range vis {
				if r, ok := in.(*ssa.Return); ok {
					if _, kind := c.retErr(fi, r); kind != "nonnil" {
						return "the failure edge at " + c.Pos(i) + " reaches the success return at " + c.Pos(r)
					}
				}
			}
		}
	}
	if !tested {
		return "the error result is never tested"
	}
	return ""
}

// c01WriteTail: obligations O2 for write().
func c01WriteTail(c *Ctx, fn *ssa.Function, kernel, enqueue map[*ssa.Function]bool) {
	fi := c.P.Info(fn)
	core := c.Core()
	pb := paramOfType(fn, "[]byte")
	key := fnKey(c.P, fn, "tail of a short write is queued")
	var kcalls, ecalls []ir.CallSite
	for _, cs := range c.P.Calls(fn, nil) {
		callee := ir.StaticCallee(cs.Common)
		if callee == nil {
			continue
		}
		if callee == core.EnqueueBuf {
			ecalls = append(ecalls, cs)
		} else if kernel[callee] {
			kcalls = append(kcalls, cs)
		}
	}
	if pb == nil || len(kcalls) != 1 {
		c.Bad("C01.O2", key, c.FnPos(fn), fmt.Sprintf("expected one direct kernel write of the input, found %d", len(kcalls)))
		return
	}
	K := kcalls[0]
	// the kernel write sends b itself and only happens on the empty-queue edge
	if ir.Resolve(K.Common.Args[len(K.Common.Args)-1]) != ssa.Value(pb) {
		c.Bad("C01.O2", key, c.Pos(K.In), "the direct write does not send the input slice")
		return
	}
	// n: result #0
	var n ssa.Value
	if refs := K.Value().Referrers(); refs != nil {
		for _, r := range *refs {
			if e, ok := r.(*ssa.Extract); ok && e.Index == 0 {
				n = e
			}
		}
	}
	if n == nil {
		c.Bad("C01.O2", key, c.Pos(K.In), "the byte count of the direct write is discarded")
		return
	}
	isCount := func(v ssa.Value) bool {
		v = ir.Resolve(v)
		if v == n {
			return true
		}
		// clamped: phi(n, 0) guarded by n < 0
		if phi, ok := v.(*ssa.Phi); ok {
			sawN, other := false, false
			for _, e := range phi.Edges {
				if ir.Resolve(e) == n {
					sawN = true
				} else if k, ok := ir.ConstInt(e); ok && k == 0 {
				} else {
					other = true
				}
			}
			return sawN && !other
		}
		return false
	}
	var tail *ir.CallSite
	var whole []ir.CallSite
	for i := range ecalls {
		a := ir.Resolve(ecalls[i].Common.Args[len(ecalls[i].Common.Args)-1])
		if sl, ok := a.(*ssa.Slice); ok && ir.Resolve(sl.X) == ssa.Value(pb) && sl.High == nil && sl.Max == nil && sl.Low != nil && isCount(sl.Low) {
			tail = &ecalls[i]
		} else if a == ssa.Value(pb) {
			whole = append(whole, ecalls[i])
		} else {
			c.Bad("C01.O2", key, c.Pos(ecalls[i].In), "enqueue of "+c.P.Desc(a)+" is neither the input nor its unsent tail b[n:]")
			return
		}
	}
	if tail == nil {
		c.Bad("C01.O2", key, c.Pos(K.In), "no enqueue of the unsent tail b[n:] after the direct write")
		return
	}
	// exempt edges: "nothing left" and the non-stream edge of a Conn.typ predicate
	exempt := func(i *ssa.If, k int) bool {
		// nothing left: condition (len(b) - n > 0) false / (n < len(b)) false / left <= 0 ...
		if cmp, ok := ir.DecodeIntCmp(stripNot(i.Cond)); ok {
			if b, ok := ir.Resolve(cmp.Expr).(*ssa.BinOp); ok && b.Op == token.SUB {
				if x, isLen := ir.IsLenOf(ir.Resolve(b.X)); isLen && ir.Resolve(x) == ssa.Value(pb) && isCount(b.Y) {
					// edge k taken means condition == (k==0) modulo negation
					_, truth := ir.StripNot(i.Cond, k == 0)
					leftPositive := cmp.Holds(1) && !cmp.Holds(0) // cond true <=> left >= 1
					leftZero := !cmp.Holds(1) && cmp.Holds(0)     // cond true <=> left <= 0
					if leftPositive && !truth || leftZero && truth {
						return true
					}
				}
			}
		}
		// type predicate: the non-equality edge (see O3 for the agreement of the set)
		cnd, truth := ir.StripNot(i.Cond, k == 0)
		if b, ok := cnd.(*ssa.BinOp); ok && (b.Op == token.EQL || b.Op == token.NEQ) {
			if c.P.LoadedField(b.X) == fConnTyp || c.P.LoadedField(b.Y) == fConnTyp {
				eq := (b.Op == token.EQL) == truth
				return !eq
			}
		}
		return false
	}
	vis, _ := fi.ReachOpt([]ssa.Instruction{K.In}, func(in ssa.Instruction) bool { return in == tail.In }, exempt)
	bad := ""
	for in := range vis {
		if r, ok := in.(*ssa.Return); ok {
			if _, kind := c.retErr(fi, r); kind != "nonnil" {
				bad = "the success return at " + c.Pos(r) + " is reachable after a short write without queuing the tail"
			}
		}
	}
	c.Cond(bad == "", "C01.O2", key, c.Pos(tail.In), "every success path from the direct write passes enqueue(b[n:]) or the nothing-left edge", bad)

	// queued path
	key2 := fnKey(c.P, fn, "queued path keeps order")
	bad = ""
	if !fi.HasFact(K.In, func(f ir.Fact) bool { e, ok := c.queueTest(f); return ok && e }) {
		bad = "the direct kernel write is not restricted to the empty-queue edge"
	}
	okWhole := false
	for _, w := range whole {
		if fi.HasFact(w.In, func(f ir.Fact) bool { e, ok := c.queueTest(f); return ok && !e }) {
			okWhole = true
			// no kernel write reachable afterwards
			v2, _ := fi.Reach([]ssa.Instruction{w.In}, nil)
			if v2[K.In] {
				bad = "a kernel write can follow the enqueue of the whole input"
			}
		}
	}
	if !okWhole && bad == "" {
		bad = "on the non-empty-queue edge the whole input is not enqueued"
	}
	c.Cond(bad == "", "C01.O2", key2, c.Pos(K.In), "kernel write only when the queue is empty; otherwise enqueue(b)", bad)
}

func stripNot(v ssa.Value) ssa.Value {
	x, _ := ir.StripNot(v, true)
	return x
}

// c01TypePredicates: O3.
func c01TypePredicates(c *Ctx) {
	// resolve constants
	var tcp, unix int64 = -1, -1
	for _, sp := range c.P.SSA.AllPackages() {
		if c.P.Short(sp.Pkg.Path()+".") == "nbio." {
			if m, ok := sp.Members["ConnTypeTCP"].(*ssa.NamedConst); ok {
				tcp, _ = ir.ConstInt(m.Value)
			}
			if m, ok := sp.Members["ConnTypeUnix"].(*ssa.NamedConst); ok {
				unix, _ = ir.ConstInt(m.Value)
			}
		}
	}
	if tcp < 0 || unix < 0 {
		c.Unres("C01.O3", "ConnTypeTCP/ConnTypeUnix", "constants not found")
		return
	}
	// scope: functions that (transitively) do kernel I/O, enqueue or teardown
	core := c.Core()
	seed := map[*ssa.Function]bool{}
	for _, kw := range append(append([]ir.CallSite{}, core.KernelWrites...), core.KernelReads...) {
		seed[ir.Outermost(kw.In.Parent())] = true
	}
	for _, f := range core.EnqueueFns {
		seed[f] = true
	}
	seed[core.Teardown] = true
	scope := c.reachers(seed, c.nbioFuncs())
	for _, f := range c.nbioFuncs() {
		if !scope[ir.Outermost(f)] {
			continue
		}
		// group equality tests on Conn.typ by the block entered on equality
		groups := map[*ssa.BasicBlock][]int64{}
		pos := map[*ssa.BasicBlock]ssa.Instruction{}
		for _, i := range c.P.Info(f).Ifs() {
			cnd, truth := ir.StripNot(i.Cond, true)
			b, ok := cnd.(*ssa.BinOp)
			if !ok || (b.Op != token.EQL && b.Op != token.NEQ) {
				continue
			}
			var k int64
			var isK bool
			switch {
			case c.P.LoadedField(b.X) == fConnTyp:
				k, isK = ir.ConstInt(b.Y)
			case c.P.LoadedField(b.Y) == fConnTyp:
				k, isK = ir.ConstInt(b.X)
			default:
				continue
			}
			if !isK {
				continue
			}
			eqOnTrue := (b.Op == token.EQL) == truth
			tgt := i.Block().Succs[0]
			if !eqOnTrue {
				tgt = i.Block().Succs[1]
			}
			groups[tgt] = append(groups[tgt], k)
			if pos[tgt] == nil {
				pos[tgt] = i
			}
		}
		n := 0
		for tgt, ks := range groups {
			hasTCP, hasUnix := false, false
			for _, k := range ks {
				if k == tcp {
					hasTCP = true
				}
				if k == unix {
					hasUnix = true
				}
			}
			if !hasTCP && !hasUnix {
				continue
			}
			n++
			key := fmt.Sprintf("%s: stream-type predicate#%d", c.P.FuncName(f), n)
			_ = tgt
			c.Cond(hasTCP == hasUnix, "C01.O3", key, c.Pos(pos[tgt]), "selects both ConnTypeTCP and ConnTypeUnix",
				"the predicate selects only one of ConnTypeTCP/ConnTypeUnix: Unix stream sockets take the non-stream path")
		}
	}
}

// c01WritevLoop: O4.
func c01WritevLoop(c *Ctx, fn *ssa.Function, kernel map[*ssa.Function]bool) {
	fi := c.P.Info(fn)
	core := c.Core()
	key := fnKey(c.P, fn, "remainder loop")
	// the direct vectored write
	var K ssa.Instruction
	for _, cs := range c.P.Calls(fn, nil) {
		if callee := ir.StaticCallee(cs.Common); callee != nil && kernel[callee] && callee != core.EnqueueBuf {
			K = cs.In
		}
	}
	if K == nil {
		c.Unres("C01.O4", key, "no direct vectored write found")
		return
	}
	// enqueue sites after the write, inside a loop
	var sites []ir.CallSite
	after, _ := fi.Reach([]ssa.Instruction{K}, nil)
	for _, cs := range c.P.Calls(fn, nil) {
		if callsFn(cs.In, core.EnqueueBuf) && after[cs.In] {
			sites = append(sites, cs)
		}
	}
	if len(sites) == 0 {
		c.Bad("C01.O4", key, c.Pos(K), "no enqueue of the remainder after the vectored write")
		return
	}
	loop := fi.LoopBlocks(sites[0].In.Block())
	if loop == nil {
		c.Bad("C01.O4", key, c.Pos(sites[0].In), "the remainder is not redistributed in a loop over the input buffers")
		return
	}
	pv := paramOfType(fn, "[][]byte")
	bad := ""
	// exits of the loop
	exits := 0
	for b := range loop {
		for k, s := range b.Succs {
			if loop[s] {
				continue
			}
			exits++
			i, ok := b.Instrs[len(b.Instrs)-1].(*ssa.If)
			if !ok {
				bad = "the loop is left unconditionally at " + c.Pos(b.Instrs[len(b.Instrs)-1])
				continue
			}
			_ = k
			if !isIndexBound(i.Cond, pv) {
				bad = "the loop can be left at " + c.Pos(i) + " on a condition other than the index bound (" + c.P.Desc(i.Cond) + "): buffers after the partially written one are skipped"
			}
		}
	}
	if exits == 0 {
		bad = "loop without exit"
	}
	// feasibility of every enqueue site
	for _, s := range sites {
		if ok, what := fi.Feasible(s.In); !ok {
			bad = "the enqueue at " + c.Pos(s.In) + " is dead code: its dominating comparisons on " + what + " contradict each other"
		}
		// argument form: element of the input or its tail
		a := ir.Resolve(s.Common.Args[len(s.Common.Args)-1])
		if sl, ok := a.(*ssa.Slice); ok {
			if !derivedFromElem(sl.X, pv) || sl.High != nil || sl.Low == nil {
				bad = "enqueue at " + c.Pos(s.In) + " does not queue an input buffer or its tail"
			} else {
				// the tail b[n:] is taken from the very buffer that n was compared with: n < len(b)
				x, lo := ir.Resolve(sl.X), ir.Resolve(sl.Low)
				if !fi.HasFact(s.In, func(f ir.Fact) bool {
					b, ok := f.Cond.(*ssa.BinOp)
					if !ok {
						return false
					}
					lhs, rhs, op := b.X, b.Y, b.Op
					if op == token.GTR || op == token.GEQ {
						lhs, rhs = rhs, lhs
						if op == token.GTR {
							op = token.LSS
						} else {
							op = token.LEQ
						}
					}
					y, isLen := ir.IsLenOf(ir.Resolve(rhs))
					if !isLen || ir.Resolve(y) != x || ir.Resolve(lhs) != lo {
						return false
					}
					return op == token.LSS && f.Truth
				}) {
					bad = "the tail queued at " + c.Pos(s.In) + " is not b[n:] of the buffer whose length n was compared with (n < len(b))"
				}
			}
		} else if !derivedFromElem(a, pv) {
			bad = "enqueue at " + c.Pos(s.In) + " does not queue an input buffer or its tail"
		}
	}
	c.Cond(bad == "", "C01.O4", key, c.Pos(sites[0].In), fmt.Sprintf("loop leaves only through its index bound; %d enqueue sites feasible", len(sites)), bad)
}

// isIndexBound recognises `i < len(param)` (any normal form) on a loop index.
func isIndexBound(cond ssa.Value, param *ssa.Parameter) bool {
	cond = stripNot(cond)
	b, ok := cond.(*ssa.BinOp)
	if !ok {
		return false
	}
	for _, pair := range [][2]ssa.Value{{b.X, b.Y}, {b.Y, b.X}} {
		if x, isLen := ir.IsLenOf(ir.Resolve(pair[1])); isLen && param != nil && ir.Resolve(x) == ssa.Value(param) {
			if _, isPhi := ir.Resolve(pair[0]).(*ssa.Phi); isPhi {
				return true
			}
			if bo, ok := ir.Resolve(pair[0]).(*ssa.BinOp); ok && bo.Op == token.ADD {
				return true // rangeindex form: (i+1) < len
			}
		}
	}
	return false
}

// c01ReturnContract: O5.
func c01ReturnContract(c *Ctx, fn *ssa.Function) {
	fi := c.P.Info(fn)
	core := c.Core()
	pb := paramOfType(fn, "[]byte")
	pv := paramOfType(fn, "[][]byte")
	var pInt64 *ssa.Parameter
	for _, p := range fn.Params {
		if p.Type().String() == "int64" {
			pInt64 = p
		}
	}
	// kernel counts of direct writes in fn
	counts := map[ssa.Value]bool{}
	for _, cs := range c.P.Calls(fn, nil) {
		if cs.Kind != "call" {
			continue
		}
		callee := ir.StaticCallee(cs.Common)
		isK := false
		for _, kw := range core.KernelWrites {
			if kw.In == cs.In {
				isK = true
			}
		}
		if callee != nil {
			k, _ := c.writeSinks()
			if k[callee] && callee != core.EnqueueBuf && callee != core.EnqueueFile {
				isK = true
			}
		}
		if !isK {
			continue
		}
		if refs := cs.Value().Referrers(); refs != nil {
			for _, r := range *refs {
				if e, ok := r.(*ssa.Extract); ok && e.Index == 0 {
					counts[e] = true
				}
			}
		}
	}
	hasFact := func(facts []ir.Fact, pred func(ir.Fact) bool) bool {
		for _, f := range facts {
			if pred(f) {
				return true
			}
		}
		return false
	}
	var isInputLen func(v ssa.Value, at []ir.Fact, depth int) (bool, string)
	isInputLen = func(v ssa.Value, at []ir.Fact, depth int) (bool, string) {
		rv := ir.Resolve(v)
		if depth > 4 {
			return false, "value too indirect"
		}
		// direct forms
		if pb != nil {
			if x, isLen := ir.IsLenOf(rv); isLen && ir.Resolve(x) == ssa.Value(pb) {
				return true, ""
			}
		}
		if pv != nil && isSumOfLens(rv, pv) {
			return true, ""
		}
		if pInt64 != nil {
			if rv == ssa.Value(pInt64) {
				return true, ""
			}
			if phi, ok := rv.(*ssa.Phi); ok {
				// the normalised request: phi(param, size-offset)
				for _, e := range phi.Edges {
					if ir.Resolve(e) == ssa.Value(pInt64) {
						return true, ""
					}
				}
			}
		}
		// kernel count with "everything was taken": fact !(n < size)
		if counts[rv] {
			if hasFact(at, func(f ir.Fact) bool {
				b, ok := f.Cond.(*ssa.BinOp)
				if !ok {
					return false
				}
				var other ssa.Value
				var nLess bool // condition (true) means n < other
				switch {
				case ir.Resolve(b.X) == rv && (b.Op == token.LSS):
					other, nLess = b.Y, true
				case ir.Resolve(b.Y) == rv && (b.Op == token.GTR):
					other, nLess = b.X, true
				case ir.Resolve(b.X) == rv && (b.Op == token.GEQ):
					other, nLess = b.Y, false
				case ir.Resolve(b.Y) == rv && (b.Op == token.LEQ):
					other, nLess = b.X, false
				default:
					return false
				}
				if ok2, _ := isInputLen(other, at, depth+1); !ok2 {
					return false
				}
				return nLess != f.Truth // n >= size holds
			}) {
				return true, ""
			}
			return false, "returns the syscall count " + c.P.Desc(rv) + " where the count may be short of the input"
		}
		if k, ok := ir.ConstInt(rv); ok && k == 0 {
			// empty input (entry guard) or kernel contract n<=0 && err==nil => empty input
			if hasFact(at, func(f ir.Fact) bool {
				e, zero, ok := ir.ZeroTest(f.Cond, f.Truth)
				if ok && zero {
					if x, isLen := ir.IsLenOf(ir.Resolve(e)); isLen && pb != nil && ir.Resolve(x) == ssa.Value(pb) {
						return true
					}
				}
				if x, isNil, ok := ir.NilTest(f.Cond, f.Truth); ok && isNil {
					if p, isP := ir.Resolve(x).(*ssa.Parameter); isP && p != fn.Params[0] {
						return true // nil input guard (f == nil)
					}
				}
				if cmp, ok := ir.DecodeIntCmp(f.Cond); ok && counts[ir.Resolve(cmp.Expr)] {
					// fact implies n <= 0
					if f.Truth {
						return !cmp.Holds(1) && !cmp.Holds(1<<30)
					}
					return cmp.Holds(1) && cmp.Holds(1<<30) && (cmp.NotEq == false)
				}
				return false
			}) {
				return true, ""
			}
			return false, "returns 0 with a possibly-nil error on a path where the input need not be empty"
		}
		if phi, ok := rv.(*ssa.Phi); ok {
			for i, e := range phi.Edges {
				pred := phi.Block().Preds[i]
				if ok2, why := isInputLen(e, fi.FactsOnEdge(pred, phi.Block()), depth+1); !ok2 {
					return false, why
				}
			}
			return true, ""
		}
		return false, "returns " + c.P.Desc(rv) + ", which is not the input length"
	}
	n := 0
	for _, r := range fi.Returns() {
		if r.Block().Comment == "recover" {
			continue
		}
		_, kind := c.retErr(fi, r)
		if kind == "nonnil" {
			continue
		}
		n++
		key := fmt.Sprintf("%s: success-return#%d", c.P.FuncName(fn), n)
		rv := ir.RetVals(r)
		ok, why := isInputLen(rv[0], fi.Facts(r), 0)
		if kind == "maybe" && !ok {
			why += " (error operand is not known to be non-nil)"
		}
		c.Cond(ok, "C01.O5", key, c.Pos(r), "returns the input length", why)
	}
}

// sliceParamEscapes: O6.
func (c *Ctx) sliceParamEscapes(fn *ssa.Function, pb *ssa.Parameter) string {
	bad := ""
	var visit func(v ssa.Value, depth int)
	seen := map[ssa.Value]bool{}
	visit = func(v ssa.Value, depth int) {
		if seen[v] || depth > 6 {
			return
		}
		seen[v] = true
		refs := v.Referrers()
		if refs == nil {
			return
		}
		for _, r := range *refs {
			switch u := r.(type) {
			case *ssa.DebugRef:
			case *ssa.Store:
				if u.Val == v {
					// spill of the parameter into its own local cell (captured by a closure)
					if a, ok := u.Addr.(*ssa.Alloc); ok && a.Comment == pb.Name() {
						visit(a, depth+1)
						continue
					}
					bad = "the caller's slice is stored at " + c.Pos(u) + ": the queue would alias the caller's buffer"
				}
			case *ssa.UnOp:
				if u.Op == token.MUL {
					visit(u, depth+1)
				}
			case *ssa.MakeClosure:
				f := u.Fn.(*ssa.Function)
				for i, b := range u.Bindings {
					if b == v {
						visit(f.FreeVars[i], depth+1)
					}
				}
			case *ssa.Call:
				name := c.P.CalleeName(&u.Call)
				okUse := false
				switch {
				case name == "builtin:len":
					okUse = true
				case name == "builtin:copy":
					okUse = len(u.Call.Args) == 2 && u.Call.Args[1] == v && u.Call.Args[0] != v
				case strings.HasSuffix(name, ".Append") && strings.HasPrefix(name, "invoke:mempool.Allocator"):
					okUse = len(u.Call.Args) >= 2 && u.Call.Args[0] != v
				}
				if !okUse {
					bad = "the caller's slice flows into " + name + " at " + c.Pos(u)
				}
			case *ssa.Slice:
				bad = "the caller's slice is re-sliced at " + c.Pos(u) + " (a view could be kept)"
			default:
				bad = fmt.Sprintf("the caller's slice is used by %T at %s", r, c.Pos(r))
			}
		}
	}
	visit(pb, 0)
	return bad
}

// c01FlushConsume: O7.
func c01FlushConsume(c *Ctx, fn *ssa.Function) {
	core := c.Core()
	for _, kw := range core.KernelWrites {
		g := kw.In.Parent()
		if ir.Outermost(g) != fn {
			continue
		}
		fi := c.P.Info(g)
		kind := c.P.CalleeName(kw.Common)
		key := fnKey(c.P, fn, "consume "+kind)
		bad := ""
		// element 0 of the queue
		isHead := func(v ssa.Value) bool {
			v = ir.Resolve(v)
			a, ok := ir.IsLoad(v)
			if !ok {
				return false
			}
			ia, ok := a.(*ssa.IndexAddr)
			if !ok {
				return false
			}
			k, isK := ir.ConstInt(ia.Index)
			return isK && k == 0 && c.P.LoadedField(ia.X) == fConnWriteList
		}
		headField := func(v ssa.Value, field string) bool {
			v = ir.Resolve(v)
			a, ok := ir.IsLoad(v)
			if !ok {
				return false
			}
			fa, ok := a.(*ssa.FieldAddr)
			return ok && c.P.FieldKey(fa) == field && isHead(fa.X)
		}
		var n ssa.Value
		if refs := kw.Value().Referrers(); refs != nil {
			for _, r := range *refs {
				if e, ok := r.(*ssa.Extract); ok && e.Index == 0 {
					n = e
				}
			}
		}
		if n == nil {
			c.Bad("C01.O7", key, c.Pos(kw.In), "the syscall count is discarded")
			continue
		}
		var completion func(f ir.Fact) bool
		switch kind {
		case "syscall.Write":
			sl, ok := ir.Resolve(kw.Common.Args[1]).(*ssa.Slice)
			if !ok || sl.Low == nil || sl.High != nil || !headField(sl.Low, "nbio.toWrite.offset") {
				bad = "the data written is not head.buf[head.offset:]"
				break
			}
			if ld, ok := ir.IsLoad(ir.Resolve(sl.X)); !ok || !headField(ld, "nbio.toWrite.buf") {
				bad = "the data written is not taken from the head entry's buffer"
				break
			}
			buf := ir.Resolve(kw.Common.Args[1])
			completion = func(f ir.Fact) bool {
				b, ok := f.Cond.(*ssa.BinOp)
				if !ok || !f.Truth || b.Op != token.EQL {
					return false
				}
				for _, p := range [][2]ssa.Value{{b.X, b.Y}, {b.Y, b.X}} {
					if x, isLen := ir.IsLenOf(ir.Resolve(p[0])); isLen && ir.Resolve(x) == buf && ir.Resolve(p[1]) == n {
						return true
					}
				}
				return false
			}
		case "syscall.Sendfile":
			// source fd, offset cell initialised from head.offset, count from head.remain
			if !headField(kw.Common.Args[1], "nbio.toWrite.fd") {
				bad = "the source descriptor is not the head entry's"
				break
			}
			offOK := false
			if a, ok := ir.Root(kw.Common.Args[2]).(*ssa.Alloc); ok {
				if refs := a.Referrers(); refs != nil {
					for _, r := range *refs {
						if st, ok := r.(*ssa.Store); ok && st.Addr == ssa.Value(a) && headField(st.Val, "nbio.toWrite.offset") {
							offOK = true
						}
					}
				}
			}
			if !offOK {
				bad = "the file offset is not the head entry's offset"
				break
			}
			if !headField(kw.Common.Args[3], "nbio.toWrite.remain") {
				bad = "the count is not the head entry's remaining length"
				break
			}
			// remain -= n
			remOK := false
			for _, st := range c.P.StoresTo(g, "nbio.toWrite.remain") {
				if ok, _ := isFieldPlus(c, st, "nbio.toWrite.remain", token.SUB, func(v ssa.Value) bool { return ir.Resolve(v) == n }); ok {
					remOK = true
				}
			}
			if !remOK {
				bad = "head.remain is not reduced by the syscall count"
				break
			}
			completion = func(f ir.Fact) bool {
				cmp, ok := ir.DecodeIntCmp(f.Cond)
				if !ok || !headField(cmp.Expr, "nbio.toWrite.remain") {
					return false
				}
				// fact implies remain <= 0
				if f.Truth {
					return cmp.Holds(0) && !cmp.Holds(1)
				}
				return !cmp.Holds(0) && cmp.Holds(1) && !cmp.NotEq
			}
		default:
			continue
		}
		if bad == "" {
			// offset += n under n>0
			adv := false
			for _, st := range c.P.StoresTo(g, "nbio.toWrite.offset") {
				ok, _ := isFieldPlus(c, st, "nbio.toWrite.offset", token.ADD, func(v ssa.Value) bool { return ir.Resolve(v) == n })
				if ok && fi.HasFact(st, func(f ir.Fact) bool {
					cmp, isCmp := ir.DecodeIntCmp(f.Cond)
					if !isCmp || ir.Resolve(cmp.Expr) != n {
						return false
					}
					if f.Truth {
						return !cmp.Holds(0) && cmp.Holds(1)
					}
					return cmp.Holds(0) && !cmp.Holds(1) && !cmp.NotEq
				}) {
					adv = true
				}
			}
			if !adv {
				bad = "head.offset is not advanced by the syscall count on the n>0 edge: the same bytes would be sent again"
			}
		}
		if bad == "" {
			// pops
			pops := 0
			for _, st := range c.P.StoresTo(g, fConnWriteList) {
				sl, ok := ir.Resolve(st.Val).(*ssa.Slice)
				if !ok {
					bad = "writeList is overwritten at " + c.Pos(st) + " by something other than a pop"
					continue
				}
				lo, isK := ir.ConstInt(sl.Low)
				if c.P.LoadedField(sl.X) != fConnWriteList || sl.Low == nil || !isK || lo != 1 || sl.High != nil {
					bad = "the pop at " + c.Pos(st) + " does not remove exactly element 0"
					continue
				}
				pops++
				if !fi.HasFact(st, completion) {
					bad = "the entry is popped at " + c.Pos(st) + " on an edge other than its completion"
				}
				rel := false
				for _, cs := range c.P.Calls(g, nil) {
					if callsFn(cs.In, core.Release) && fi.Dominates(cs.In, st) && isHead(cs.Common.Args[1]) && fi.HasFact(cs.In, completion) {
						rel = true
					}
				}
				if !rel {
					bad = "the entry popped at " + c.Pos(st) + " is not released first"
				}
			}
			if pops != 1 && bad == "" {
				bad = fmt.Sprintf("expected exactly one pop, found %d", pops)
			}
		}
		c.Cond(bad == "", "C01.O7", key, c.Pos(kw.In), "head-first, offset += n, pop[0] on completion after release", bad)
	}
}

// c01Errno: O8.
func c01Errno(c *Ctx, kernel map[*ssa.Function]bool) {
	core := c.Core()
	// (a) teardown call sites on the write paths
	for _, name := range []string{fnWriteAPI, fnWritevAPI, fnFlush, fnSendfile} {
		fn := c.Fn("C01.O8", name)
		if fn == nil {
			continue
		}
		fi := c.P.Info(fn)
		n := 0
		for _, cs := range c.P.Calls(fn, nil) {
			if !callsFn(cs.In, core.Teardown) {
				continue
			}
			n++
			key := c.siteKey(fn, "teardown", n)
			errArg := ir.Resolve(cs.Common.Args[len(cs.Common.Args)-1])
			if !c.isWriteError(errArg, kernel, 0) {
				// an error from another source (e.g. a failed dup): only non-nil-ness is required
				nn := fi.HasFact(cs.In, func(f ir.Fact) bool {
					x, isNil, ok := ir.NilTest(f.Cond, f.Truth)
					return ok && !isNil && ir.Resolve(x) == errArg
				})
				c.Cond(nn, "C01.O8", key, c.Pos(cs.In), "non-write error, dominated by err != nil", "teardown with an error that is not known to be non-nil")
				continue
			}
			bad := c.errnoFiltered(fi, cs.In, errArg)
			c.Cond(bad == "", "C01.O8", key, c.Pos(cs.In), "dominated by err!=nil, !EINTR, !EAGAIN on the same error", bad)
		}
		if n == 0 {
			c.Bad("C01.O8", fnKey(c.P, fn, "teardown"), c.FnPos(fn), "no teardown call on the fatal-error path")
		}
	}
	// (b) write(): a failing return of the syscall error is filtered the same way
	if fn := c.Fn("C01.O8", fnWrite); fn != nil {
		fi := c.P.Info(fn)
		n := 0
		for _, r := range fi.Returns() {
			e, kind := c.retErr(fi, r)
			if kind == "nil" || e == nil {
				continue
			}
			if _, isExtract := ir.Resolve(e).(*ssa.Extract); !isExtract {
				continue
			}
			n++
			key := fmt.Sprintf("%s: error-return#%d", c.P.FuncName(fn), n)
			bad := c.errnoFiltered(fi, r, ir.Resolve(e))
			c.Cond(bad == "", "C01.O8", key, c.Pos(r), "syscall error returned only when not EINTR/EAGAIN", bad)
		}
	}
	// (c) loops: the EINTR edge re-enters the loop untouched; the EAGAIN edge
	// leaves without touching the queue (flush) — Sendfile queues the rest (O9/C04).
	for _, name := range []string{fnFlush, fnSendfile} {
		fn := c.Fn("C01.O8", name)
		if fn == nil {
			continue
		}
		fi := c.P.Info(fn)
		key := fnKey(c.P, fn, "EINTR retries, EAGAIN stops")
		bad := ""
		seenINTR, seenAGAIN := false, false
		for _, i := range fi.Ifs() {
			for k := 0; k < 2; k++ {
				tested, target, is, ok := c.P.ErrorsIsTest(i.Cond, k == 0)
				if !ok || !is {
					continue
				}
				tested = ir.Resolve(tested)
				tearsDownTested := func(in ssa.Instruction) bool {
					if !callsFn(in, core.Teardown) {
						return false
					}
					cs, _ := ir.AsCall(in)
					return ir.Resolve(cs.Common.Args[len(cs.Common.Args)-1]) == tested
				}
				isWriteSite := func(in ssa.Instruction) bool {
					if cs, ok := ir.AsCall(in); ok {
						if callee := ir.StaticCallee(cs.Common); callee != nil && (kernel[callee] || kernel[ir.Outermost(callee)]) && callee != core.EnqueueBuf && callee != core.EnqueueFile && callee != core.Teardown {
							return true
						}
						for _, kw := range core.KernelWrites {
							if kw.In == in {
								return true
							}
						}
					}
					return false
				}
				switch target {
				case "EINTR":
					seenINTR = true
					vis, stopped := fi.ReachFromEdge(i, k, isWriteSite)
					if len(stopped) == 0 {
						// may legitimately end because the loop condition fails; require that
						// the kernel write is reachable at all
						bad = "the EINTR edge at " + c.Pos(i) + " does not lead back to the write"
					}
					for in := range vis {
						if st, ok := in.(*ssa.Store); ok {
							if fa, ok := st.Addr.(*ssa.FieldAddr); ok && (c.P.FieldKey(fa) == fConnWriteList || c.P.FieldKey(fa) == fConnClosed) {
								bad = "the EINTR edge touches " + c.P.FieldKey(fa) + " at " + c.Pos(st)
							}
						}
						if tearsDownTested(in) {
							bad = "the EINTR edge reaches teardown"
						}
					}
				case "EAGAIN":
					seenAGAIN = true
					vis, _ := fi.ReachFromEdge(i, k, nil)
					for in := range vis {
						if tearsDownTested(in) {
							bad = "the EAGAIN edge hands EAGAIN to teardown"
						}
						if name == fnFlush {
							if isWriteSite(in) {
								bad = "the EAGAIN edge at " + c.Pos(i) + " writes again instead of waiting for writability"
							}
							if st, ok := in.(*ssa.Store); ok {
								if fa, ok := st.Addr.(*ssa.FieldAddr); ok && c.P.FieldKey(fa) == fConnWriteList {
									bad = "the EAGAIN edge modifies the queue at " + c.Pos(st)
								}
							}
							for _, d := range core.DisarmFns {
								if callsFn(in, d) {
									bad = "the EAGAIN edge disarms write interest at " + c.Pos(in)
								}
							}
						}
					}
				}
			}
		}
		if !seenINTR || !seenAGAIN {
			bad = fmt.Sprintf("errno classification incomplete: EINTR tested=%v EAGAIN tested=%v", seenINTR, seenAGAIN)
		}
		c.Cond(bad == "", "C01.O8", key, c.FnPos(fn), "EINTR -> retry, EAGAIN -> stop", bad)
	}
}

// errnoFiltered checks that `at` is dominated by err != nil and by the false
// edges of errors.Is(err, EINTR) and errors.Is(err, EAGAIN) for this err.
func (c *Ctx) errnoFiltered(fi *ir.FnInfo, at ssa.Instruction, err ssa.Value) string {
	nonNil, notINTR, notAGAIN := false, false, false
	for _, f := range fi.Facts(at) {
		if x, isNil, ok := ir.NilTest(f.Cond, f.Truth); ok && !isNil && ir.Resolve(x) == err {
			nonNil = true
		}
		if e, target, is, ok := c.P.ErrorsIsTest(f.Cond, f.Truth); ok && !is && ir.Resolve(e) == err {
			switch target {
			case "EINTR":
				notINTR = true
			case "EAGAIN":
				notAGAIN = true
			}
		}
	}
	var miss []string
	if !nonNil {
		miss = append(miss, "err != nil")
	}
	if !notINTR {
		miss = append(miss, "!errors.Is(err, EINTR)")
	}
	if !notAGAIN {
		miss = append(miss, "!errors.Is(err, EAGAIN)")
	}
	if len(miss) > 0 {
		return "not dominated by " + strings.Join(miss, ", ") + ": a transient errno would be treated as fatal (or a nil error as failure)"
	}
	return ""
}

// isWriteError reports that v is the error result of a kernel write on the
// connection (directly, through a write helper or a local closure, or a phi
// of such values).
func (c *Ctx) isWriteError(v ssa.Value, kernel map[*ssa.Function]bool, depth int) bool {
	v = ir.Resolve(v)
	if depth > 4 {
		return false
	}
	core := c.Core()
	fromCall := func(call *ssa.Call) bool {
		for _, kw := range core.KernelWrites {
			if kw.In == ssa.Instruction(call) {
				return true
			}
		}
		if callee := ir.StaticCallee(&call.Call); callee != nil {
			return (kernel[callee] || kernel[ir.Outermost(callee)]) && callee != core.Teardown
		}
		return false
	}
	switch x := v.(type) {
	case *ssa.Extract:
		if call, ok := x.Tuple.(*ssa.Call); ok {
			return fromCall(call)
		}
	case *ssa.Call:
		return fromCall(x)
	case *ssa.Phi:
		for _, e := range x.Edges {
			if c.isWriteError(e, kernel, depth+1) {
				return true
			}
		}
	}
	return false
}

// c01TailGrowth: O10.
func c01TailGrowth(c *Ctx) {
	core := c.Core()
	fn := core.EnqueueBuf
	if fn == nil {
		c.Unres("C01.O10", "buffer-enqueue function", "not resolved")
		return
	}
	fi := c.P.Info(fn)
	key := fnKey(c.P, fn, "tail re-allocation keeps the offset's meaning")
	const fBuf = "nbio.toWrite.buf"
	isMallocRes := func(v ssa.Value) *ssa.Call {
		call, ok := ir.Resolve(v).(*ssa.Call)
		if !ok {
			return nil
		}
		n := c.P.CalleeName(&call.Call)
		if n == "invoke:mempool.Allocator.Malloc" || n == "mempool.Malloc" {
			return call
		}
		return nil
	}
	n := 0
	bad := ""
	for _, st := range c.P.StoresTo(fn, fBuf) {
		if st.Parent() != fn {
			continue
		}
		if _, fresh := ir.Root(st.Addr.(*ssa.FieldAddr).X).(*ssa.Alloc); fresh {
			continue
		}
		m := isMallocRes(st.Val)
		if m == nil {
			continue // the result of Append on the entry's own buffer
		}
		n++
		okCopy := false
		for _, cs := range c.P.CallsNamed(fn, "builtin:copy") {
			if cs.In.Parent() != fn || !fi.Dominates(cs.In, st) {
				continue
			}
			dst, src := ir.Resolve(cs.Common.Args[0]), ir.Resolve(cs.Common.Args[1])
			da, isLoad := ir.IsLoad(dst)
			if !isLoad || ir.Resolve(da) != ssa.Value(m) {
				continue
			}
			// src must be the entry's whole buffer: *(*entry).buf, not a re-slice of it
			if sa, isLoad := ir.IsLoad(src); isLoad && c.P.LoadedField(ir.Resolve(sa)) == fBuf {
				okCopy = true
			} else {
				bad = "the tail's buffer is re-allocated at " + c.Pos(st) + " but only " + c.P.Desc(src) + " of the old buffer is copied (" + c.Pos(cs.In) + ") while the entry keeps its offset: flush skips that many bytes that were never sent"
			}
		}
		if !okCopy && bad == "" {
			bad = "the tail's buffer is re-allocated at " + c.Pos(st) + " without copying the old contents"
		}
	}
	// a length or capacity measured on the entry's buffer is not used after the
	// buffer was changed through the entry (compacted, truncated, replaced)
	{
		key2 := fnKey(c.P, fn, "no stale measurement of the tail buffer")
		var mods []ssa.Instruction
		for _, b := range fn.Blocks {
			for _, in := range b.Instrs {
				if st, ok := in.(*ssa.Store); ok {
					if c.P.LoadedField(ir.Resolve(st.Addr)) == fBuf {
						mods = append(mods, in)
					}
					if fa, ok := st.Addr.(*ssa.FieldAddr); ok && c.P.FieldKey(fa) == fBuf {
						if _, fresh := ir.Root(fa.X).(*ssa.Alloc); !fresh {
							mods = append(mods, in)
						}
					}
				}
			}
		}
		stale := ""
		nMeas := 0
		for _, cs := range c.P.CallsNamed(fn, "builtin:len", "builtin:cap") {
			if cs.In.Parent() != fn {
				continue
			}
			a, isLoad := ir.IsLoad(ir.Resolve(cs.Common.Args[0]))
			if !isLoad || c.P.LoadedField(ir.Resolve(a)) != fBuf {
				continue
			}
			nMeas++
			dep := c.dependsOn(fn, cs.Value())
			for _, m := range mods {
				if !fi.CanReach(cs.In, m) {
					continue
				}
				vis, _ := fi.Reach([]ssa.Instruction{m}, func(in ssa.Instruction) bool { return in == cs.In })
				for in := range vis {
					if in == cs.In {
						continue
					}
					for _, op := range in.Operands(nil) {
						if *op != nil && dep[*op] {
							if _, isPhi := in.(*ssa.Phi); !isPhi {
								stale = "the measurement of the tail buffer at " + c.Pos(cs.In) + " is still used at " + c.Pos(in) + " after the buffer was changed at " + c.Pos(m) + ": the new buffer is sized and filled with a length that is no longer the buffer's, so queued bytes are lost or stale pool bytes are sent"
							}
						}
					}
				}
			}
		}
		c.Cond(stale == "", "C01.O10", key2, c.FnPos(fn), fmt.Sprintf("%d measurement(s), %d modification(s) of the entry's buffer; no use of a measurement after a modification", nMeas, len(mods)), stale)
	}
	if n == 0 && bad == "" {
		c.OK("C01.O10", key, c.FnPos(fn), "no re-allocation of an existing entry's buffer (growth is left to Append)")
		return
	}
	c.Cond(bad == "", "C01.O10", key, c.FnPos(fn), fmt.Sprintf("%d re-allocation(s): whole old buffer copied to the front", n), bad)
}

// c01RepeatedWrite: O11.  The kernel may take fewer bytes than offered.  A
// second kernel write in the same call is sound only when the code has looked
// at the first count (to stop, or to branch) or offers data that was advanced
// by it; otherwise the bytes behind a short write overtake the ones it left.
func c01RepeatedWrite(c *Ctx) {
	core := c.Core()
	n := 0
	for _, kw := range core.KernelWrites {
		fn := kw.In.Parent()
		fi := c.P.Info(fn)
		if !fi.InLoop(kw.In) {
			continue
		}
		call, ok := kw.In.(*ssa.Call)
		if !ok {
			continue
		}
		n++
		key := fnKey(c.P, fn, "repeated kernel "+c.P.CalleeName(kw.Common))
		// the count: component 0 of the result tuple (or the result itself)
		var seeds []ssa.Value
		if _, isTuple := call.Type().(*types.Tuple); isTuple {
			for _, r := range *call.Referrers() {
				if e, ok := r.(*ssa.Extract); ok && e.Index == 0 {
					seeds = append(seeds, e)
				}
			}
		} else {
			seeds = append(seeds, call)
		}
		if len(seeds) == 0 {
			c.Bad("C01.O11", key, c.Pos(call), "the count of the kernel write is discarded although the write is repeated in a loop")
			continue
		}
		dep := c.dependsOn(fn, seeds...)
		vis, _ := fi.Reach([]ssa.Instruction{call}, func(in ssa.Instruction) bool {
			i, ok := in.(*ssa.If)
			return ok && dep[i.Cond]
		})
		if !vis[call] {
			c.OK("C01.O11", key, c.Pos(call), "every way back to the write passes a test of its count")
			continue
		}
		advanced := false
		for _, a := range call.Call.Args {
			if dep[a] {
				advanced = true
			}
		}
		c.Cond(advanced, "C01.O11", key, c.Pos(call), "the data offered next is advanced by the count",
			"the kernel write at "+c.Pos(call)+" is repeated without looking at the count it returned and on data that does not depend on it: after a short write the next one sends later bytes, which overtake the ones the kernel left (the caller queues the remainder from the summed count)")
	}
	if n == 0 {
		c.OK("C01.O11", "no kernel write on a connection descriptor sits in a loop", "", "nothing to repeat")
	}
}

// c01NoPollerState: O12.
func c01NoPollerState(c *Ctx) {
	kernel, enqueue := c.writeSinks()
	n := 0
	bad := ""
	for _, f := range c.nbioFuncs() {
		name := c.P.FuncName(ir.Outermost(f))
		if !(kernel[ir.Outermost(f)] || enqueue[ir.Outermost(f)] || strings.HasPrefix(name, "nbio.writev")) {
			continue
		}
		if strings.HasPrefix(name, "(*nbio.poller).") || strings.HasPrefix(name, "nbio.newPoller") || strings.HasPrefix(name, "(*nbio.Engine).") {
			continue
		}
		n++
		for _, b := range f.Blocks {
			for _, in := range b.Instrs {
				st, ok := in.(*ssa.Store)
				if !ok {
					continue
				}
				fa, ok := st.Addr.(*ssa.FieldAddr)
				if !ok {
					continue
				}
				if k := c.P.FieldKey(fa); strings.HasPrefix(k, "nbio.poller.") {
					bad = name + " stores to " + k + " at " + c.Pos(st) + ": the write path runs in user goroutines holding only their own connection's mutex, so two connections of the same poller overwrite each other's state there (one connection sends another's bytes)"
				}
			}
		}
	}
	c.Cond(bad == "", "C01.O12", "write path: no store to poller fields", "", fmt.Sprintf("%d write-path function(s) examined", n), bad)
}

// c01FileEntryTest: O13.
func c01FileEntryTest(c *Ctx) {
	n := 0
	bad := ""
	for _, f := range c.nbioFuncs() {
		for _, b := range f.Blocks {
			for _, in := range b.Instrs {
				bo, ok := in.(*ssa.BinOp)
				if !ok {
					continue
				}
				for _, pair := range [][2]ssa.Value{{bo.X, bo.Y}, {bo.Y, bo.X}} {
					if c.P.LoadedField(ir.Resolve(pair[0])) != "nbio.toWrite.fd" {
						continue
					}
					n++
					if k, isK := ir.ConstInt(pair[1]); isK && k == 0 {
						bad = c.P.FuncName(f) + " compares a queue entry's descriptor with 0 at " + c.Pos(in) + " to tell file ranges from buffers: a range whose duplicated descriptor is 0 (stdin closed) is handled as a buffer entry without a buffer (nil dereference in the poller) and its descriptor is never closed"
					}
				}
			}
		}
	}
	c.Cond(bad == "", "C01.O13", "queue entries: file ranges recognised by the missing buffer", "", fmt.Sprintf("%d comparison(s) of toWrite.fd, none with 0", n), bad)
}
