package props

import (
	"fmt"
	"go/token"

	"golang.org/x/tools/go/ssa"

	"verif/internal/ir"
)

// The "head starts the drainer" hand-over appears three times in the code
// base (Conn.jobList, Timer.asyncList, websocket sendQueue).  Its necessary
// shape: the submitter decides "I made the list non-empty" in the critical
// section of its append, and only then starts a drainer; the drainer decides
// "exhausted", resets the list and fetches the next element in one critical
// section, and runs the element with the lock released.

// appendStore finds the single `list = append(list, x)` store in fn.
func (c *Ctx) appendStores(fn *ssa.Function, list string) []*ssa.Store {
	var out []*ssa.Store
	for _, st := range c.P.StoresTo(fn, list) {
		call, ok := ir.Resolve(st.Val).(*ssa.Call)
		if !ok {
			continue
		}
		if b, ok := call.Call.Value.(*ssa.Builtin); ok && b.Name() == "append" && c.P.LoadedField(call.Call.Args[0]) == list {
			out = append(out, st)
		}
	}
	return out
}

// loadUnder returns the load instruction of `list` that a len() expression reads.
func (c *Ctx) lenLoadOf(v ssa.Value, list string) ssa.Instruction {
	x, isLen := ir.IsLenOf(ir.Resolve(v))
	if !isLen {
		return nil
	}
	x = ir.Unconv(x)
	if c.P.LoadedField(x) != list {
		return nil
	}
	if ld, ok := x.(*ssa.UnOp); ok {
		return ld
	}
	return nil
}

// checkHeadStarts verifies that every drainer start in fn is control-dependent
// on "the list was empty before my append / has length 1 after it", decided in
// the critical section of the append.  It returns "" or the violation.
func (c *Ctx) checkHeadStarts(fn *ssa.Function, list, lock string, isStart func(ssa.Instruction) bool) (string, int) {
	fi := c.P.Info(fn)
	L := c.Locks()
	apps := c.appendStores(fn, list)
	if len(apps) != 1 {
		return fmt.Sprintf("expected exactly one tail append to %s, found %d", list, len(apps)), 0
	}
	S := apps[0]
	if !L.HeldClass(S, lock) {
		return "the append at " + c.Pos(S) + " does not hold " + lock, 0
	}
	starts := instrsOf(fn, isStart)
	if len(starts) == 0 {
		return "no drainer start found", 0
	}
	for _, X := range starts {
		ok := false
		for _, ft := range fi.Facts(X) {
			// (i) empty before the append
			if e, zero, isZ := ir.ZeroTest(ft.Cond, ft.Truth); isZ && zero {
				if ld := c.lenLoadOf(e, list); ld != nil && fi.Dominates(ld, S) && L.HeldClass(ld, lock) {
					if same, _ := L.SameRegion(fi, lock, ld, S); same {
						ok = true
					}
				}
			}
			// (ii) length 1 after the append
			if cmp, isCmp := ir.DecodeIntCmp(ft.Cond); isCmp && ft.Truth && !cmp.NotEq && cmp.TrueSet.Lo == 1 && cmp.TrueSet.Hi == 1 {
				if ld := c.lenLoadOf(cmp.Expr, list); ld != nil && fi.Dominates(S, ld) && L.HeldClass(ld, lock) {
					if same, _ := L.SameRegion(fi, lock, S, ld); same {
						ok = true
					}
				}
			}
		}
		if !ok {
			return "the drainer start at " + c.Pos(X) + " is not decided by 'list was empty' in the critical section of the append: two drainers (or none) can run", len(starts)
		}
		if !fi.Dominates(S, X) {
			return "the drainer is started at " + c.Pos(X) + " before the element is appended", len(starts)
		}
	}
	return "", len(starts)
}

// drainSpec describes a drainer function.
type drainSpec struct {
	fn   *ssa.Function // the drainer closure
	list string
	lock string
	// isRun recognises the instruction that runs one element (with the lock released).
	isRun func(ssa.Instruction) bool
}

// checkDrainer verifies the drainer's critical-section shape.
func (c *Ctx) checkDrainer(d drainSpec) string {
	fi := c.P.Info(d.fn)
	L := c.Locks()
	// every access to the list holds the lock
	accs := c.P.FieldAccesses(d.fn, func(k string) bool { return k == d.list })
	if len(accs) == 0 {
		return "the drainer does not touch " + d.list
	}
	for _, a := range accs {
		if a.AddrTaken {
			continue
		}
		if !L.HeldClass(a.In, d.lock) {
			return d.list + " is accessed at " + c.Pos(a.In) + " without " + d.lock
		}
	}
	// the exit decision: a comparison of len(list) with the running index
	var exitIf *ssa.If
	var lenLoad ssa.Instruction
	var idx ssa.Value
	exhaustedEdge := -1
	for _, i := range fi.Ifs() {
		b, ok := stripNot(i.Cond).(*ssa.BinOp)
		if !ok {
			continue
		}
		for _, pair := range [][2]ssa.Value{{b.X, b.Y}, {b.Y, b.X}} {
			ld := c.lenLoadOf(pair[0], d.list)
			if ld == nil {
				continue
			}
			if _, isConst := ir.ConstInt(pair[1]); isConst {
				continue
			}
			exitIf, lenLoad, idx = i, ld, ir.Resolve(pair[1])
			// which edge means "exhausted" (len <= idx)?
			op := b.Op
			if pair[0] != b.X { // idx OP len  ->  flip
				switch op {
				case token.LSS:
					op = token.GTR
				case token.LEQ:
					op = token.GEQ
				case token.GTR:
					op = token.LSS
				case token.GEQ:
					op = token.LEQ
				}
			}
			_, truthOnTrue := ir.StripNot(i.Cond, true)
			switch op {
			case token.EQL, token.LEQ: // len == idx, len <= idx : true edge exhausted
				exhaustedEdge = 0
			case token.GTR, token.NEQ: // len > idx, len != idx : false edge exhausted
				exhaustedEdge = 1
			default:
				return "the exit decision at " + c.Pos(i) + " compares len(" + d.list + ") with the index by " + op.String() + ", which is not an exhaustion test"
			}
			if !truthOnTrue {
				exhaustedEdge = 1 - exhaustedEdge
			}
		}
	}
	if exitIf == nil {
		return "no exit decision comparing len(" + d.list + ") with the running index"
	}
	// the index advances by exactly one per element
	if !advancesByOne(idx) {
		return "the running index " + c.P.Desc(idx) + " does not advance by one per element (elements would be skipped or repeated)"
	}
	// exhausted edge: reset of the list, then release, then return — in the region of the len load
	visX, _ := fi.ReachFromEdge(exitIf, exhaustedEdge, func(in ssa.Instruction) bool { return ir.IsExit(in) })
	for in := range visX {
		if st, ok := in.(*ssa.Store); ok {
			if fa, ok := st.Addr.(*ssa.FieldAddr); ok && c.P.FieldKey(fa) == d.list {
				if same, r := L.SameRegion(fi, d.lock, lenLoad, st); !same {
					return "the lock is released at " + c.Pos(r) + " between the exhaustion test and the list reset: an element appended in between is lost"
				}
				if !isResetValue(c, st.Val, d.list) {
					return "the exhausted edge stores " + c.P.Desc(st.Val) + " to " + d.list + ", which is not an empty list"
				}
			}
		}
		if d.isRun(in) {
			return "the exhausted edge runs another element"
		}
		if in == ssa.Instruction(lenLoad) {
			return "the exhausted edge loops back into the drain loop without leaving"
		}
	}
	// every path of the exhausted edge resets the list before leaving
	isReset := func(in ssa.Instruction) bool {
		st, ok := in.(*ssa.Store)
		if !ok {
			return false
		}
		fa, ok := st.Addr.(*ssa.FieldAddr)
		return ok && c.P.FieldKey(fa) == d.list && isResetValue(c, st.Val, d.list)
	}
	visR, _ := fi.ReachFromEdge(exitIf, exhaustedEdge, isReset)
	for in := range visR {
		if ir.IsExit(in) {
			return "the exhausted edge can leave at " + c.Pos(in) + " without resetting " + d.list + " (the submitters' emptiness test would never succeed again)"
		}
	}
	// other edge: the fetch of list[idx] in the same region
	// (the fetch itself only needs the lock — checked above — and the right index:
	// the list only grows while a drainer is active)
	visN, _ := fi.ReachFromEdge(exitIf, 1-exhaustedEdge, func(in ssa.Instruction) bool { return d.isRun(in) })
	fetched := false
	for in := range visN {
		if ld, ok := in.(*ssa.UnOp); ok && ld.Op == token.MUL {
			if ia, ok := ld.X.(*ssa.IndexAddr); ok && c.P.LoadedField(ia.X) == d.list {
				if ir.Resolve(ia.Index) != idx {
					return "the next element is fetched at index " + c.P.Desc(ia.Index) + ", not at the index the exit decision used (" + c.P.Desc(idx) + ")"
				}
				fetched = true
			}
		}
	}
	if !fetched {
		return "the next element is not fetched after the exit decision"
	}
	// the element runs with the lock released
	nRun := 0
	for _, g := range ir.WithClosures(d.fn) {
		for _, b := range g.Blocks {
			for _, in := range b.Instrs {
				if !d.isRun(in) {
					continue
				}
				nRun++
				if g == d.fn && L.MayHold(in, d.lock) {
					return "the element is run at " + c.Pos(in) + " while " + d.lock + " may be held"
				}
			}
		}
	}
	if nRun == 0 {
		return "no element invocation found in the drainer"
	}
	return ""
}

// advancesByOne: v is phi(0, phi+1) or (phi+1) of such a phi.
func advancesByOne(v ssa.Value) bool {
	v = ir.Resolve(v)
	var phi *ssa.Phi
	switch x := v.(type) {
	case *ssa.Phi:
		phi = x
	case *ssa.BinOp:
		if x.Op != token.ADD {
			return false
		}
		if k, ok := ir.ConstInt(x.Y); !ok || k != 1 {
			return false
		}
		p, ok := ir.Resolve(x.X).(*ssa.Phi)
		if !ok {
			return false
		}
		phi = p
	default:
		// a captured local cell (var i) with stores 0 and i+1
		if ld, ok := v.(*ssa.UnOp); ok && ld.Op == token.MUL {
			if a, ok := ir.Root(ld.X).(*ssa.Alloc); ok {
				return cellAdvancesByOne(a)
			}
		}
		return false
	}
	sawZero, sawInc := false, false
	for _, e := range phi.Edges {
		if k, ok := ir.ConstInt(e); ok && k == 0 {
			sawZero = true
			continue
		}
		b, ok := ir.Resolve(e).(*ssa.BinOp)
		if !ok || b.Op != token.ADD || ir.Resolve(b.X) != ssa.Value(phi) {
			return false
		}
		if k, ok := ir.ConstInt(b.Y); !ok || k != 1 {
			return false
		}
		sawInc = true
	}
	return sawZero && sawInc
}

func cellAdvancesByOne(a *ssa.Alloc) bool {
	sawZero, sawInc := false, false
	for _, f := range ir.WithClosures(a.Parent()) {
		for _, b := range f.Blocks {
			for _, in := range b.Instrs {
				st, ok := in.(*ssa.Store)
				if !ok || ir.Root(st.Addr) != ssa.Value(a) {
					continue
				}
				if k, ok := ir.ConstInt(st.Val); ok && k == 0 {
					sawZero = true
					continue
				}
				bo, ok := st.Val.(*ssa.BinOp)
				if !ok || bo.Op != token.ADD {
					return false
				}
				if k, ok := ir.ConstInt(bo.Y); !ok || k != 1 {
					return false
				}
				if ld, ok := bo.X.(*ssa.UnOp); !ok || ld.Op != token.MUL || ir.Root(ld.X) != ssa.Value(a) {
					return false
				}
				sawInc = true
			}
		}
	}
	return sawZero && sawInc
}

// isResetValue: list[0:0], list[:0], or a fresh empty make.
func isResetValue(c *Ctx, v ssa.Value, list string) bool {
	v = ir.Resolve(v)
	switch x := v.(type) {
	case *ssa.Slice:
		if _, fresh := x.X.(*ssa.Alloc); !fresh && c.P.LoadedField(x.X) != list {
			return false
		}
		hi, ok := ir.ConstInt(x.High)
		if x.High == nil || !ok || hi != 0 {
			return false
		}
		if x.Low != nil {
			if lo, ok := ir.ConstInt(x.Low); !ok || lo != 0 {
				return false
			}
		}
		return true
	case *ssa.MakeSlice:
		n, ok := ir.ConstInt(x.Len)
		return ok && n == 0
	case *ssa.Phi:
		for _, e := range x.Edges {
			if !isResetValue(c, e, list) {
				return false
			}
		}
		return true
	case *ssa.Const:
		return x.Value == nil
	}
	return false
}

// hasRecoverDefer reports that fn defers a closure that calls recover().
func (c *Ctx) hasRecoverDefer(fn *ssa.Function) (bool, ssa.Instruction) {
	for _, b := range fn.Blocks {
		for _, in := range b.Instrs {
			d, ok := in.(*ssa.Defer)
			if !ok {
				continue
			}
			callee := ir.StaticCallee(&d.Call)
			if callee == nil {
				continue
			}
			for _, cs := range c.P.Calls(callee, nil) {
				if c.P.CalleeName(cs.Common) == "builtin:recover" {
					return true, in
				}
			}
		}
	}
	return false, nil
}

// dynCallOf reports a call through the given value (after resolving cells).
func dynCallThrough(in ssa.Instruction, pred func(v ssa.Value) bool) bool {
	cs, ok := ir.AsCall(in)
	if !ok || cs.Kind != "call" || cs.Common.IsInvoke() {
		return false
	}
	switch cs.Common.Value.(type) {
	case *ssa.Function, *ssa.Builtin, *ssa.MakeClosure:
		return false
	}
	return pred(cs.Common.Value)
}
