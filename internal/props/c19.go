package props

import (
	"fmt"
	"go/token"
	"go/types"
	"strings"

	"golang.org/x/tools/go/ssa"

	"verif/internal/eng"
	"verif/internal/ir"
)

func init() {
	register(&Property{
		ID:          "C19",
		Engines:     []string{"cfg", "lockset"},
		Explanation: "Executors, structural part: every failed fork is undone before the next fork or return, the worker defers its decrement, and no other code decrements the running-worker counter (O1); the go statement in fork sits on the true edge of a comparison of the atomic increment's own result with the bound, and Stop saturates the counter before closing (O2); task functions are invoked only in frames that defer recover(), and a task received from the queue goes to exactly one of fork / caller (O3); the counter is atomic-only and asyncList is guarded by asyncMux (O4); Timer.Async starts its drainer only on 'list was empty' inside the append's critical section, and the drainer's exhaustion test and reset are one critical section, functions run unlocked inside a recover frame in index order (O5). Every return of fork carries the +1 its callers undo (O6). Recover frames do not assert the panic value (O8); Async only queues (O9); IO buffers survive a panicking task (O10). The dispatcher drains before it leaves (O11).",
		NotCovered:  "exactly-once / FIFO under all interleavings, submissions racing Stop, the barrier-of-waiting-tasks behaviour itself",
		Run:         runC19,
	})
}

const fTPConcurrent = "taskpool.TaskPool.concurrent"

// counterOp recognises atomic.AddInt64(&tp.concurrent, k) and returns k
// (ok=false when the delta is not a constant: returned as 0 with isConst=false).
func (c *Ctx) counterOp(cs ir.CallSite) (delta int64, isConst bool, ok bool) {
	if c.P.CalleeName(cs.Common) != "sync/atomic.AddInt64" || len(cs.Common.Args) != 2 {
		return 0, false, false
	}
	fa, isFA := ir.Root(cs.Common.Args[0]).(*ssa.FieldAddr)
	if !isFA || c.P.FieldKey(fa) != fTPConcurrent {
		return 0, false, false
	}
	k, isK := ir.ConstInt(cs.Common.Args[1])
	return k, isK, true
}

func runC19(c *Ctx) {
	c.Rule("C19.O1", "E4-pairing", "after a fork that returned false the increment is undone before the next fork / return; the worker defers its decrement; every other decrement of the counter is a violation", 4)
	c.Rule("C19.O2", "E4", "fork: go on the true edge of (result of the atomic increment) < max; Stop adds max to the counter before close(chClose)", 2)
	c.Rule("C19.O3", "E4,E5", "func() tasks are invoked only in frames deferring recover(); a task taken from the queue reaches exactly one of fork/caller on every non-nil path", 3)
	c.Rule("C19.O4", "E1", "TaskPool.concurrent is atomic-only; Timer.asyncList is guarded by asyncMux", 8)
	c.Rule("C19.O5", "E4,E1-atomic", "Timer.Async hand-over: head decided in the append's critical section; drainer exhaustion+reset atomic, functions run unlocked in a recover frame, index +1", 3)
	c.Rule("C19.O6", "E4", "fork's contract with its callers: every return of fork, true or false, is dominated by the +1 on the worker counter (the callers undo exactly one on false)", 1)
	c.Rule("C19.O11", "E4", "tasks queued before Stop are run: the dispatcher leaves on the close channel only through a non-blocking drain of the queue (its return is reachable only behind a non-blocking select on the queue channel), because no worker may be left to take what is queued", 1)
	c19DispatcherDrains(c)
	c.Rule("C19.O8", "E4", "a recover frame cannot panic itself: the recovered value is never type-asserted without the comma-ok form (a non-error panic value would panic again inside the deferred function and escape the pool)", 1)
	c.Rule("C19.O9", "E5", "Timer.Async only queues: the submitted function is appended to the async list and reaches nothing else (no AfterFunc, go or direct call), so the serial drainer is the only one that runs it", 1)
	c.Rule("C19.O10", "E4", "an IO task cannot lose a unit of parallelism by panicking: a buffer obtained by a channel receive in IOTaskPool.Go/Call is given back in a deferred call (a sync.Pool needs no give-back)", 2)
	c19Round5(c)
	c.Rule("C19.O7", "E5", "tasks are run only by the pool's own goroutines (the worker closure of fork, the dispatcher, Call's own goroutine): Go never runs a task on the submitter, which would be outside the worker accounting", 1)
	c19WhoRuns(c)
	c19ForkBalance(c)

	fork := c.Fn("C19.O1", "(*taskpool.TaskPool).fork")
	if fork == nil {
		return
	}
	tpFuncs := c.pkgFuncs("taskpool")

	// ------------------------------------------------------------------ O1
	nForkSites := 0
	for _, f := range tpFuncs {
		fi := c.P.Info(f)
		n := 0
		for _, cs := range c.P.Calls(f, nil) {
			if !callsFn(cs.In, fork) {
				continue
			}
			n++
			nForkSites++
			key := c.siteKey(f, "fork", n)
			ifs := usedAsCond(cs.Value())
			if len(ifs) != 1 {
				c.Bad("C19.O1", key, c.Pos(cs.In), "the result of fork is not tested: a failed fork cannot be undone")
				continue
			}
			fEdge := edgeOf(ifs[0], cs.Value(), false)
			isUndo := func(in ssa.Instruction) bool {
				x, ok := ir.AsCall(in)
				if !ok || x.Kind != "call" {
					return false
				}
				d, isK, isOp := c.counterOp(x)
				return isOp && isK && d == -1
			}
			vis, _ := fi.ReachFromEdge(ifs[0], fEdge, isUndo)
			bad := ""
			for in := range vis {
				if ir.IsExit(in) {
					bad = "fork failed at " + c.Pos(cs.In) + " and the function returns at " + c.Pos(in) + " without undoing fork's increment: one unit of capacity is lost for good"
				}
				if callsFn(in, fork) || in == cs.In {
					bad = "fork failed at " + c.Pos(cs.In) + " and the next fork is reached without undoing the increment: every task that goes through the queue under load leaks one unit of capacity"
				}
			}
			c.Cond(bad == "", "C19.O1", key, c.Pos(cs.In), "failed fork undone before next fork/return", bad)
		}
	}
	if nForkSites < 2 {
		c.Unres("C19.O1", "fork call sites", fmt.Sprintf("found %d", nForkSites))
	}
	// decrements: worker's deferred one, or an undo on a failed-fork edge
	for _, f := range tpFuncs {
		fi := c.P.Info(f)
		n := 0
		for _, cs := range c.P.Calls(f, nil) {
			d, isK, isOp := c.counterOp(cs)
			if !isOp || (isK && d > 0) {
				continue
			}
			if !isK {
				continue // Stop's saturation, checked in O2
			}
			n++
			key := fmt.Sprintf("%s: counter decrement#%d", c.P.FuncName(f), n)
			okWorker := cs.Kind == "defer" && f.Parent() == fork
			okUndo := cs.Kind == "call" && fi.HasFact(cs.In, func(ft ir.Fact) bool {
				call, isCall := ft.Cond.(*ssa.Call)
				return isCall && !ft.Truth && ir.StaticCallee(&call.Call) == fork
			})
			c.Cond(okWorker || okUndo, "C19.O1", key, c.Pos(cs.In), "worker's deferred decrement / undo of a failed fork",
				"the running-worker counter is decremented outside the worker's exit and the failed-fork undo: a worker that runs k tasks would decrement k+1 times and the bound is exceeded")
		}
	}
	// worker defers its decrement before running anything
	{
		var worker *ssa.Function
		for _, b := range fork.Blocks {
			for _, in := range b.Instrs {
				if g, ok := in.(*ssa.Go); ok {
					worker = ir.StaticCallee(&g.Call)
				}
			}
		}
		key := fnKey(c.P, fork, "worker defers decrement")
		if worker == nil {
			c.Bad("C19.O1", key, c.FnPos(fork), "no worker goroutine")
		} else {
			wi := c.P.Info(worker)
			var def ssa.Instruction
			for _, cs := range c.P.Calls(worker, nil) {
				if d, isK, isOp := c.counterOp(cs); isOp && isK && d == -1 && cs.Kind == "defer" {
					def = cs.In
				}
			}
			bad := ""
			if def == nil {
				bad = "the worker does not defer its decrement: a panicking task would leak the slot"
			} else {
				for _, cs := range c.P.Calls(worker, func(name string, _ ir.CallSite) bool { return name == "dyn:taskpool.TaskPool.caller" }) {
					if !wi.Dominates(def, cs.In) {
						bad = "a task runs before the decrement is deferred"
					}
				}
			}
			c.Cond(bad == "", "C19.O1", key, c.FnPos(worker), "defer decrement dominates every task call", bad)
		}
	}

	// ------------------------------------------------------------------ O2
	{
		fi := c.P.Info(fork)
		key := fnKey(c.P, fork, "bound")
		bad := "no go statement"
		for _, b := range fork.Blocks {
			for _, in := range b.Instrs {
				if _, ok := in.(*ssa.Go); !ok {
					continue
				}
				bad = "the go statement is not guarded by (atomic increment result) < maxConcurrent"
				if fi.HasFact(in, func(ft ir.Fact) bool {
					lx, ly, strict, ok := lessThanFact(ft)
					if !ok || !strict {
						return false
					}
					x, y := ir.Resolve(lx), ir.Resolve(ly)
					call, isCall := x.(*ssa.Call)
					if !isCall {
						return false
					}
					cs, _ := ir.AsCall(call)
					d, isK, isOp := c.counterOp(cs)
					return isOp && isK && d == 1 && c.P.LoadedField(y) == "taskpool.TaskPool.maxConcurrent"
				}) {
					bad = ""
				}
			}
		}
		c.Cond(bad == "", "C19.O2", key, c.FnPos(fork), "go only when increment result < max", bad)
	}
	if stop := c.Fn("C19.O2", "(*taskpool.TaskPool).Stop"); stop != nil {
		fi := c.P.Info(stop)
		var sat, cl ssa.Instruction
		for _, cs := range c.P.Calls(stop, nil) {
			if _, isK, isOp := c.counterOp(cs); isOp && !isK && c.P.LoadedField(cs.Common.Args[1]) == "taskpool.TaskPool.maxConcurrent" {
				sat = cs.In
			}
			if c.P.CalleeName(cs.Common) == "builtin:close" {
				cl = cs.In
			}
		}
		ok := sat != nil && cl != nil && fi.Dominates(sat, cl)
		c.Cond(ok, "C19.O2", fnKey(c.P, stop, "saturate before close"), c.FnPos(stop), "counter += max dominates close(chClose)", "Stop does not saturate the counter before closing: forks racing Stop could start new workers")
	}

	// ------------------------------------------------------------------ O3
	{
		n := 0
		for _, f := range tpFuncs {
			for _, b := range f.Blocks {
				for _, in := range b.Instrs {
					if !dynCallThrough(in, func(v ssa.Value) bool { return v.Type().String() == "func()" }) {
						continue
					}
					n++
					ok, _ := c.hasRecoverDefer(f)
					key := fmt.Sprintf("%s: task invocation#%d", c.P.FuncName(f), n)
					c.Cond(ok, "C19.O3", key, c.Pos(in), "inside a frame deferring recover()", "a task is invoked outside a recover frame: a panicking task would take the worker (or the dispatcher) down")
				}
			}
		}
		if n == 0 {
			c.Unres("C19.O3", "task invocations", "none found")
		}
	}
	// queue receive -> exactly one of fork / caller
	for _, f := range tpFuncs {
		fi := c.P.Info(f)
		for _, b := range f.Blocks {
			for _, in := range b.Instrs {
				sel, ok := in.(*ssa.Select)
				if !ok {
					continue
				}
				recvIdx := -1
				for i, st := range sel.States {
					if st.Dir == 2 /* types.RecvOnly */ && c.P.LoadedField(st.Chan) == "taskpool.TaskPool.chQqueue" {
						recvIdx = i
					}
				}
				if recvIdx < 0 {
					continue
				}
				key := fnKey(c.P, f, "queue receive hand-off")
				// the received value
				var recv ssa.Value
				if refs := sel.Referrers(); refs != nil {
					for _, r := range *refs {
						if e, ok := r.(*ssa.Extract); ok && e.Index == 2+recvIdx && e.Type().String() == "func()" {
							recv = e
						}
					}
				}
				if recv == nil {
					c.Bad("C19.O3", key, c.Pos(sel), "the received task is discarded")
					continue
				}
				isUse := func(x ssa.Instruction) (bool, bool) { // (uses task, is fork)
					cs, ok := ir.AsCall(x)
					if !ok || cs.Kind != "call" {
						return false, false
					}
					uses := false
					for _, a := range cs.Common.Args {
						if ir.Resolve(a) == recv || c.sameCell(a, recv) {
							uses = true
						}
					}
					if !uses {
						return false, false
					}
					if callsFn(x, fork) {
						return true, true
					}
					if c.P.CalleeName(cs.Common) == "dyn:taskpool.TaskPool.caller" {
						return true, false
					}
					return false, false
				}
				// walk from the extract: stop at the next select / exit
				bad := ""
				var walk func(x ssa.Instruction, ran bool, seen map[ssa.Instruction]bool)
				walk = func(x ssa.Instruction, ran bool, seen map[ssa.Instruction]bool) {
					for {
						if seen[x] || bad != "" {
							return
						}
						seen[x] = true
						if x == ssa.Instruction(sel) || ir.IsExit(x) {
							if !ran {
								bad = "a task received at " + c.Pos(sel) + " can reach " + c.Pos(x) + " without being run: it would be dropped"
							}
							return
						}
						if u, isFork := isUse(x); u {
							if isFork {
								ifs := usedAsCond(x.(ssa.Value))
								if len(ifs) == 1 {
									t := edgeOf(ifs[0], x.(ssa.Value), true)
									// fork true: it ran
									if s := ifs[0].Block().Succs[t]; len(s.Instrs) > 0 {
										walk(s.Instrs[0], true, cloneSeen(seen))
									}
									if s := ifs[0].Block().Succs[1-t]; len(s.Instrs) > 0 {
										walk(s.Instrs[0], ran, cloneSeen(seen))
									}
									return
								}
							} else {
								if ran {
									bad = "the task can run twice (fork succeeded and caller is called too) at " + c.Pos(x)
									return
								}
								ran = true
							}
						}
						if i, ok := x.(*ssa.If); ok {
							for k, s := range i.Block().Succs {
								if len(s.Instrs) == 0 {
									continue
								}
								// nil task edge: nothing to run
								if v, isNil, ok := ir.NilTest(i.Cond, k == 0); ok && isNil && (ir.Resolve(v) == recv || c.sameCell(v, recv)) {
									walk(s.Instrs[0], true, cloneSeen(seen))
									continue
								}
								walk(s.Instrs[0], ran, cloneSeen(seen))
							}
							return
						}
						nx := ir.Succ(x)
						if len(nx) == 0 {
							return
						}
						if len(nx) > 1 {
							for _, y := range nx[1:] {
								walk(y, ran, cloneSeen(seen))
							}
						}
						x = nx[0]
					}
				}
				// start at the receive case body: the edge where index == recvIdx
				started := false
				for _, i := range fi.Ifs() {
					cmp, ok := ir.DecodeIntCmp(i.Cond)
					if !ok || cmp.NotEq {
						continue
					}
					e, isE := ir.Resolve(cmp.Expr).(*ssa.Extract)
					if !isE || e.Tuple != ssa.Value(sel) || e.Index != 0 || cmp.TrueSet.Lo != int64(recvIdx) || cmp.TrueSet.Hi != int64(recvIdx) {
						continue
					}
					if s := i.Block().Succs[0]; len(s.Instrs) > 0 {
						started = true
						walk(s.Instrs[0], false, map[ssa.Instruction]bool{})
					}
				}
				if !started {
					c.Unres("C19.O3", key, "receive case body not found")
					continue
				}
				c.Cond(bad == "", "C19.O3", key, c.Pos(sel), "received task reaches exactly one of fork/caller (nil tasks skipped)", bad)
			}
		}
	}

	// ------------------------------------------------------------------ O4
	{
		for i, s := range eng.CheckAtomicOnly(c.P, c.libFuncs(), fTPConcurrent) {
			key := fmt.Sprintf("%s: concurrent use#%d", c.P.FuncName(s.Fn), i+1)
			c.Cond(s.OK, "C19.O4", key, c.Pos(s.In), "argument of a sync/atomic function", "TaskPool.concurrent is accessed non-atomically")
		}
		L := c.Locks()
		table := []eng.Guard{{Field: "timer.Timer.asyncList", Lock: "timer.Timer.asyncMux", Reads: true, Writes: true}}
		for _, s := range eng.CheckGuarded(L, c.libFuncs(), table, nil) {
			key := fmt.Sprintf("%s: %s asyncList", c.P.FuncName(s.Fn), rw(s.Access.Write))
			c.Cond(s.Held, "C19.O4", key, c.Pos(s.Access.In), "asyncMux held", "asyncList accessed without asyncMux")
		}
	}

	// ------------------------------------------------------------------ O5
	if as := c.Fn("C19.O5", "(*timer.Timer).Async"); as != nil {
		isStart := func(in ssa.Instruction) bool { _, ok := in.(*ssa.Go); return ok }
		bad, n := c.checkHeadStarts(as, "timer.Timer.asyncList", "timer.Timer.asyncMux", isStart)
		c.Cond(bad == "", "C19.O5", fnKey(c.P, as, "head starts drainer"), c.FnPos(as), fmt.Sprintf("%d start site(s)", n), bad)
		var loop *ssa.Function
		for _, g := range ir.Closures(as) {
			if len(c.P.FieldAccesses(g, func(k string) bool { return k == "timer.Timer.asyncList" })) > 0 {
				loop = g
			}
		}
		if loop == nil {
			c.Unres("C19.O5", fnKey(c.P, as, "drainer"), "not found")
		} else {
			var runner *ssa.Function
			isF := func(in ssa.Instruction) bool {
				return dynCallThrough(in, func(v ssa.Value) bool { return v.Type().String() == "func()" })
			}
			for _, g := range ir.WithClosures(loop) {
				if len(instrsOf(g, isF)) > 0 {
					runner = g
				}
			}
			isRun := func(in ssa.Instruction) bool {
				if runner != nil && runner != loop {
					return callsFn(in, runner)
				}
				return isF(in)
			}
			bad := c.checkDrainer(drainSpec{fn: loop, list: "timer.Timer.asyncList", lock: "timer.Timer.asyncMux", isRun: isRun})
			c.Cond(bad == "", "C19.O5", fnKey(c.P, as, "drainer critical section"), c.FnPos(loop), "exhaustion+reset atomic, run unlocked, index +1", bad)
			if runner == nil {
				c.Bad("C19.O5", fnKey(c.P, as, "recover frame"), c.FnPos(loop), "no function invocation")
			} else {
				ok, _ := c.hasRecoverDefer(runner)
				c.Cond(ok && runner != loop, "C19.O5", fnKey(c.P, as, "recover frame"), c.FnPos(runner), "per-function recover frame", "a panicking async function would end the drainer and strand the functions queued behind it")
			}
		}
	}
}

func cloneSeen(m map[ssa.Instruction]bool) map[ssa.Instruction]bool {
	o := make(map[ssa.Instruction]bool, len(m))
	for k, v := range m {
		o[k] = v
	}
	return o
}

// sameCell reports that value a is a load of a local cell whose stores include
// v (the `f = <-ch` idiom where f is a captured variable).
func (c *Ctx) sameCell(a ssa.Value, v ssa.Value) bool {
	ld, ok := ir.Unconv(a).(*ssa.UnOp)
	if !ok || ld.Op != token.MUL {
		return false
	}
	cell := ir.Root(ld.X)
	if _, isAlloc := cell.(*ssa.Alloc); !isAlloc {
		if _, isFV := cell.(*ssa.FreeVar); !isFV {
			return false
		}
	}
	for _, f := range ir.WithClosures(ir.Outermost(ld.Parent())) {
		for _, b := range f.Blocks {
			for _, in := range b.Instrs {
				if st, ok := in.(*ssa.Store); ok && st.Val == v {
					if ir.Root(st.Addr) == cell || st.Addr == ld.X {
						return true
					}
				}
			}
		}
	}
	return false
}

// c19ForkBalance: O6.
func c19ForkBalance(c *Ctx) {
	fn := c.Fn("C19.O6", "(*taskpool.TaskPool).fork")
	if fn == nil {
		return
	}
	fi := c.P.Info(fn)
	var incs []ssa.Instruction
	for _, cs := range c.P.CallsNamed(fn, "sync/atomic.AddInt64") {
		if k, ok := ir.ConstInt(cs.Common.Args[1]); ok && k == 1 && cs.In.Parent() == fn {
			incs = append(incs, cs.In)
		}
	}
	bad := ""
	if len(incs) != 1 {
		bad = fmt.Sprintf("expected exactly one +1 on the worker counter in fork, found %d", len(incs))
	} else {
		for _, r := range fi.Returns() {
			if !fi.Dominates(incs[0], r) {
				bad = "fork returns at " + c.Pos(r) + " without having incremented the worker counter, but its callers subtract one after every failed fork: the counter drifts below zero and more workers run than the bound allows"
			}
		}
	}
	c.Cond(bad == "", "C19.O6", fnKey(c.P, fn, "every return carries the +1"), c.FnPos(fn), "the increment dominates every return", bad)
}

// c19WhoRuns: O7.
func c19WhoRuns(c *Ctx) {
	callers := map[string]bool{}
	for _, f := range c.pkgFuncs("taskpool") {
		for _, cs := range c.P.Calls(f, func(name string, _ ir.CallSite) bool { return name == "dyn:taskpool.TaskPool.caller" }) {
			_ = cs
			callers[c.P.FuncName(f)] = true
		}
	}
	bad := ""
	for name := range callers {
		if name == "(*taskpool.TaskPool).Go" || name == "(*taskpool.TaskPool).GoByIndex" {
			bad = name + " runs a task itself (tp.caller on the submitting goroutine): tasks run by submitters are not counted against the bound, so several submitters meeting a full queue exceed it"
		}
	}
	c.Cond(bad == "" && len(callers) > 0, "C19.O7", "who runs tasks", "", fmt.Sprintf("%v", sortedKeys(callers)), bad)
}

// c19Round5: O8, O9, O10.
func c19Round5(c *Ctx) {
	n := 0
	bad := ""
	for _, f := range c.libFuncs() {
		for _, cs := range c.P.CallsNamed(f, "builtin:recover") {
			n++
			dep := c.dependsOn(f, cs.Value())
			for _, b := range f.Blocks {
				for _, in := range b.Instrs {
					if ta, ok := in.(*ssa.TypeAssert); ok && !ta.CommaOk && dep[ta.X] {
						bad = "the recovered value is type-asserted without comma-ok at " + c.Pos(ta) + ": a task that panics with a value of another type makes the deferred function panic itself, and that panic is not contained"
					}
				}
			}
		}
	}
	c.Cond(bad == "", "C19.O8", "recover frames do not assert the panic value", "", fmt.Sprintf("%d recover site(s)", n), bad)

	if fn := c.Fn("C19.O9", "(*timer.Timer).Async"); fn != nil && len(fn.Params) >= 2 {
		f := fn.Params[1]
		bad := ""
		for _, r := range *f.Referrers() {
			switch x := r.(type) {
			case *ssa.DebugRef:
			case *ssa.Store:
				// into the variadic array of append: accepted
			case ssa.CallInstruction:
				bad = "the submitted function is handed to " + c.P.CalleeName(x.Common()) + " at " + c.Pos(r) + " instead of the queue: it runs outside the serial drainer, next to or ahead of functions queued before it"
			case *ssa.MakeClosure:
				bad = "the submitted function is captured by a closure at " + c.Pos(r) + " instead of being queued"
			default:
				bad = fmt.Sprintf("the submitted function flows into %T at %s", r, c.Pos(r))
			}
		}
		c.Cond(bad == "", "C19.O9", fnKey(c.P, fn, "f only queued"), c.FnPos(fn), "only use: append to the async list", bad)
	}

	for _, name := range []string{"(*taskpool.IOTaskPool).Go", "(*taskpool.IOTaskPool).Call"} {
		fn := c.Fn("C19.O10", name)
		if fn == nil {
			continue
		}
		bad := ""
		for _, g := range ir.WithClosures(fn) {
			recv := false
			deferred := false
			for _, b := range g.Blocks {
				for _, in := range b.Instrs {
					if u, ok := in.(*ssa.UnOp); ok && u.Op == token.ARROW {
						recv = true
					}
					if _, ok := in.(*ssa.Select); ok {
						recv = true
					}
					if _, ok := in.(*ssa.Defer); ok {
						deferred = true
					}
				}
			}
			if recv && !deferred {
				bad = c.P.FuncName(g) + " takes its buffer from a channel and gives it back after the task without a defer: a panicking task (which the pool contains) never returns it, and after as many failures as there are buffers no IO task can run any more"
			}
		}
		c.Cond(bad == "", "C19.O10", fnKey(c.P, fn, "buffer survives a panicking task"), c.FnPos(fn), "sync.Pool, or a deferred give-back", bad)
	}
}

// c19DispatcherDrains: O11.
func c19DispatcherDrains(c *Ctx) {
	nw := c.Fn("C19.O11", "taskpool.New")
	if nw == nil {
		return
	}
	var disp *ssa.Function
	for _, g := range ir.Closures(nw) {
		for _, b := range g.Blocks {
			for _, in := range b.Instrs {
				if sel, ok := in.(*ssa.Select); ok && sel.Blocking {
					for _, st := range sel.States {
						if st.Dir == types.RecvOnly && strings.HasSuffix(c.P.LoadedField(ir.Resolve(st.Chan)), ".chClose") {
							disp = g
						}
					}
				}
			}
		}
	}
	key := fnKey(c.P, nw, "dispatcher drains before it leaves")
	if disp == nil {
		c.Unres("C19.O11", key, "dispatcher goroutine (blocking select on the close channel) not found")
		return
	}
	fi := c.P.Info(disp)
	isDrain := func(in ssa.Instruction) bool {
		sel, ok := in.(*ssa.Select)
		if !ok || sel.Blocking {
			return false
		}
		for _, st := range sel.States {
			if st.Dir == types.RecvOnly && strings.HasSuffix(c.P.LoadedField(ir.Resolve(st.Chan)), ".chQqueue") {
				return true
			}
		}
		return false
	}
	bad := ""
	if len(disp.Blocks) > 0 && len(disp.Blocks[0].Instrs) > 0 {
		vis, _ := fi.Reach([]ssa.Instruction{disp.Blocks[0].Instrs[0]}, isDrain)
		for in := range vis {
			if r, ok := in.(*ssa.Return); ok {
				bad = "the dispatcher can return at " + c.Pos(r) + " without a non-blocking drain of the queue: when Stop closes the close channel while tasks are queued and no worker is alive (a bound of 2 or less, or all workers just exited), those tasks never run"
			}
		}
	}
	c.Cond(bad == "", "C19.O11", key, c.FnPos(disp), "return only behind a non-blocking select on the queue", bad)
}
