package props

import (
	"fmt"
	"strings"

	"golang.org/x/tools/go/ssa"

	"verif/internal/eng"
	"verif/internal/ir"
)

func init() {
	register(&Property{
		ID:          "C16",
		Engines:     []string{"cfg", "lockset"},
		Explanation: "Deadline bookkeeping (timing itself is wall-clock and not decidable): a timer is created only on the field-is-nil edge and stored in that field, otherwise Reset; every Stop clears the field; all under Conn.mux, and the field addresses flow only to setDeadline (O1); the duration is time.Until(t) of the caller's t and a zero t takes the clear edge (O2); each timer's callback closes with its own timeout error (O3); closeWithError stops and clears both timers in the critical section that sets closed (O4); Write/Writev stop and clear the write timer on the queue-empty edge before unlocking (O5); the keep-alive renewal sites exist and use time.Now().Add(KeepaliveTime) (O6). DialAsyncTimeout arms the dial timer before the connection is registered with its poller (O7). The dial completion clears the dial timer before the user's callback (O8). The dial timer is armed only for a pending connect (O11). Handshake deadline cleared (O12); timer sites independent of the queue (O13); ClientConn.onResponse deadlines (O14); renewal on every message (O15). flush cancels the write deadline on its drained edge (O17).",
		NotCovered:  "timing; the race between a firing timer and Reset; the HTTP client's per-request deadlines (ClientConn.onResponse)",
		Run:         runC16,
	})
}

// timerPlace names the cell a timer pointer lives in: a Conn field or the
// `timer **time.Timer` parameter of setDeadline.
func (c *Ctx) timerPlace(addr ssa.Value) string {
	switch a := ir.Root(addr).(type) {
	case *ssa.FieldAddr:
		k := c.P.FieldKey(a)
		if k == fConnRTimer || k == fConnWTimer {
			return k
		}
	case *ssa.Parameter:
		if a.Type().String() == "**time.Timer" {
			return "*" + a.Name()
		}
	}
	return ""
}

func (c *Ctx) timerPlaceOfValue(v ssa.Value) string {
	if a, ok := ir.IsLoad(ir.Unconv(v)); ok {
		return c.timerPlace(a)
	}
	return ""
}

func runC16(c *Ctx) {
	c.Rule("C16.O1", "E4,E1", "AfterFunc only on the nil edge of its cell and stored there; Reset on the non-nil edge; Stop followed by clearing the cell; timer fields guarded by Conn.mux; their addresses flow only to setDeadline", 36)
	c.Rule("C16.O2", "E4", "durations are time.Until(t) of the caller's t; creation/reset on the !t.IsZero() edge, stop/clear on the zero edge", 6)
	c.Rule("C16.O3", "E5,E4", "read timer -> errReadTimeout, write timer -> errWriteTimeout, dial timer -> ErrDialTimeout; callbacks only call closeWithError", 5)
	c.Rule("C16.O4", "E4", "closeWithError stops and clears both timers in the critical section that sets closed", 1)
	c.Rule("C16.O5", "E4", "Write/Writev: the queue-empty edge stops and clears the write timer before the unlock", 2)
	c.Rule("C16.O7", "E4", "DialAsyncTimeout arms the dial timer before the connection is registered with its poller: nothing arms a timer after the registration, when the completion that clears it may already have run", 1)
	c.Rule("C16.O8", "E4", "the dial completion clears the dial timer before it runs the user's callback: a deadline the callback sets must survive the callback's return", 1)
	c.Rule("C16.O9", "E5,E4", "who may cancel the write deadline: only setDeadline, teardown, and Write/Writev on their exact queue-empty edge; any other function that clears the write timer must do so on an exact queue-empty edge too", 1)
	c.Rule("C16.O10", "E4", "Upgrade hands the connection over with the right read deadline on both edges of KeepaliveTime > 0: renewed when positive, cleared (the HTTP keep-alive deadline cancelled) otherwise; the deadline is set on the connection the WebSocket reads from, not on the hijacked one", 2)
	c.Rule("C16.O11", "E4", "the dial timer is armed only for a connect that is still pending (where Conn.onConnected is installed): a connect that completed at once has no poller completion to clear it, and the timer would close the established connection", 1)
	c16DialTimerPending(c, "C16.O11")
	c.Rule("C16.O12", "E4", "the write deadline the Upgrader arms for the handshake answer is cleared on every successful return of commResponse: on a connection whose writes do not clear it themselves (blocking mode, std net.Conn) it would fail every write after HandshakeTimeout", 1)
	c16HandshakeDeadline(c)
	c.Rule("C16.O13", "E4", "creating or renewing a deadline timer does not depend on the write queue: no AfterFunc / Reset site of SetDeadline, SetReadDeadline, SetWriteDeadline or setDeadline sits behind a queue test (a renewed deadline must postpone an armed timer whether or not a backlog exists)", 2)
	c.Rule("C16.O14", "E4", "ClientConn.onResponse: with no request left the read deadline is set on both edges of IdleConnTimeout > 0 (idle timeout, or cleared: the answered request's deadline must not survive); the next pipelined request's deadline is armed only on the Timeout > 0 edge (with no timeout configured there is no deadline to arm, and the send time itself is already in the past)", 2)
	c.Rule("C16.O15", "E4", "the WebSocket keep-alive is renewed by every message: the renewal in handleWsMessage is guarded by KeepaliveTime > 0 and by nothing that depends on the clock or on earlier renewals", 1)
	c16Round5(c)
	c.Rule("C16.O16", "E4", "a client request's deadline is armed on the connection that is read: ClientConn.Do sets the read deadline on ClientConn.conn on the Timeout > 0 edge both for a request on an open connection and for the request that dials (a deadline set on the std connection before the transfer to the poller is lost with it); on an open connection with no request Timeout the (idle) read deadline is cleared before the request is sent", 2)
	c16ClientDeadline(c)
	c.Rule("C16.O17", "E4,E1", "flush cancels the write deadline on the edge on which it has drained the queue (the write the deadline was set for is complete), under Conn.mux", 1)
	c16FlushMeetsTheDeadline(c)
	c.Rule("C16.O6", "E5,E4", "keep-alive renewal sites exist and pass time.Now().Add(<engine>.KeepaliveTime)", 7)

	L := c.Locks()
	nb := c.nbioFuncs()

	// ------------------------------------------------------------------ O1 (guarded-by)
	{
		table := []eng.Guard{
			{Field: fConnRTimer, Lock: fConnMux, Reads: true, Writes: true},
			{Field: fConnWTimer, Lock: fConnMux, Reads: true, Writes: true},
		}
		for _, s := range eng.CheckGuarded(L, c.libFuncs(), table, nil) {
			key := fmt.Sprintf("%s: %s %s", c.P.FuncName(s.Fn), rw(s.Access.Write), s.Access.Field)
			if !s.Held && s.Access.Addr != nil && c.freshUnpublished(s.Fn, s.Access.In, s.Access.Addr.X) {
				c.OK("C16.O1", key, c.Pos(s.Access.In), "initialisation of a connection allocated in this function and not yet registered with a poller")
				continue
			}
			c.Cond(s.Held, "C16.O1", key, c.Pos(s.Access.In), "Conn.mux held", s.Access.Field+" accessed without Conn.mux")
		}
		// address-taken: only as the first argument of setDeadline
		for _, f := range c.libFuncs() {
			for _, a := range c.P.FieldAccesses(f, func(k string) bool { return k == fConnRTimer || k == fConnWTimer }) {
				if !a.AddrTaken {
					continue
				}
				key := fmt.Sprintf("%s: &%s", c.P.FuncName(f), a.Field)
				ok := false
				if cs, isCall := ir.AsCall(a.In); isCall && c.P.CalleeName(cs.Common) == "(*nbio.Conn).setDeadline" {
					ok = true
				}
				c.Cond(ok, "C16.O1", key, c.Pos(a.In), "flows only into setDeadline", "the address of a timer field escapes to "+fmt.Sprintf("%T", a.In))
			}
		}
		// dereferences of the parameter cell inside setDeadline hold the lock
		if sd := c.Fn("C16.O1", "(*nbio.Conn).setDeadline"); sd != nil {
			n := 0
			bad := ""
			for _, b := range sd.Blocks {
				for _, in := range b.Instrs {
					var addr ssa.Value
					switch x := in.(type) {
					case *ssa.UnOp:
						if a, ok := ir.IsLoad(x); ok {
							addr = a
						}
					case *ssa.Store:
						addr = x.Addr
					}
					if addr == nil || !strings.HasPrefix(c.timerPlace(addr), "*") {
						continue
					}
					n++
					if !L.HeldClass(in, fConnMux) {
						bad = "the timer cell is dereferenced at " + c.Pos(in) + " without Conn.mux"
					}
				}
			}
			c.Cond(bad == "" && n > 0, "C16.O1", fnKey(c.P, sd, "cell dereferences under the mutex"), c.FnPos(sd), fmt.Sprintf("%d dereferences", n), bad)
		}
	}

	// ------------------------------------------------------------------ O1/O2: create / reset / stop sites
	nCreate, nReset, nStop := 0, 0, 0
	for _, f := range nb {
		fi := c.P.Info(f)
		for _, cs := range c.P.Calls(f, nil) {
			name := c.P.CalleeName(cs.Common)
			switch name {
			case "(*timer.Timer).AfterFunc":
				nCreate++
				key := c.siteKey(f, "AfterFunc", nCreate)
				// stored where?
				place := ""
				if refs := cs.Value().Referrers(); refs != nil {
					for _, r := range *refs {
						if st, ok := r.(*ssa.Store); ok && st.Val == cs.Value() {
							place = c.timerPlace(st.Addr)
						}
					}
				}
				bad := ""
				freshCell := false
				if refs := cs.Value().Referrers(); refs != nil {
					for _, r := range *refs {
						if st, ok := r.(*ssa.Store); ok && st.Val == cs.Value() {
							if fa, isFA := st.Addr.(*ssa.FieldAddr); isFA && c.freshUnpublished(f, st, fa.X) && len(c.P.StoresTo(f, place)) == 1 {
								freshCell = true
							}
						}
					}
				}
				if place == "" {
					bad = "the new timer is not stored in a timer cell: it could never be stopped"
				} else if freshCell {
					// the cell of a connection allocated here and not yet registered is nil by construction
				} else if !fi.HasFact(cs.In, func(ft ir.Fact) bool {
					x, isNil, ok := ir.NilTest(ft.Cond, ft.Truth)
					return ok && isNil && c.timerPlaceOfValue(x) == place
				}) {
					bad = "a timer is created for " + place + " off the cell-is-nil edge: the previous timer stays live and fires at its old deadline"
				}
				c.Cond(bad == "", "C16.O1", key, c.Pos(cs.In), "created on the nil edge of "+place+" and stored there", bad)
				c.checkDuration(fi, f, cs, cs.Common.Args[1], "C16.O2", c.siteKey(f, "AfterFunc duration", nCreate), false)
			case "(*time.Timer).Reset":
				place := c.timerPlaceOfValue(cs.Common.Args[0])
				if place == "" {
					continue
				}
				nReset++
				key := c.siteKey(f, "Reset", nReset)
				ok := fi.HasFact(cs.In, func(ft ir.Fact) bool {
					x, isNil, ok := ir.NilTest(ft.Cond, ft.Truth)
					return ok && !isNil && c.timerPlaceOfValue(x) == place
				})
				c.Cond(ok, "C16.O1", key, c.Pos(cs.In), "Reset on the non-nil edge of "+place, "Reset without the non-nil test of "+place)
				c.checkDuration(fi, f, cs, cs.Common.Args[1], "C16.O2", c.siteKey(f, "Reset duration", nReset), false)
			case "(*time.Timer).Stop":
				place := c.timerPlaceOfValue(cs.Common.Args[0])
				if place == "" {
					continue
				}
				nStop++
				key := c.siteKey(f, "Stop", nStop)
				cleared := false
				after := false
				for _, in := range cs.In.Block().Instrs {
					if in == cs.In {
						after = true
						continue
					}
					if st, ok := in.(*ssa.Store); ok && after && ir.IsNilConst(st.Val) && c.timerPlace(st.Addr) == place {
						cleared = true
					}
				}
				c.Cond(cleared, "C16.O1", key, c.Pos(cs.In), "Stop paired with "+place+" = nil", "the timer in "+place+" is stopped but the cell is not cleared: a later deadline would Reset a dead timer's cell or skip creation")
			}
		}
	}
	if nCreate < 3 || nReset < 3 || nStop < 7 {
		c.Unres("C16.O1", "timer sites", fmt.Sprintf("create=%d reset=%d stop=%d (expected >=3, >=3, >=7)", nCreate, nReset, nStop))
	}

	// ------------------------------------------------------------------ O3
	{
		wantErr := map[string]string{fConnRTimer: "nbio.errReadTimeout", fConnWTimer: "nbio.errWriteTimeout"}
		// SetDeadline's own closures
		if sd := c.Fn("C16.O3", "(*nbio.Conn).SetDeadline"); sd != nil {
			for _, cs := range c.P.CallsNamed(sd, "(*timer.Timer).AfterFunc") {
				place := ""
				if refs := cs.Value().Referrers(); refs != nil {
					for _, r := range *refs {
						if st, ok := r.(*ssa.Store); ok && st.Val == cs.Value() {
							place = c.timerPlace(st.Addr)
						}
					}
				}
				key := fnKey(c.P, sd, "callback of "+place)
				mc, ok := cs.Common.Args[2].(*ssa.MakeClosure)
				if !ok {
					c.Bad("C16.O3", key, c.Pos(cs.In), "callback is not a local closure")
					continue
				}
				got, bad := c.closeErrOf(mc.Fn.(*ssa.Function))
				if bad == "" && got != wantErr[place] {
					bad = "the " + place + " callback closes with " + got + ", expected " + wantErr[place]
				}
				c.Cond(bad == "", "C16.O3", key, c.Pos(cs.In), "closeWithError("+got+")", bad)
			}
		}
		// setDeadline call sites: (cell, error) pairs
		pairs := map[string]string{
			"(*nbio.Conn).SetReadDeadline":    fConnRTimer + "|nbio.errReadTimeout",
			"(*nbio.Conn).SetWriteDeadline":   fConnWTimer + "|nbio.errWriteTimeout",
			"(*nbio.Engine).DialAsyncTimeout": fConnWTimer + "|nbio.ErrDialTimeout",
		}
		seen := 0
		for _, f := range c.libFuncs() {
			for _, cs := range c.P.CallsNamed(f, "(*nbio.Conn).setDeadline") {
				seen++
				outer := c.P.FuncName(ir.Outermost(f))
				key := outer + ": setDeadline(cell, error)"
				got := c.timerPlace(cs.Common.Args[1]) + "|" + c.P.Desc(cs.Common.Args[2])
				want, known := pairs[outer]
				c.Cond(known && got == want, "C16.O3", key, c.Pos(cs.In), got, "setDeadline is called with "+got+", expected "+want)
			}
		}
		// the dial timer may also be armed directly on the not yet registered connection
		if da := c.Fn("C16.O3", "(*nbio.Engine).DialAsyncTimeout"); da != nil {
			for _, cs := range c.P.CallsNamed(da, "(*timer.Timer).AfterFunc") {
				place := ""
				if refs := cs.Value().Referrers(); refs != nil {
					for _, r := range *refs {
						if st, ok := r.(*ssa.Store); ok && st.Val == cs.Value() {
							place = c.timerPlace(st.Addr)
						}
					}
				}
				seen++
				key := c.P.FuncName(da) + ": dial timer callback"
				mc, ok := cs.Common.Args[2].(*ssa.MakeClosure)
				if !ok {
					c.Bad("C16.O3", key, c.Pos(cs.In), "callback is not a local closure")
					continue
				}
				got, bad := c.closeErrOf(mc.Fn.(*ssa.Function))
				if bad == "" && (got != "nbio.ErrDialTimeout" || place != fConnWTimer) {
					bad = "the dial timer is stored in " + place + " and closes with " + got + ", expected " + fConnWTimer + " and nbio.ErrDialTimeout"
				}
				c.Cond(bad == "", "C16.O3", key, c.Pos(cs.In), "closeWithError(nbio.ErrDialTimeout), stored in the write-timer cell that the completion clears", bad)
			}
		}
		if seen != 3 {
			c.Unres("C16.O3", "setDeadline call sites", fmt.Sprintf("found %d, expected 3", seen))
		}
		if sd := c.Fn("C16.O3", "(*nbio.Conn).setDeadline"); sd != nil {
			for _, g := range ir.Closures(sd) {
				got, bad := c.closeErrOf(g)
				if bad == "" && !strings.HasPrefix(got, "param#") {
					bad = "the callback closes with " + got + " instead of the error passed by the caller"
				}
				c.Cond(bad == "", "C16.O3", fnKey(c.P, sd, "callback"), c.FnPos(g), "closeWithError(errClose)", bad)
			}
		}
	}

	// ------------------------------------------------------------------ O4
	if cw := c.Fn("C16.O4", "(*nbio.Conn).closeWithError"); cw != nil {
		fi := c.P.Info(cw)
		var set ssa.Instruction
		for _, st := range c.P.StoresTo(cw, fConnClosed) {
			if isStoreTrue(st, c.P, fConnClosed) {
				set = st
			}
		}
		bad := ""
		if set == nil {
			bad = "closed=true not found"
		} else {
			for _, field := range []string{fConnRTimer, fConnWTimer} {
				ok := false
				for _, st := range c.P.StoresTo(cw, field) {
					if !ir.IsNilConst(st.Val) {
						continue
					}
					if same, _ := L.SameRegion(fi, fConnMux, set, st); same && fi.Dominates(set, st) {
						// a Stop in the same block before it
						for _, in := range st.Block().Instrs {
							if cs, isCall := ir.AsCall(in); isCall && c.P.CalleeName(cs.Common) == "(*time.Timer).Stop" && c.timerPlaceOfValue(cs.Common.Args[0]) == field {
								ok = true
							}
						}
					}
				}
				if !ok {
					bad = field + " is not stopped and cleared in the critical section that sets closed: a stale timer keeps the closed connection's callback alive"
				}
			}
		}
		c.Cond(bad == "", "C16.O4", fnKey(c.P, cw, "timers cancelled on close"), c.FnPos(cw), "both timers stopped and cleared with closed=true", bad)
	}

	// ------------------------------------------------------------------ O5
	for _, name := range []string{fnWriteAPI, fnWritevAPI} {
		fn := c.Fn("C16.O5", name)
		if fn == nil {
			continue
		}
		fi := c.P.Info(fn)
		bad := "the write timer is not cleared on the queue-empty edge"
		for _, st := range c.P.StoresTo(fn, fConnWTimer) {
			if !ir.IsNilConst(st.Val) {
				continue
			}
			if fi.HasFact(st, func(ft ir.Fact) bool { e, ok := c.queueTest(ft); return ok && e }) && L.HeldClass(st, fConnMux) {
				bad = ""
				// "exactly": the other edge of that test must mean "something is queued"
				for _, ft := range fi.Facts(st) {
					if e, ok := c.queueTest(ft); ok && e && ft.If != nil {
						if e2, ok2 := c.queueTest(ir.Fact{If: ft.If, Cond: ft.Cond, Truth: !ft.Truth}); !ok2 || e2 {
							bad = "the write timer is cleared only when " + c.P.Desc(ft.Cond) + " (" + c.Pos(ft.If) + "), which is not 'queue empty': flush leaves an empty non-nil slice, so after a drained backlog a complete Write no longer cancels the deadline"
						}
					}
				}
			}
		}
		// the queue state that justifies the clear is the one after this call's own write:
		// nothing that can enqueue may still run after the clear
		_, enq := c.writeSinks()
		for _, st := range c.P.StoresTo(fn, fConnWTimer) {
			if !ir.IsNilConst(st.Val) {
				continue
			}
			vis, _ := fi.Reach([]ssa.Instruction{st}, nil)
			for in := range vis {
				if cs, ok := ir.AsCall(in); ok {
					if callee := ir.StaticCallee(cs.Common); callee != nil && enq[callee] {
						bad = "the write timer is cleared at " + c.Pos(st) + " before " + c.P.FuncName(callee) + " runs (" + c.Pos(in) + "): 'queue empty' is tested before this call's own bytes can be queued, so a short write leaves a backlog with no deadline"
					}
				}
			}
		}
		// and no clear on the non-empty edge
		for _, st := range c.P.StoresTo(fn, fConnWTimer) {
			if fi.HasFact(st, func(ft ir.Fact) bool { e, ok := c.queueTest(ft); return ok && !e }) {
				bad = "the write timer is cleared although a backlog remains"
			}
		}
		c.Cond(bad == "", "C16.O5", fnKey(c.P, fn, "write deadline auto-clear"), c.FnPos(fn), "cleared exactly on the queue-empty edge", bad)
	}

	// ------------------------------------------------------------------ O7
	if fn := c.Fn("C16.O7", "(*nbio.Engine).DialAsyncTimeout"); fn != nil {
		fi := c.P.Info(fn)
		var regs []ssa.Instruction
		for _, cs := range c.P.Calls(fn, func(name string, _ ir.CallSite) bool {
			return name == "(*nbio.Engine).addDialer" || name == "(*nbio.poller).addDialer"
		}) {
			regs = append(regs, cs.In)
		}
		key := fnKey(c.P, fn, "dial timer armed before registration")
		if len(regs) == 0 {
			c.Unres("C16.O7", key, "registration call not found")
		} else {
			vis, _ := fi.Reach(regs, nil)
			bad := ""
			nArm := 0
			for _, cs := range c.P.Calls(fn, func(name string, _ ir.CallSite) bool {
				return name == "(*nbio.Conn).setDeadline" || name == "(*timer.Timer).AfterFunc" || name == "(*nbio.Conn).SetWriteDeadline" || name == "(*nbio.Conn).SetDeadline"
			}) {
				if cs.In.Parent() != fn {
					continue
				}
				nArm++
				if vis[cs.In] {
					bad = "the dial timer is armed at " + c.Pos(cs.In) + " after the connection was registered with its poller (" + c.Pos(regs[0]) + "): a connect that completes at once clears a timer that does not exist yet, and the timer armed afterwards closes the established connection with the dial-timeout error"
				}
			}
			if nArm == 0 && bad == "" {
				bad = "no dial timer is armed"
			}
			c.Cond(bad == "", "C16.O7", key, c.FnPos(fn), fmt.Sprintf("%d arming site(s), all before the registration", nArm), bad)
		}
	}

	// ------------------------------------------------------------------ O8
	if fn := c.Fn("C16.O8", "(*nbio.Engine).DialAsyncTimeout"); fn != nil {
		bad := "the completion wrapper that clears the dial timer was not found"
		for _, g := range ir.Closures(fn) {
			var clears, user []ssa.Instruction
			for _, h := range ir.WithClosures(g) {
				for _, cs := range c.P.Calls(h, nil) {
					switch name := c.P.CalleeName(cs.Common); {
					case name == "(*nbio.Conn).SetWriteDeadline" || name == "(*nbio.Conn).setDeadline":
						clears = append(clears, cs.In)
					case strings.HasPrefix(name, "dyn:") && strings.Contains(c.P.Desc(cs.Common.Value), "param#"):
						user = append(user, cs.In)
					}
				}
			}
			if len(clears) == 0 || len(user) == 0 {
				continue
			}
			bad = ""
			fi := c.P.Info(g)
			for _, cl := range clears {
				if _, isDefer := cl.(*ssa.Defer); isDefer || cl.Parent() != g {
					bad = "the dial timer is cleared at " + c.Pos(cl) + " in a deferred / nested call, i.e. after the user's connect callback: a write deadline set inside the callback is wiped when it returns"
					continue
				}
				for _, u := range user {
					if fi.CanReach(u, cl) {
						bad = "the dial timer is cleared at " + c.Pos(cl) + " after the user's connect callback (" + c.Pos(u) + "): a write deadline set inside the callback is wiped when it returns"
					}
				}
			}
			for _, u := range user {
				preceded := false
				for _, cl := range clears {
					if cl.Parent() == g && fi.CanReach(cl, u) {
						preceded = true
					}
				}
				// a callback site with no clear before it must be the failure report
				if !preceded && u.Parent() == g && !fi.HasFact(u, func(ft ir.Fact) bool {
					x, isNil, ok := ir.NilTest(ft.Cond, ft.Truth)
					return ok && !isNil && x.Type().String() == "error"
				}) {
					bad = "the user's connect callback at " + c.Pos(u) + " can report success without the dial timer having been cleared first"
				}
			}
		}
		c.Cond(bad == "", "C16.O8", fnKey(c.P, fn, "dial timer cleared before the callback"), c.FnPos(fn), "SetWriteDeadline(zero) precedes onConnected", bad)
	}

	// ------------------------------------------------------------------ O9
	{
		bad := ""
		n := 0
		allowed := map[string]bool{"(*nbio.Conn).setDeadline": true, "(*nbio.Conn).closeWithErrorWithoutLock": true, "(*nbio.Conn).closeWithError": true, "(*nbio.Conn).SetDeadline": true, fnWriteAPI: true, fnWritevAPI: true}
		for _, f := range nb {
			name := c.P.FuncName(ir.Outermost(f))
			if allowed[name] {
				continue
			}
			fi := c.P.Info(f)
			for _, st := range c.P.StoresTo(f, fConnWTimer) {
				if !ir.IsNilConst(st.Val) {
					continue
				}
				if _, fresh := ir.Root(st.Addr.(*ssa.FieldAddr).X).(*ssa.Alloc); fresh {
					continue
				}
				n++
				exact := false
				_, enq := c.writeSinks()
				for _, ft := range fi.Facts(st) {
					if e, ok := c.queueTest(ft); ok && e && ft.If != nil {
						if e2, ok2 := c.queueTest(ir.Fact{If: ft.If, Cond: ft.Cond, Truth: !ft.Truth}); ok2 && !e2 {
							exact = true
							// the test must still be true at the clear: nothing may have been queued in between
							vis, _ := fi.Reach([]ssa.Instruction{ft.If}, func(in ssa.Instruction) bool { return in == ssa.Instruction(st) })
							for in := range vis {
								if cs, isCall := ir.AsCall(in); isCall {
									if callee := ir.StaticCallee(cs.Common); callee != nil && (enq[callee] || callee == c.Core().EnqueueFile) && fi.CanReach(in, st) {
										exact = false
									}
								}
							}
						}
					}
				}
				if !exact {
					bad = name + " cancels the write deadline at " + c.Pos(st) + " without knowing that nothing is queued: if part of its data was queued (EAGAIN), the backlog is left without a deadline and a stalled peer is never closed"
				}
			}
		}
		c.Cond(bad == "", "C16.O9", "who may cancel the write deadline", "", fmt.Sprintf("%d clearing site(s) outside setDeadline / teardown / Write / Writev", n), bad)
	}

	// ------------------------------------------------------------------ O10
	if up := c.Fn("C16.O10", "(*websocket.Upgrader).Upgrade"); up != nil {
		fi := c.P.Info(up)
		var renew, clear int
		wrongRecv := ""
		for _, cs := range c.P.Calls(up, func(name string, _ ir.CallSite) bool { return strings.HasSuffix(name, ".SetReadDeadline") }) {
			if cs.In.Parent() != up {
				continue
			}
			arg := cs.Common.Args[len(cs.Common.Args)-1]
			pos, known := false, false
			for _, ft := range fi.Facts(cs.In) {
				cmp, ok := ir.DecodeIntCmp(ft.Cond)
				if !ok || !strings.HasSuffix(c.P.LoadedField(cmp.Expr), ".KeepaliveTime") {
					continue
				}
				known = true
				pos = cmp.Holds(1) == ft.Truth && cmp.Holds(0) != ft.Truth
			}
			if !known {
				continue
			}
			if cs.Common.IsInvoke() {
				if rf := c.P.LoadedField(ir.Resolve(cs.Common.Value)); rf != "websocket.Conn.Conn" {
					wrongRecv = "the read deadline is set at " + c.Pos(cs.In) + " on " + c.P.Desc(ir.Resolve(cs.Common.Value)) + ", not on the connection the WebSocket reads from (websocket.Conn.Conn): for a connection transferred to the poller that is the std connection that was just closed by the transfer, so a silent peer is never closed by the keep-alive"
				}
			}
			if _, isZero := ir.Resolve(arg).(*ssa.Const); isZero && !pos {
				clear++
			}
			if pos && c.isNowPlus(arg, "websocket.commonFields.KeepaliveTime") {
				renew++
			}
		}
		bad := ""
		switch {
		case renew == 0:
			bad = "Upgrade does not renew the read deadline when KeepaliveTime > 0"
		case clear == 0:
			bad = "Upgrade does not clear the read deadline when KeepaliveTime <= 0: the HTTP engine's keep-alive timer stays armed and closes the upgraded connection one keep-alive period after the handshake"
		}
		c.Cond(bad == "", "C16.O10", fnKey(c.P, up, "read deadline on both KeepaliveTime edges"), c.FnPos(up), fmt.Sprintf("%d renew, %d clear", renew, clear), bad)
		c.Cond(wrongRecv == "", "C16.O10", fnKey(c.P, up, "deadline set on the connection that is read"), c.FnPos(up), "receiver is the WebSocket connection's own net.Conn", wrongRecv)
	}

	// ------------------------------------------------------------------ O6
	type ka struct {
		fn    string
		field string // the KeepaliveTime field expected
		want  int
	}
	for _, k := range []ka{
		{"(*nbhttp.Engine).AddConnNonTLSNonBlocking", "nbhttp.Config.KeepaliveTime", 1},
		{"(*nbhttp.Engine).AddConnNonTLSBlocking", "nbhttp.Config.KeepaliveTime", 1},
		{"(*nbhttp.Engine).AddConnTLSNonBlocking", "nbhttp.Config.KeepaliveTime", 1},
		{"(*nbhttp.Engine).AddConnTLSBlocking", "nbhttp.Config.KeepaliveTime", 1},
		{"(*nbhttp.ServerProcessor).flushResponse", "nbhttp.Config.KeepaliveTime", 1},
		{"(*websocket.Conn).handleWsMessage", "websocket.commonFields.KeepaliveTime", 1},
		{"(*websocket.Upgrader).Upgrade", "websocket.commonFields.KeepaliveTime", 1},
	} {
		fn := c.Fn("C16.O6", k.fn)
		if fn == nil {
			continue
		}
		n := 0
		for _, g := range ir.WithClosures(fn) {
			for _, cs := range c.P.Calls(g, nil) {
				name := c.P.CalleeName(cs.Common)
				if !strings.HasSuffix(name, ".SetReadDeadline") {
					continue
				}
				arg := cs.Common.Args[len(cs.Common.Args)-1]
				if c.isNowPlus(arg, k.field) {
					n++
				}
			}
		}
		c.Cond(n >= k.want, "C16.O6", fnKey(c.P, fn, "keep-alive renewal"), c.FnPos(fn), fmt.Sprintf("%d renewal site(s) with time.Now().Add(%s)", n, k.field),
			"no SetReadDeadline(time.Now().Add("+k.field+")) in "+k.fn+": idle connections would never (or immediately) time out")
	}
	// flushResponse: renewal only on the keep-alive, not-upgraded edge
	if fr := c.Fn("C16.O6", "(*nbhttp.ServerProcessor).flushResponse"); fr != nil {
		fi := c.P.Info(fr)
		bad := ""
		for _, cs := range c.P.Calls(fr, nil) {
			if !strings.HasSuffix(c.P.CalleeName(cs.Common), ".SetReadDeadline") {
				continue
			}
			notClose := fi.HasFact(cs.In, func(ft ir.Fact) bool {
				k, set, ok := c.P.BoolFieldTest(ft.Cond, ft.Truth)
				return ok && k == "net/http.Request.Close" && !set
			})
			notUpgraded := fi.HasFact(cs.In, func(ft ir.Fact) bool {
				x, isNil, ok := ir.NilTest(ft.Cond, ft.Truth)
				return ok && isNil && c.P.LoadedField(x) == "nbhttp.Parser.ParserCloser"
			})
			if !notClose || !notUpgraded {
				bad = "the keep-alive deadline is renewed off the (keep-alive, not upgraded) edge"
			}
		}
		c.Cond(bad == "", "C16.O6", fnKey(c.P, fr, "renewal edge"), c.FnPos(fr), "only when !req.Close and not upgraded", bad)
	}
}

// checkDuration verifies that dur is time.Until(t) for the function's
// time.Time parameter and that the site is on the !t.IsZero() edge.
func (c *Ctx) checkDuration(fi *ir.FnInfo, f *ssa.Function, cs ir.CallSite, dur ssa.Value, ob, key string, _ bool) {
	var pt *ssa.Parameter
	for _, p := range f.Params {
		if p.Type().String() == "time.Time" {
			pt = p
		}
	}
	if pt == nil {
		return // not a deadline setter (no caller-supplied time)
	}
	bad := ""
	call, ok := ir.Resolve(dur).(*ssa.Call)
	switch {
	case ok && c.P.CalleeName(&call.Call) == "time.Until" && ir.Resolve(call.Call.Args[0]) == ssa.Value(pt):
	case ok && c.P.CalleeName(&call.Call) == "(time.Time).Sub" && ir.Resolve(call.Call.Args[0]) == ssa.Value(pt):
		if n, isNow := ir.Resolve(call.Call.Args[1]).(*ssa.Call); !isNow || c.P.CalleeName(&n.Call) != "time.Now" {
			bad = "duration is " + c.P.Desc(dur)
		}
	default:
		bad = "the timer duration is " + c.P.Desc(dur) + ", not time.Until(t) of the caller's deadline: the timer could fire early or late"
	}
	if bad == "" && !fi.HasFact(cs.In, func(ft ir.Fact) bool {
		call, ok := ft.Cond.(*ssa.Call)
		return ok && c.P.CalleeName(&call.Call) == "(time.Time).IsZero" && ir.Resolve(call.Call.Args[0]) == ssa.Value(pt) && !ft.Truth
	}) {
		bad = "a timer is armed without the !t.IsZero() test: the zero time would close the connection at once instead of clearing the deadline"
	}
	c.Cond(bad == "", ob, key, c.Pos(cs.In), "time.Until(t) on the non-zero edge", bad)
}

// closeErrOf returns the descriptor of the error a timer callback closes with;
// the callback must consist of exactly that closeWithError call.
func (c *Ctx) closeErrOf(g *ssa.Function) (string, string) {
	var got string
	n := 0
	for _, cs := range c.P.Calls(g, nil) {
		n++
		if c.P.CalleeName(cs.Common) != "(*nbio.Conn).closeWithError" {
			return "", "the timer callback calls " + c.P.CalleeName(cs.Common)
		}
		got = c.P.Desc(cs.Common.Args[1])
	}
	if n != 1 {
		return "", fmt.Sprintf("the timer callback makes %d calls, expected exactly closeWithError", n)
	}
	return got, ""
}

// isNowPlus recognises time.Now().Add(<load of field>).
func (c *Ctx) isNowPlus(v ssa.Value, field string) bool {
	call, ok := ir.Resolve(v).(*ssa.Call)
	if !ok || c.P.CalleeName(&call.Call) != "(time.Time).Add" || len(call.Call.Args) != 2 {
		return false
	}
	now, ok := ir.Resolve(call.Call.Args[0]).(*ssa.Call)
	if !ok || c.P.CalleeName(&now.Call) != "time.Now" {
		return false
	}
	return c.P.LoadedField(ir.Resolve(call.Call.Args[1])) == field
}

// freshUnpublished: obj is a Conn allocated in fn (composite literal) and the
// instruction executes before fn hands it to a poller (no registration call can
// precede it).
func (c *Ctx) freshUnpublished(fn *ssa.Function, at ssa.Instruction, obj ssa.Value) bool {
	if at.Parent() != fn {
		return false
	}
	a, ok := ir.Resolve(obj).(*ssa.Alloc)
	if !ok || !a.Heap || a.Parent() != fn {
		return false
	}
	fi := c.P.Info(fn)
	for _, cs := range c.P.Calls(fn, func(name string, _ ir.CallSite) bool {
		return name == "(*nbio.Engine).addDialer" || name == "(*nbio.poller).addDialer" || name == "(*nbio.Engine).AddConn" || name == "(*nbio.poller).addConn"
	}) {
		if cs.In.Parent() == fn && fi.CanReach(cs.In, at) {
			return false
		}
	}
	return true
}

// c16DialTimerPending: the dial timer closes the connection with
// ErrDialTimeout.  For a pending connect the poller's completion clears it
// under the connection's mutex; a connect that succeeded at once is reported
// through the engine's serial queue, arbitrarily later, so a timer armed for it
// can fire first and close an established connection (whose dial is then
// reported as a success).  Every arming site must therefore hold the
// conditions under which the pending callback is installed.
func c16DialTimerPending(c *Ctx, ob string) {
	fn := c.Fn(ob, "(*nbio.Engine).DialAsyncTimeout")
	if fn == nil {
		return
	}
	fi := c.P.Info(fn)
	key := fnKey(c.P, fn, "dial timer only for a pending connect")
	var pend []ssa.Instruction
	for _, st := range c.P.StoresTo(fn, fConnOnConn) {
		if !ir.IsNilConst(st.Val) {
			pend = append(pend, st)
		}
	}
	if len(pend) != 1 {
		c.Unres(ob, key, fmt.Sprintf("%d store(s) of the pending callback, expected 1", len(pend)))
		return
	}
	want := fi.Facts(pend[0])
	bad := ""
	nArm := 0
	for _, cs := range c.P.Calls(fn, func(name string, _ ir.CallSite) bool {
		return name == "(*nbio.Conn).setDeadline" || name == "(*timer.Timer).AfterFunc" || name == "(*nbio.Conn).SetWriteDeadline" || name == "(*nbio.Conn).SetDeadline"
	}) {
		if cs.In.Parent() != fn {
			continue
		}
		nArm++
		for _, w := range want {
			wc, wt := ir.StripNot(w.Cond, w.Truth)
			if !fi.HasFact(cs.In, func(ft ir.Fact) bool {
				fc, ftr := ir.StripNot(ft.Cond, ft.Truth)
				return ftr == wt && (fc == wc || c.P.Desc(fc) == c.P.Desc(wc) && c.P.Desc(wc) != "")
			}) {
				bad = "the dial timer is armed at " + c.Pos(cs.In) + " also when the connect is not pending (the condition guarding the installation of Conn.onConnected at " + c.Pos(pend[0]) + " does not hold there): a connect that completed at once is reported through the engine's queue, the timer can fire before that and close the established connection with the dial-timeout error while the dial is reported as a success"
			}
		}
	}
	if nArm == 0 && bad == "" {
		bad = "no dial timer is armed"
	}
	c.Cond(bad == "", ob, key, c.FnPos(fn), fmt.Sprintf("%d arming site(s), each under the %d condition(s) of the pending-callback installation", nArm, len(want)), bad)
}

// c16HandshakeDeadline: O12.
func c16HandshakeDeadline(c *Ctx) {
	fn := c.Fn("C16.O12", "(*websocket.Upgrader).commResponse")
	if fn == nil {
		return
	}
	fi := c.P.Info(fn)
	key := fnKey(c.P, fn, "handshake write deadline cleared")
	var arms []ssa.Instruction
	isClear := func(in ssa.Instruction) bool {
		cs, ok := ir.AsCall(in)
		if !ok || !strings.HasSuffix(c.P.CalleeName(cs.Common), ".SetWriteDeadline") {
			return false
		}
		_, isZero := ir.Resolve(cs.Common.Args[len(cs.Common.Args)-1]).(*ssa.Const)
		return isZero
	}
	for _, cs := range c.P.Calls(fn, func(name string, _ ir.CallSite) bool { return strings.HasSuffix(name, ".SetWriteDeadline") }) {
		if !isClear(cs.In) {
			arms = append(arms, cs.In)
		}
	}
	if len(arms) == 0 {
		c.OK("C16.O12", key, c.FnPos(fn), "no handshake write deadline is armed")
		return
	}
	bad := ""
	// the arm's own condition (HandshakeTimeout > 0) also guards the clear: edges that contradict it are not taken
	armFacts := fi.Facts(arms[0])
	skip := func(i *ssa.If, k int) bool {
		cnd, t := ir.StripNot(i.Cond, k == 0)
		for _, ft := range armFacts {
			fc, ftr := ir.StripNot(ft.Cond, ft.Truth)
			if c.P.Desc(fc) != "" && c.P.Desc(fc) == c.P.Desc(cnd) && ftr != t {
				return true
			}
		}
		return false
	}
	vis, _ := fi.ReachOpt(arms, isClear, skip)
	var escs []ssa.Instruction
	for in := range vis {
		if ir.IsExit(in) && !isClear(in) {
			escs = append(escs, in)
		}
	}
	for _, esc := range escs {
		r, ok := esc.(*ssa.Return)
		if !ok {
			continue
		}
		if _, kind := c.retErr(fi, r); kind != "nonnil" {
			bad = "commResponse can return successfully at " + c.Pos(r) + " with the handshake write deadline (armed at " + c.Pos(arms[0]) + ") still set: on a blocking-mode connection every write after HandshakeTimeout fails with a timeout and the connection is torn down"
		}
	}
	c.Cond(bad == "", "C16.O12", key, c.Pos(arms[0]), "every successful return passes SetWriteDeadline(zero)", bad)
}

// c16Round5: O13, O14, O15.
func c16Round5(c *Ctx) {
	// O13
	for _, name := range []string{"(*nbio.Conn).SetDeadline", "(*nbio.Conn).setDeadline", "(*nbio.Conn).SetReadDeadline", "(*nbio.Conn).SetWriteDeadline"} {
		fn := c.P.Func(name)
		if fn == nil {
			continue
		}
		fi := c.P.Info(fn)
		n := 0
		bad := ""
		for _, cs := range c.P.Calls(fn, func(nm string, _ ir.CallSite) bool {
			return nm == "(*timer.Timer).AfterFunc" || nm == "(*time.Timer).Reset"
		}) {
			n++
			if fi.HasFact(cs.In, func(ft ir.Fact) bool { _, ok := c.queueTest(ft); return ok }) {
				bad = "the timer is created / renewed at " + c.Pos(cs.In) + " only for some state of the write queue: renewing a deadline while nothing is queued leaves the old timer armed, and it closes the connection at the old deadline"
			}
		}
		if n > 0 {
			c.Cond(bad == "", "C16.O13", fnKey(c.P, fn, "timer sites independent of the queue"), c.FnPos(fn), fmt.Sprintf("%d create/renew site(s)", n), bad)
		}
	}
	// O14
	if fn := c.Fn("C16.O14", "(*nbhttp.ClientConn).onResponse"); fn != nil {
		fi := c.P.Info(fn)
		var renew, clear int
		badNext := ""
		for _, cs := range c.P.Calls(fn, func(name string, _ ir.CallSite) bool { return strings.HasSuffix(name, ".SetReadDeadline") }) {
			arg := cs.Common.Args[len(cs.Common.Args)-1]
			idleKnown, idlePos := false, false
			toKnown, toPos := false, false
			for _, ft := range fi.Facts(cs.In) {
				cmp, ok := ir.DecodeIntCmp(ft.Cond)
				if !ok {
					continue
				}
				pos := cmp.Holds(1) == ft.Truth && cmp.Holds(0) != ft.Truth
				switch {
				case strings.HasSuffix(c.P.LoadedField(cmp.Expr), ".IdleConnTimeout"):
					idleKnown, idlePos = true, pos
				case strings.HasSuffix(c.P.LoadedField(cmp.Expr), ".Timeout") || strings.HasSuffix(c.P.Desc(ir.Resolve(cmp.Expr)), ".Timeout"):
					toKnown, toPos = true, pos
				}
			}
			_, isZero := ir.Resolve(arg).(*ssa.Const)
			switch {
			case idleKnown && idlePos && !isZero:
				renew++
			case idleKnown && !idlePos && isZero:
				clear++
			case !idleKnown && !isZero:
				// the next pipelined request's deadline
				if !toKnown || !toPos {
					badNext = "the next request's read deadline is armed at " + c.Pos(cs.In) + " off the Timeout > 0 edge: with no timeout configured the deadline is the request's send time, which is already past, so the connection is closed with a read timeout and every pipelined request behind the first fails"
				}
			}
		}
		bad := ""
		switch {
		case renew == 0:
			bad = "with no request left the idle timeout is not armed on the IdleConnTimeout > 0 edge"
		case clear == 0:
			bad = "with no request left and no idle timeout configured the read deadline is not cleared: the deadline of the request that was just answered stays armed and closes the idle keep-alive connection"
		}
		c.Cond(bad == "", "C16.O14", fnKey(c.P, fn, "idle edge: both sides of IdleConnTimeout"), c.FnPos(fn), fmt.Sprintf("%d renew, %d clear", renew, clear), bad)
		c.Cond(badNext == "", "C16.O14", fnKey(c.P, fn, "next request's deadline only with a Timeout"), c.FnPos(fn), "armed on the Timeout > 0 edge only", badNext)
	}
	// O15
	if fn := c.Fn("C16.O15", "(*websocket.Conn).handleWsMessage"); fn != nil {
		fi := c.P.Info(fn)
		bad := "no keep-alive renewal found"
		for _, g := range ir.WithClosures(fn) {
			for _, cs := range c.P.Calls(g, func(name string, _ ir.CallSite) bool { return strings.HasSuffix(name, ".SetReadDeadline") }) {
				// the renewal, or the defer that registers its closure
				var at ssa.Instruction = cs.In
				if g != fn {
					for _, b := range fn.Blocks {
						for _, in := range b.Instrs {
							if d, ok := in.(*ssa.Defer); ok {
								if mc, ok := d.Call.Value.(*ssa.MakeClosure); ok && mc.Fn == ssa.Value(g) {
									at = in
								}
							}
						}
					}
				}
				bad = ""
				for _, ft := range fi.Facts(at) {
					if at.Parent() != fn {
						continue
					}
					cmp, ok := ir.DecodeIntCmp(ft.Cond)
					if ok && strings.HasSuffix(c.P.LoadedField(cmp.Expr), ".KeepaliveTime") {
						continue
					}
					bad = "the keep-alive renewal (" + c.Pos(at) + ") also depends on " + c.P.Desc(ft.Cond) + ": a message that arrives while that condition fails does not postpone the deadline, and the connection is closed earlier than KeepaliveTime after its last message"
				}
			}
		}
		c.Cond(bad == "", "C16.O15", fnKey(c.P, fn, "renewed by every message"), c.FnPos(fn), "guarded by KeepaliveTime > 0 only", bad)
	}
}

// c16ClientDeadline: O16.
func c16ClientDeadline(c *Ctx) {
	fn := c.Fn("C16.O16", "(*nbhttp.ClientConn).Do")
	if fn == nil {
		return
	}
	// Do's work is in a closure handed to the client executor
	n := 0
	for _, g := range ir.WithClosures(fn) {
		gi := c.P.Info(g)
		for _, cs := range c.P.Calls(g, func(name string, _ ir.CallSite) bool { return strings.HasSuffix(name, ".SetReadDeadline") }) {
			if !cs.Common.IsInvoke() || c.P.LoadedField(ir.Resolve(cs.Common.Value)) != "nbhttp.ClientConn.conn" {
				continue
			}
			if gi.HasFact(cs.In, func(ft ir.Fact) bool {
				cmp, ok := ir.DecodeIntCmp(ft.Cond)
				return ok && isClientTimeout(c, cmp.Expr) && cmp.Holds(1) == ft.Truth && cmp.Holds(0) != ft.Truth
			}) {
				n++
			}
		}
	}
	// the open-connection path: the idle deadline does not run on while a request is in flight.
	// With no request Timeout the read deadline is cleared (a SetReadDeadline on the Timeout <= 0 edge).
	cleared := 0
	for _, g := range ir.WithClosures(fn) {
		gi := c.P.Info(g)
		for _, cs := range c.P.Calls(g, func(name string, _ ir.CallSite) bool { return strings.HasSuffix(name, ".SetReadDeadline") }) {
			if !cs.Common.IsInvoke() || c.P.LoadedField(ir.Resolve(cs.Common.Value)) != "nbhttp.ClientConn.conn" {
				continue
			}
			if gi.HasFact(cs.In, func(ft ir.Fact) bool {
				cmp, ok := ir.DecodeIntCmp(ft.Cond)
				return ok && isClientTimeout(c, cmp.Expr) && cmp.Holds(0) == ft.Truth && cmp.Holds(1) != ft.Truth
			}) {
				cleared++
			}
		}
	}
	c.Cond(cleared >= 1, "C16.O16", fnKey(c.P, fn, "the idle deadline is cleared when no request timeout replaces it"), c.FnPos(fn), fmt.Sprintf("%d SetReadDeadline(c.conn) site(s) on the Timeout <= 0 edge", cleared),
		"ClientConn.Do touches the read deadline of an open connection only when a request Timeout is configured: with IdleConnTimeout alone the idle deadline armed after the last response keeps running while the next request is in flight, and the connection is closed with 'read timeout' in the middle of a request although no request timeout exists (IdleConnTimeout 500 ms, second request 200 ms later, answered after 900 ms: read timeout)")
	c.Cond(n >= 2, "C16.O16", fnKey(c.P, fn, "deadline on ClientConn.conn on both paths"), c.FnPos(fn), fmt.Sprintf("%d SetReadDeadline(c.conn) site(s) on the Timeout > 0 edge", n),
		fmt.Sprintf("ClientConn.Do arms the request's read deadline on ClientConn.conn at %d site(s); the open-connection path and the dialing path each need one: the deadline the dialing path sets on the std connection is lost when NBConn duplicates the descriptor and closes it, so Timeout is not enforced for the request that dials", n))
}

// isClientTimeout: v is ClientConn.Timeout (possibly through a local or a captured variable).
func isClientTimeout(c *Ctx, v ssa.Value) bool {
	r := ir.Resolve(v)
	if c.P.LoadedField(r) == "nbhttp.ClientConn.Timeout" {
		return true
	}
	if rs := ir.ReachingStore(v); rs != nil && c.P.LoadedField(ir.Resolve(rs)) == "nbhttp.ClientConn.Timeout" {
		return true
	}
	return false
}
