package props

import (
	"fmt"
	"go/token"
	"sort"
	"strings"

	"golang.org/x/tools/go/ssa"

	"verif/internal/eng"
	"verif/internal/ir"
)

func init() {
	register(&Property{
		ID:          "C17",
		Engines:     []string{"cfg", "decide"},
		Explanation: "Write-buffer bound, structural part: in write/writev the overflow test on the whole input size dominates every kernel write and every enqueue and its true edge returns the overflow error (O1); overflow(n) is exactly Max>0 && left+n>Max, read off its branch conditions (O2); the enqueue function adds len(buf) to the counter once on every path and flush subtracts the same SSA value by which it advances the entry offset (O3); no other function writes the counter (O4). The overflow error is a leaf error (O5). The overflow test and the enqueue are one critical section, also across callees that drop the lock (O7). A write that fits is accepted: error returns only on overflow / not-temporary / datagram edges (O8).",
		NotCovered:  "the numeric invariant left = sum of unsent bytes over histories; teardown dropping queued bytes; Sendfile ranges (not held in memory, not counted by design)",
		Run:         runC17,
	})
}

func runC17(c *Ctx) {
	c.Rule("C17.O7", "E1-atomic", "the overflow test and the enqueue it guards are one critical section of Conn.mux: no unlock between them, not even inside a callee that locks again before it returns (check-then-act on Conn.left)", 2)
	c.Rule("C17.O8", "E4,E7b", "a write that fits is accepted: write() and writev() return a possibly non-nil error only on the overflow edge, behind the tests that the error is neither EAGAIN nor EINTR, or for a non-stream connection type; a full socket is a reason to queue, not to refuse", 4)
	c17AcceptsWhatFits(c)
	c.Rule("C17.O1", "E4", "overflow(len of whole input) dominates every kernel write and enqueue in write/writev; its true edge returns a non-nil overflow error without writing or queuing", 2)
	c.Rule("C17.O2", "E8", "overflow(n) == (MaxWriteBufferSize > 0 && left+n > MaxWriteBufferSize), decided on the formula extracted from the branch conditions", 1)
	c.Rule("C17.O3", "E4", "enqueue adds len(buf) to left exactly once on every path; flush subtracts the syscall count n by which it advances entry.offset, under n>0", 2)
	c.Rule("C17.O5", "E9", "the overflow error is a leaf error (errors.New): it matches neither EAGAIN nor EINTR, so Write/Writev treat it as fatal and close the connection", 1)
	c.Rule("C17.O6", "E5", "the backlog counter is read only by overflow() and by its own += / -= updates: it counts buffered bytes, not queue entries (file ranges are not counted), so it is never a test of queue emptiness", 1)
	c17Readers(c, "C17.O6")
	c.Rule("C17.O4", "E5", "the only writers of Conn.left are the buffer-enqueue function and flush", 1)
	c17OverflowLeaf(c)

	core := c.Core()
	kernel, enqueue := c.writeSinks()

	// ---- O1
	for _, name := range []string{"(*nbio.Conn).write", "(*nbio.Conn).writev"} {
		fn := c.Fn("C17.O1", name)
		if fn == nil {
			continue
		}
		fi := c.P.Info(fn)
		ovs := c.P.CallsNamed(fn, "(*nbio.Conn).overflow")
		key := fnKey(c.P, fn, "overflow-first")
		if len(ovs) != 1 {
			c.Bad("C17.O1", key, c.FnPos(fn), fmt.Sprintf("expected exactly one overflow test, found %d", len(ovs)))
			continue
		}
		ov := ovs[0]
		// argument is the whole input size
		arg := ov.Common.Args[len(ov.Common.Args)-1]
		argOK := false
		if pb := paramOfType(fn, "[]byte"); pb != nil {
			if x, isLen := ir.IsLenOf(ir.Resolve(arg)); isLen && ir.Resolve(x) == ssa.Value(pb) {
				argOK = true
			}
		} else if pv := paramOfType(fn, "[][]byte"); pv != nil {
			argOK = isSumOfLens(arg, pv)
		}
		if !argOK {
			c.Bad("C17.O1", key, c.Pos(ov.In), "overflow is not tested on the size of the whole input: argument is "+c.P.Desc(arg))
			continue
		}
		ifs := usedAsCond(ov.Value())
		if len(ifs) != 1 {
			c.Bad("C17.O1", key, c.Pos(ov.In), "result of overflow() is not used as exactly one branch condition")
			continue
		}
		iff := ifs[0]
		tEdge := edgeOf(iff, ov.Value(), true)
		fEdge := 1 - tEdge
		// true edge: only returns of a non-nil error, no write, no enqueue
		vis, _ := fi.ReachFromEdge(iff, tEdge, nil)
		bad := ""
		for in := range vis {
			if cs, ok := ir.AsCall(in); ok {
				if callee := ir.StaticCallee(cs.Common); callee != nil && (kernel[callee] || enqueue[callee]) {
					bad = "overflow edge reaches " + c.P.FuncName(callee) + " at " + c.Pos(in)
				}
			}
			if r, ok := in.(*ssa.Return); ok {
				rv := ir.RetVals(r)
				if len(rv) == 0 || !c.isNonNilErrorValue(rv[len(rv)-1]) {
					bad = "overflow edge returns without a non-nil error at " + c.Pos(in)
				}
			}
		}
		if bad != "" {
			c.Bad("C17.O1", key, c.Pos(iff), bad)
			continue
		}
		// every write / enqueue site dominated by the false edge
		nSites := 0
		split := ""
		for _, cs := range c.P.Calls(fn, nil) {
			callee := ir.StaticCallee(cs.Common)
			if callee == nil || callee == fn || !(kernel[callee] || enqueue[callee]) {
				continue
			}
			nSites++
			if !fi.EdgeDominates(iff, fEdge, cs.In.Block()) {
				bad = fmt.Sprintf("%s at %s is reachable without passing the overflow test", c.P.FuncName(callee), c.Pos(cs.In))
			}
			if enqueue[callee] {
				if same, rel := c.Locks().SameRegion(fi, fConnMux, ov.In, cs.In); !same {
					split = fmt.Sprintf("Conn.mux is given up at %s between the overflow test (%s) and the enqueue at %s: a concurrent writer passes the same test on the same backlog and both remainders are queued, exceeding the maximum", c.Pos(rel), c.Pos(ov.In), c.Pos(cs.In))
				}
			}
		}
		if nSites == 0 {
			c.Unres("C17.O1", key, "no write/enqueue site found behind the overflow test")
			continue
		}
		c.Cond(bad == "", "C17.O1", key, c.Pos(ov.In), fmt.Sprintf("%d write/enqueue sites dominated by the !overflow edge", nSites), bad)
		c.Cond(split == "", "C17.O7", fnKey(c.P, fn, "overflow test and enqueue in one critical section"), c.Pos(ov.In), "no release of Conn.mux (direct, or inside a callee that re-locks) between the test and the enqueue", split)
	}

	// ---- O2
	if fn := c.Fn("C17.O2", "(*nbio.Conn).overflow"); fn != nil {
		key := fnKey(c.P, fn, "predicate")
		d, err := eng.Decide(c.P, fn)
		if err != nil {
			c.Unres("C17.O2", key, err.Error())
		} else {
			rets := d.Returns()
			// result formula = OR over returns (cond AND value)
			var f *eng.Formula
			for _, rc := range rets {
				rv := ir.RetVals(rc.Ret)
				g := eng.And(rc.Cond, d.ValueFormula(rv[0]))
				if f == nil {
					f = g
				} else {
					f = eng.Or(f, g)
				}
			}
			const max = "nbio.Config.MaxWriteBufferSize"
			const left = "nbio.Conn.left"
			const arg = "param#1"
			leaves := d.Leaves(f)
			detail := ""
			for l := range leaves {
				if l != max && l != left && l != arg {
					detail = "overflow() depends on " + l + "; expected only MaxWriteBufferSize, left and n"
				}
			}
			if !leaves[max] || !leaves[left] || !leaves[arg] {
				detail = fmt.Sprintf("overflow() reads %v; expected MaxWriteBufferSize, left and n", sortedKeys(leaves))
			}
			if detail != "" {
				c.Bad("C17.O2", key, c.FnPos(fn), detail)
			} else {
				// evaluated over a grid of values around every boundary of the formula
				n := 0
				ok := true
				witness := ""
				for _, m := range []int64{-3, 0, 1, 4, 10} {
					for _, l := range []int64{0, 1, 3, 4, 5, 9, 10, 11} {
						for _, a := range []int64{0, 1, 2, 6, 7} {
							n++
							got, err := d.Eval(f, eng.Env{max: m, left: l, arg: a})
							want := m > 0 && l+a > m
							if err != nil || got != want {
								ok = false
								witness = fmt.Sprintf("Max=%d left=%d n=%d: overflow()=%v, expected %v", m, l, a, got, want)
							}
						}
					}
				}
				c.ExhaustiveTbl["overflow value grid"] = n
				c.Cond(ok, "C17.O2", key, c.FnPos(fn), fmt.Sprintf("formula == (Max>0 && left+n>Max) on %d value assignments around the boundaries", n), "overflow() is not Max>0 && left+n>Max: "+witness)
			}
		}
	}

	// ---- O3 enqueue side
	if core.EnqueueBuf == nil {
		c.Unres("C17.O3", "buffer-enqueue function", "not resolved")
	} else {
		fn := core.EnqueueBuf
		key := fnKey(c.P, fn, "left += len(buf)")
		var stores []*ssa.Store
		for _, g := range ir.WithClosures(fn) {
			stores = append(stores, c.P.StoresTo(g, fConnLeft)...)
		}
		pb := paramOfType(fn, "[]byte")
		switch {
		case len(stores) != 1:
			c.Bad("C17.O3", key, c.FnPos(fn), fmt.Sprintf("expected exactly one update of left, found %d", len(stores)))
		case stores[0].Parent() != fn:
			c.Bad("C17.O3", key, c.Pos(stores[0]), "left is updated inside a closure, not on every path of the enqueue function")
		default:
			st := stores[0]
			fi := c.P.Info(fn)
			ok, why := isFieldPlus(c, st, fConnLeft, token.ADD, func(v ssa.Value) bool {
				x, isLen := ir.IsLenOf(ir.Resolve(v))
				return isLen && pb != nil && ir.Resolve(x) == ssa.Value(pb)
			})
			if ok {
				for _, r := range fi.Returns() {
					if fi.Dominates(st, r) {
						continue
					}
					// a return on the len(buf) == 0 edge queues nothing and counts nothing
					if fi.HasFact(r, func(ft ir.Fact) bool {
						e, zero, isZ := ir.ZeroTest(ft.Cond, ft.Truth)
						if !isZ || !zero {
							return false
						}
						x, isLen := ir.IsLenOf(ir.Resolve(e))
						return isLen && pb != nil && ir.Resolve(x) == ssa.Value(pb)
					}) {
						vis, _ := fi.Reach([]ssa.Instruction{fn.Blocks[0].Instrs[0]}, func(in ssa.Instruction) bool { return in == ssa.Instruction(r) })
						queued := false
						for in := range vis {
							if s2, isSt := in.(*ssa.Store); isSt {
								if fa, isFA := s2.Addr.(*ssa.FieldAddr); isFA && c.P.FieldKey(fa) == fConnWriteList && fi.CanReach(in, r) {
									queued = true
								}
							}
						}
						if !queued {
							continue
						}
					}
					ok, why = false, "a return at "+c.Pos(r)+" is reachable without the update"
				}
				if fi.InLoop(st) {
					ok, why = false, "the update is inside a loop"
				}
			}
			c.Cond(ok, "C17.O3", key, c.Pos(st), "single update left = left + len(buf), dominating every return", why)
		}
	}
	// ---- O3 flush side
	if fl := c.Fn("C17.O3", "(*nbio.Conn).flush"); fl != nil {
		key := fnKey(c.P, fl, "left -= n")
		var stores []*ssa.Store
		for _, g := range ir.WithClosures(fl) {
			stores = append(stores, c.P.StoresTo(g, fConnLeft)...)
		}
		if len(stores) != 1 {
			c.Bad("C17.O3", key, c.FnPos(fl), fmt.Sprintf("expected exactly one update of left in flush, found %d", len(stores)))
		} else {
			st := stores[0]
			g := st.Parent()
			fi := c.P.Info(g)
			var n ssa.Value
			ok, why := isFieldPlus(c, st, fConnLeft, token.SUB, func(v ssa.Value) bool {
				n = ir.Resolve(v)
				return c.isKernelWriteCount(n, "syscall.Write")
			})
			if ok {
				// same n advances toWrite.offset, both under n > 0
				adv := false
				for _, os := range c.P.StoresTo(g, "nbio.toWrite.offset") {
					o, _ := isFieldPlus(c, os, "nbio.toWrite.offset", token.ADD, func(v ssa.Value) bool { return ir.Resolve(v) == n })
					if o && (fi.Dominates(st, os) || fi.Dominates(os, st)) {
						adv = true
					}
				}
				if !adv {
					ok, why = false, "entry.offset is not advanced by the same count n"
				}
				pos := fi.HasFact(st, func(f ir.Fact) bool {
					cmp, isCmp := ir.DecodeIntCmp(f.Cond)
					if !isCmp || ir.Resolve(cmp.Expr) != n {
						return false
					}
					// fact implies n >= 1
					if f.Truth {
						return !cmp.Holds(0) && !cmp.Holds(-1) && cmp.Holds(1)
					}
					return cmp.Holds(0) && cmp.Holds(-1) && !cmp.Holds(1)
				})
				if ok && !pos {
					ok, why = false, "the update is not guarded by n > 0"
				}
			}
			c.Cond(ok, "C17.O3", key, c.Pos(st), "left -= n with n the count of the kernel write, paired with offset += n under n>0", why)
		}
	}

	// ---- O4 who-may-write
	{
		writers := map[string]bool{}
		n := 0
		for _, f := range c.libFuncs() {
			for _, a := range c.P.FieldAccesses(f, func(k string) bool { return k == fConnLeft }) {
				if a.Write || a.AddrTaken {
					if _, fresh := ir.Root(a.Addr.X).(*ssa.Alloc); fresh {
						continue
					}
					writers[c.P.FuncName(ir.Outermost(f))] = true
					n++
				}
			}
		}
		want := map[string]bool{"(*nbio.Conn).flush": true}
		if core.EnqueueBuf != nil {
			want[c.P.FuncName(core.EnqueueBuf)] = true
		}
		bad := ""
		for w := range writers {
			if !want[w] {
				bad += w + " "
			}
		}
		c.Cond(bad == "" && n == 2, "C17.O4", "writers of "+fConnLeft, "", fmt.Sprintf("writers = %v", sortedKeys(writers)),
			fmt.Sprintf("unexpected writer(s) of the backlog counter: %s(writers=%v, stores=%d)", bad, sortedKeys(writers), n))
	}
}

// isFieldPlus checks that store st writes  field = field (op) X  where the
// left operand is a load of the same field and X satisfies pred.
func isFieldPlus(c *Ctx, st *ssa.Store, field string, op token.Token, pred func(ssa.Value) bool) (bool, string) {
	b, ok := st.Val.(*ssa.BinOp)
	if !ok || b.Op != op {
		return false, "stored value is " + c.P.Desc(st.Val) + ", not " + field + " " + op.String() + " x"
	}
	x, y := b.X, b.Y
	if c.P.LoadedField(x) != field {
		if op == token.ADD && c.P.LoadedField(y) == field {
			x, y = y, x
		} else {
			return false, "left operand is not the current value of " + field
		}
	}
	if !pred(y) {
		return false, "operand is " + c.P.Desc(y)
	}
	return true, ""
}

// isKernelWriteCount reports that v is result #0 of a kernel write on Conn.fd.
func (c *Ctx) isKernelWriteCount(v ssa.Value, callee string) bool {
	e, ok := v.(*ssa.Extract)
	if !ok || e.Index != 0 {
		return false
	}
	call, ok := e.Tuple.(*ssa.Call)
	if !ok {
		return false
	}
	for _, kw := range c.Core().KernelWrites {
		if kw.In == ssa.Instruction(call) && (callee == "" || c.P.CalleeName(kw.Common) == callee) {
			return true
		}
	}
	return false
}

// c17OverflowLeaf: O5.
func c17OverflowLeaf(c *Ctx) {
	var initFn *ssa.Function
	for _, f := range c.nbioFuncs() {
		if c.P.FuncName(f) == "nbio.init" {
			initFn = f
		}
	}
	if initFn == nil {
		c.Unres("C17.O5", "nbio.init", "package initialiser not found")
		return
	}
	bad := "errOverflow / ErrOverflow is not initialised"
	for _, b := range initFn.Blocks {
		for _, in := range b.Instrs {
			st, ok := in.(*ssa.Store)
			if !ok {
				continue
			}
			g, ok := st.Addr.(*ssa.Global)
			if !ok || (g.Name() != "ErrOverflow" && g.Name() != "errOverflow") {
				continue
			}
			v := ir.Resolve(st.Val)
			if ld, isLoad := ir.IsLoad(v); isLoad {
				if g2, isG := ld.(*ssa.Global); isG && (g2.Name() == "ErrOverflow" || g2.Name() == "errOverflow") {
					if bad == "errOverflow / ErrOverflow is not initialised" {
						bad = ""
					}
					continue
				}
			}
			call, isCall := v.(*ssa.Call)
			if isCall && c.P.CalleeName(&call.Call) == "errors.New" {
				bad = ""
				continue
			}
			bad = g.Name() + " is built by " + c.P.Desc(v) + " (" + c.Pos(in) + "), not errors.New: if it wraps EAGAIN or EINTR the write paths treat a real overflow as temporary, the connection is not closed and the backlog is kept"
		}
	}
	c.Cond(bad == "", "C17.O5", "nbio.ErrOverflow is a leaf error", c.FnPos(initFn), "errors.New", bad)
}

// c17Readers: who reads Conn.left.
func c17Readers(c *Ctx, ob string) {
	readers := map[string]bool{}
	for _, f := range c.nbioFuncs() {
		for _, a := range c.P.FieldAccesses(f, func(k string) bool { return k == "nbio.Conn.left" }) {
			if a.Write || a.AddrTaken {
				continue
			}
			readers[c.P.FuncName(ir.Outermost(f))] = true
		}
	}
	core := c.Core()
	allowed := map[string]bool{"(*nbio.Conn).overflow": true, "(*nbio.Conn).flush": true}
	if core.EnqueueBuf != nil {
		allowed[c.P.FuncName(core.EnqueueBuf)] = true
	}
	var extra []string
	for r := range readers {
		if !allowed[r] {
			extra = append(extra, r)
		}
	}
	sort.Strings(extra)
	c.Cond(len(extra) == 0 && len(readers) > 0, ob, "readers of nbio.Conn.left", "", fmt.Sprintf("%v", sortedKeys(readers)),
		fmt.Sprintf("Conn.left is read by %v: it counts buffered bytes only (a queued Sendfile range adds nothing to it), so using it to decide whether something is queued sends data around a queued file, skips a re-arm, or skips the release of queued entries", extra))
}

// c17AcceptsWhatFits: O8.  "Socket full" (EAGAIN) and "interrupted" (EINTR)
// are not failures of a stream write: the bytes fit the budget (the overflow
// test passed), so they are queued and the call succeeds.  A return that may
// carry such an errno refuses a write that fits.
func c17AcceptsWhatFits(c *Ctx) {
	for _, name := range []string{"(*nbio.Conn).write", "(*nbio.Conn).writev"} {
		fn := c.Fn("C17.O8", name)
		if fn == nil {
			continue
		}
		fi := c.P.Info(fn)
		var ov ssa.Value
		for _, cs := range c.P.CallsNamed(fn, "(*nbio.Conn).overflow") {
			ov = cs.Value()
		}
		n := 0
		for _, r := range fi.Returns() {
			e, kind := c.retErr(fi, r)
			if kind == "nil" {
				continue
			}
			n++
			key := fmt.Sprintf("%s: error-return#%d", c.P.FuncName(fn), n)
			re := ir.Resolve(e)
			onOverflow := ov != nil && fi.HasFact(r, func(ft ir.Fact) bool {
				cnd, t := ir.StripNot(ft.Cond, ft.Truth)
				return ir.Resolve(cnd) == ir.Resolve(ov) && t
			})
			notTemp := map[string]bool{}
			nonStream := false
			for _, ft := range fi.Facts(r) {
				if x, target, is, ok := c.P.ErrorsIsTest(ft.Cond, ft.Truth); ok && !is && ir.Resolve(x) == re {
					notTemp[target] = true
				}
				if cmp, ok := ir.DecodeIntCmp(ft.Cond); ok && c.P.LoadedField(cmp.Expr) == "nbio.Conn.typ" {
					nonStream = true
				}
			}
			ok := onOverflow || (notTemp["EAGAIN"] && notTemp["EINTR"]) || nonStream || c.isNonNilErrorValue(e) && !strings.Contains(c.P.Desc(re), "syscall")
			c.Cond(ok, "C17.O8", key, c.Pos(r), "overflow edge, or not EAGAIN/EINTR, or a datagram type",
				"the return at "+c.Pos(r)+" may hand EAGAIN or EINTR to the caller although the input passed the overflow test: on a full socket with an empty queue a write that fits the budget is refused (nothing is queued, no write interest is set)")
		}
		if n == 0 {
			c.Unres("C17.O8", fnKey(c.P, fn, "error returns"), "no error return found")
		}
	}
}
