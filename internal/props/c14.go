package props

import (
	"fmt"
	"go/types"
	"strings"

	"golang.org/x/tools/go/ssa"

	"verif/internal/eng"
	"verif/internal/ir"
)

func init() {
	register(&Property{
		ID:          "C14",
		Engines:     []string{"cfg", "lockset"},
		Explanation: "WebSocket ordering / whole writes, structural part: sendQueue is only touched under the connection mutex, writeFrame always runs with it held, and WriteMessage/WriteFrame release it only through their deferred unlock, so all fragments of one message are written in one critical section (O1); the send-queue drainer is spawned only on 'length is 1 after the append', its exhaustion test and reset are one critical section, its closed edge exits, and the head slot is cleared when captured (O2); CloseAndClean tests and sets closed under the mutex first and is the only caller of the close callback, after the unlock (O3); the open handler precedes the read goroutine and the return in Upgrade, and the result notification in the dialer (O4); message, data-frame and control handlers run only in jobs handed to Execute or SyncCall (O5); a frame rejected by a full queue is released and reported (O6). CloseAndClean is called only from the read loop's deferred cleanup inside the package (O10). The blocking readers honour a hand-over before the error return (O11). The room test measures what the fragment loop cuts (O12); a queued callback's payload is released by the job (O13).",
		NotCovered:  "interleavings as such; the four upgrade paths as executions",
		Run:         runC14,
	})
}

const (
	fWsMux       = "websocket.Conn.mux"
	fWsSendQueue = "websocket.Conn.sendQueue"
	fWsClosed    = "websocket.Conn.closed"
)

func runC14(c *Ctx) {
	c.Rule("C14.O1", "E1", "sendQueue only under websocket.Conn.mux; writeFrame's inferred entry lockset contains it; WriteMessage/WriteFrame release only via their deferred unlock", 12)
	c.Rule("C14.O2", "E4,E1-atomic", "send-queue drainer spawned only on len==1 after the append; exhaustion test + reset atomic; closed edge exits; head slot cleared on capture", 4)
	c.Rule("C14.O3", "E4,E5", "CloseAndClean: closed tested and set under the mutex before any effect; the close callback is invoked only there, with the mutex released", 2)
	c.Rule("C14.O4", "E4", "the open handler precedes `go HandleRead` and the success return in Upgrade, and the result notification in the dialer", 2)
	c.Rule("C14.O5", "E5", "message / data-frame / control handlers are invoked only inside closures handed to Execute or SyncCall", 5)
	c.Rule("C14.O7", "E5", "a WebSocket connection's executor is its parser's or the bound Execute of its nbio.Conn, never the inline executor on a poller-served connection (same rule as C05.O6): the close job must queue behind running message callbacks", 8)
	wsExecutorStores(c, "C14.O7")
	c.Rule("C14.O9", "E4", "a connection transferred to the poller is registered (AddTransferredConn) only after its open handler has run, or its callbacks are queued behind it: otherwise a message that arrives right after the handshake is handled while the open handler is still running", 2)
	c.Rule("C14.O12", "E4", "a message is refused as a whole: with a bounded send queue WriteMessage tests the queue's room for the message (a comparison over len(sendQueue) and sendQueueSize) before the first fragment is written; a per-frame refusal half way leaves the fragments already queued on the wire and the next message starts inside an unfinished one", 1)
	c14WholeRefusal(c)
	c.Rule("C14.O13", "E4", "a payload handed to a queued callback is released by that job: the queuing function releases it only behind isBlockingMod (the callback ran inline) or behind a refused Execute", 2)
	c14PayloadReleasedByJob(c)
	c.Rule("C14.O11", "E4", "the blocking readers honour a hand-over that happened inside a failing Parse: every exit after Parse passes the Parser.ParserCloser test (or is the transferred edge), so a WebSocket connection created by an upgrade in the same read as a bad frame is cleaned up and its close callback runs", 2)
	c14ReaderHandOver(c)
	c.Rule("C14.O10", "E5", "the close callback runs after the message callbacks: inside the websocket package CloseAndClean is called only from the deferred cleanup of the function that runs the blocking read loop (every other closer goes through the connection's Close and leaves the callback to the reader or to the engine's close hook)", 1)
	c14WhoCleans(c)
	c14TransferAfterOpen(c)
	c.Rule("C14.O8", "E4", "handlers are run inline (SyncCall) only on the isBlockingMod edge, where the connection has its own read goroutine; otherwise they go through the connection's Execute", 4)
	wsSyncCallScope(c, "C14.O8")
	c.Rule("C14.O6", "E2", "a frame rejected because the send queue is full is released and an error is returned", 1)

	L := c.Locks()
	wsFuncs := c.pkgFuncs("websocket")

	// ------------------------------------------------------------------ O1
	{
		table := []eng.Guard{{Field: fWsSendQueue, Lock: fWsMux, Reads: true, Writes: true}}
		exc := []eng.Exception{
			{Fn: "(*websocket.Conn).IsAsyncWrite", Field: fWsSendQueue, Reason: "nil test of a field that is assigned once in the constructor"},
			{Fn: "(*websocket.Conn).Close", Field: fWsSendQueue, Reason: "same nil test inlined"},
		}
		for _, s := range eng.CheckGuarded(L, wsFuncs, table, exc) {
			key := fmt.Sprintf("%s: %s sendQueue", c.P.FuncName(s.Fn), rw(s.Access.Write))
			if !s.Held && s.Reason != "" {
				// the exception only covers a nil comparison
				isNilTest := false
				if v, ok := s.Access.In.(ssa.Value); ok {
					if refs := v.Referrers(); refs != nil {
						isNilTest = len(*refs) > 0
						for _, r := range *refs {
							if b, ok := r.(*ssa.BinOp); !ok || !(ir.IsNilConst(b.X) || ir.IsNilConst(b.Y)) {
								if _, dbg := r.(*ssa.DebugRef); !dbg {
									isNilTest = false
								}
							}
						}
					}
				}
				c.Cond(isNilTest, "C14.O1", key, c.Pos(s.Access.In), "frozen exception: "+s.Reason, "the unlocked access is not the excepted nil test")
				continue
			}
			c.Cond(s.Held, "C14.O1", key, c.Pos(s.Access.In), "mutex held", "sendQueue accessed without the connection mutex (held="+L.Held(s.Access.In).String()+")")
		}
		if wf := c.Fn("C14.O1", "(*websocket.Conn).writeFrame"); wf != nil {
			c.Cond(L.Entry[wf][fWsMux], "C14.O1", fnKey(c.P, wf, "requires the mutex"), c.FnPos(wf), "every call site holds it",
				"writeFrame is reachable without the connection mutex ("+L.EntryWhy[wf]+"): frames of concurrent writers could interleave")
		}
		for _, name := range []string{"(*websocket.Conn).WriteMessage", "(*websocket.Conn).WriteFrame"} {
			fn := c.Fn("C14.O1", name)
			if fn == nil {
				continue
			}
			bad := ""
			nAcq := len(L.Acquires(fn, fWsMux))
			for _, r := range L.Releases(fn, fWsMux) {
				if _, ok := r.(*ssa.RunDefers); !ok {
					bad = "the mutex is released at " + c.Pos(r) + " inside the write: another writer's frames could be interleaved between this message's fragments"
				}
			}
			if nAcq != 1 {
				bad = fmt.Sprintf("expected one acquisition of the mutex, found %d", nAcq)
			}
			// every writeFrame call holds it
			for _, cs := range c.P.CallsNamed(fn, "(*websocket.Conn).writeFrame") {
				if !L.HeldClass(cs.In, fWsMux) {
					bad = "writeFrame called without the mutex at " + c.Pos(cs.In)
				}
			}
			c.Cond(bad == "", "C14.O1", fnKey(c.P, fn, "one critical section"), c.FnPos(fn), "lock once, release only by defer", bad)
		}
	}

	// ------------------------------------------------------------------ O2 / O6
	if wf := c.Fn("C14.O2", "(*websocket.Conn).writeFrame"); wf != nil {
		fi := c.P.Info(wf)
		isGo := func(in ssa.Instruction) bool { _, ok := in.(*ssa.Go); return ok }
		bad, n := c.checkHeadStarts(wf, fWsSendQueue, fWsMux, isGo)
		c.Cond(bad == "", "C14.O2", fnKey(c.P, wf, "head starts drainer"), c.FnPos(wf), fmt.Sprintf("%d spawn site(s)", n), bad)
		var drainer *ssa.Function
		var goIn ssa.Instruction
		for _, in := range instrsOf(wf, isGo) {
			goIn = in
			drainer = ir.StaticCallee(&in.(*ssa.Go).Call)
		}
		if drainer == nil {
			c.Unres("C14.O2", fnKey(c.P, wf, "drainer"), "goroutine not found")
		} else {
			isRun := func(in ssa.Instruction) bool {
				cs, ok := ir.AsCall(in)
				return ok && cs.Common.IsInvoke() && cs.Common.Method.Name() == "Write"
			}
			bad := c.checkDrainer(drainSpec{fn: drainer, list: fWsSendQueue, lock: fWsMux, isRun: isRun})
			c.Cond(bad == "", "C14.O2", fnKey(c.P, wf, "drainer critical section"), c.FnPos(drainer), "exhaustion+reset atomic, write unlocked, index +1", bad)
			// closed edge exits
			di := c.P.Info(drainer)
			bad = "the drainer does not test the closed flag"
			for _, i := range di.Ifs() {
				for k := 0; k < 2; k++ {
					cl, ok := c.closedTest(ir.Fact{Cond: stripNot(i.Cond), Truth: condTruth(i.Cond, k)}, fWsClosed)
					if !ok || !cl {
						continue
					}
					bad = ""
					vis, _ := di.ReachFromEdge(i, k, nil)
					for in := range vis {
						if isRun(in) {
							bad = "the closed edge of the drainer keeps writing"
						}
					}
				}
			}
			c.Cond(bad == "", "C14.O2", fnKey(c.P, wf, "drainer closed edge"), c.FnPos(drainer), "closed -> unlock and leave", bad)
			// head slot cleared when captured
			cleared := false
			for _, a := range c.P.FieldAccesses(wf, func(k string) bool { return k == fWsSendQueue }) {
				st, ok := a.In.(*ssa.Store)
				if !ok || !a.Write {
					continue
				}
				if ia, ok := st.Addr.(*ssa.IndexAddr); ok && ir.IsNilConst(st.Val) {
					if k, isK := ir.ConstInt(ia.Index); isK && k == 0 && fi.Dominates(st, goIn) {
						cleared = true
					}
				}
			}
			c.Cond(cleared, "C14.O2", fnKey(c.P, wf, "head slot cleared on capture"), c.Pos(goIn), "sendQueue[0] = nil before the goroutine starts",
				"the captured head frame stays in sendQueue[0]: CloseAndClean would release it while the drainer still writes it")
		}
		// O6: queue-full edge
		{
			key := fnKey(c.P, wf, "queue-full edge")
			bad := "no queue-full test found"
			for _, i := range fi.Ifs() {
				b, ok := stripNot(i.Cond).(*ssa.BinOp)
				if !ok {
					continue
				}
				ld := c.lenLoadOf(b.X, fWsSendQueue)
				if ld == nil || !strings.Contains(c.P.Desc(b.Y), "sendQueueSize") {
					continue
				}
				// the edge on which len >= size
				fullEdge := 0
				if _, t := ir.StripNot(i.Cond, true); !t {
					fullEdge = 1
				}
				bad = ""
				vis, _ := fi.ReachFromEdge(i, fullEdge, nil)
				freed := false
				for in := range vis {
					if cs, ok := ir.AsCall(in); ok && cs.Common.IsInvoke() && cs.Common.Method.Name() == "Free" {
						freed = true
					}
					if isGo(in) {
						bad = "the queue-full edge still queues the frame"
					}
					if st, ok := in.(*ssa.Store); ok {
						if fa, ok := st.Addr.(*ssa.FieldAddr); ok && c.P.FieldKey(fa) == fWsSendQueue {
							bad = "the queue-full edge still queues the frame"
						}
					}
					if r, ok := in.(*ssa.Return); ok {
						if _, kind := c.retErr(fi, r); kind != "nonnil" {
							bad = "the queue-full edge returns success"
						}
					}
				}
				if !freed && bad == "" {
					bad = "the rejected frame buffer is not released"
				}
			}
			c.Cond(bad == "", "C14.O6", key, c.FnPos(wf), "Free(frame) and a non-nil error", bad)
		}
	}

	// ------------------------------------------------------------------ O3
	if cc := c.Fn("C14.O3", "(*websocket.Conn).CloseAndClean"); cc != nil {
		fi := c.P.Info(cc)
		key := fnKey(c.P, cc, "exactly-once close")
		bad := ""
		var load, set ssa.Instruction
		for _, a := range c.P.FieldAccesses(cc, func(k string) bool { return k == fWsClosed }) {
			if a.Write {
				if isStoreTrue(a.In, c.P, fWsClosed) {
					set = a.In
				}
			} else if load == nil {
				load = a.In
			}
		}
		switch {
		case load == nil || set == nil:
			bad = "closed is not both tested and set"
		case !L.HeldClass(load, fWsMux) || !L.HeldClass(set, fWsMux):
			bad = "closed is tested/set without the mutex"
		default:
			if same, r := L.SameRegion(fi, fWsMux, load, set); !same || !fi.Dominates(load, set) {
				bad = "the mutex is released at " + c.Pos(r) + " between the closed test and closed=true: two closers can both run the cleanup"
			}
			if !c.underNotClosed(fi, set, fWsClosed) {
				bad = "closed=true is not on the !closed edge"
			}
			// everything with an effect comes after the set
			for _, cs := range c.P.Calls(cc, nil) {
				name := c.P.CalleeName(cs.Common)
				if strings.HasPrefix(name, "(*sync.Mutex)") {
					continue
				}
				if cs.Kind == "call" && !fi.Dominates(set, cs.In) && !fi.CanReach(cs.In, set) {
					// a call on the closed edge
					bad = "the already-closed edge performs " + name
				} else if cs.Kind == "call" && !fi.Dominates(set, cs.In) {
					bad = name + " at " + c.Pos(cs.In) + " runs before closed=true"
				}
			}
		}
		c.Cond(bad == "", "C14.O3", key, c.FnPos(cc), "test-and-set first, in one critical section", bad)
		// close callback only here, unlocked
		set2 := map[string]bool{}
		n := 0
		bad = ""
		for _, f := range wsFuncs {
			for _, cs := range c.P.Calls(f, func(name string, _ ir.CallSite) bool { return name == "dyn:websocket.Conn.onClose" }) {
				n++
				set2[c.P.FuncName(ir.Outermost(f))] = true
				if L.MayHold(cs.In, fWsMux) {
					bad = "the close callback runs with the connection mutex held"
				}
				if f == cc && !c.P.Info(cc).Dominates(set, cs.In) {
					bad = "the close callback can run without closed having been set"
				}
			}
		}
		if n != 1 || !set2["(*websocket.Conn).CloseAndClean"] {
			bad = fmt.Sprintf("the close callback is invoked from %v (%d sites), expected only CloseAndClean", sortedKeys(set2), n)
		}
		c.Cond(bad == "", "C14.O3", "callers of websocket.Conn.onClose", "", "only CloseAndClean, after the unlock", bad)
	}

	// ------------------------------------------------------------------ O4
	if up := c.Fn("C14.O4", "(*websocket.Upgrader).Upgrade"); up != nil {
		fi := c.P.Info(up)
		key := fnKey(c.P, up, "open before read loop and return")
		var open []ssa.Instruction
		for _, cs := range c.P.Calls(up, func(name string, _ ir.CallSite) bool { return name == "dyn:websocket.commonFields.openHandler" }) {
			open = append(open, cs.In)
		}
		bad := ""
		if len(open) != 1 {
			bad = fmt.Sprintf("expected one open-handler call, found %d", len(open))
		} else {
			// from the entry, avoiding the open call and the "no handler" edge, neither the
			// read goroutine nor the success return may be reachable
			noHandler := func(i *ssa.If, k int) bool {
				x, isNil, ok := ir.NilTest(i.Cond, k == 0)
				return ok && isNil && c.P.LoadedField(x) == "websocket.commonFields.openHandler"
			}
			entry := up.Blocks[0].Instrs[0]
			vis, _ := fi.ReachOpt([]ssa.Instruction{entry}, func(in ssa.Instruction) bool { return in == open[0] }, noHandler)
			for in := range vis {
				if g, ok := in.(*ssa.Go); ok && c.P.CalleeName(&g.Call) == "(*websocket.Conn).HandleRead" {
					bad = "the read goroutine can start before the open handler has run: a message callback could precede OnOpen"
				}
				if r, ok := in.(*ssa.Return); ok {
					rv := ir.RetVals(r)
					if len(rv) == 2 && ir.IsNilConst(rv[1]) && !ir.IsNilConst(rv[0]) {
						bad = "Upgrade can return the connection without having run the open handler"
					}
				}
			}
		}
		c.Cond(bad == "", "C14.O4", key, c.FnPos(up), "open handler dominates go HandleRead and the success return (modulo no handler)", bad)
	}
	if dl := c.Fn("C14.O4", "(*websocket.Dialer).DialContext"); dl != nil {
		key := fnKey(c.P, dl, "open before result notification")
		bad := "open-handler call not found in the dialer"
		for _, g := range ir.Closures(dl) {
			gi := c.P.Info(g)
			for _, cs := range c.P.Calls(g, func(name string, _ ir.CallSite) bool { return name == "dyn:websocket.commonFields.openHandler" }) {
				bad = ""
				// the success notification (after the connection was created) comes after it
				after, _ := gi.Reach([]ssa.Instruction{cs.In}, nil)
				// every call of the notify closure that can follow the construction of the ws conn
				var created ssa.Instruction
				for _, nc := range c.P.CallsNamed(g, "websocket.NewClientConn") {
					created = nc.In
				}
				if created == nil {
					bad = "construction of the client connection not found"
					continue
				}
				afterCreate, _ := gi.Reach([]ssa.Instruction{created}, func(in ssa.Instruction) bool { return in == cs.In })
				for in := range afterCreate {
					if x, ok := ir.AsCall(in); ok && x.Kind == "call" {
						if callee := ir.StaticCallee(x.Common); callee != nil && callee.Parent() == g {
							// a local closure (notifyResult) called after creation but not after the open handler
							noHandlerPath := false
							_ = noHandlerPath
							if !after[in] {
								bad = "the dial result is notified at " + c.Pos(in) + " before the open handler ran"
							}
						}
					}
				}
			}
		}
		c.Cond(bad == "", "C14.O4", key, c.FnPos(dl), "open handler precedes the success notification", bad)
	}

	// ------------------------------------------------------------------ O5
	{
		handlers := []string{"messageHandler", "dataFrameHandler", "pingMessageHandler", "pongMessageHandler", "closeMessageHandler"}
		// functions that invoke a handler
		for _, h := range handlers {
			n := 0
			for _, f := range wsFuncs {
				for _, cs := range c.P.Calls(f, func(name string, _ ir.CallSite) bool { return name == "dyn:websocket.commonFields."+h }) {
					n++
					key := fmt.Sprintf("%s: %s#%d", c.P.FuncName(ir.Outermost(f)), h, n)
					ok, why := c.runsInsideJob(f, 0)
					c.Cond(ok, "C14.O5", key, c.Pos(cs.In), why, "the handler is invoked outside a job handed to Execute/SyncCall ("+why+"): callbacks of one connection could overlap or run on the poller goroutine")
				}
				// handlers captured in a local first (h := c.dataFrameHandler)
			}
			if n == 0 {
				// captured in a local variable and called from a closure
				for _, f := range wsFuncs {
					for _, b := range f.Blocks {
						for _, in := range b.Instrs {
							if !dynCallThrough(in, func(v ssa.Value) bool {
								return c.P.LoadedField(ir.Resolve(v)) == "websocket.commonFields."+h
							}) {
								continue
							}
							n++
							key := fmt.Sprintf("%s: %s#%d", c.P.FuncName(ir.Outermost(f)), h, n)
							ok, why := c.runsInsideJob(f, 0)
							c.Cond(ok, "C14.O5", key, c.Pos(in), why, "the handler is invoked outside a job handed to Execute/SyncCall ("+why+")")
						}
					}
				}
			}
			if n == 0 {
				c.Unres("C14.O5", h, "no invocation found")
			}
		}
	}
}

// runsInsideJob reports that function f only ever runs inside a closure that
// is handed to websocket.Conn.Execute / nbhttp.Engine.SyncCall: f is such a
// closure, or every static caller of f is (transitively, depth-limited).
func (c *Ctx) runsInsideJob(f *ssa.Function, depth int) (bool, string) {
	if depth > 4 {
		return false, "call chain too deep"
	}
	if f.Parent() != nil {
		// is the closure passed to an executor?
		par := f.Parent()
		for _, b := range par.Blocks {
			for _, in := range b.Instrs {
				mc, ok := in.(*ssa.MakeClosure)
				if !ok || mc.Fn != ssa.Value(f) {
					continue
				}
				if refs := mc.Referrers(); refs != nil {
					for _, r := range *refs {
						if cs, ok := ir.AsCall(r); ok && cs.Kind == "call" {
							n := c.P.CalleeName(cs.Common)
							if n == "dyn:websocket.Conn.Execute" || n == "dyn:nbhttp.Engine.SyncCall" {
								return true, "closure handed to " + strings.TrimPrefix(n, "dyn:")
							}
						}
					}
				}
			}
		}
	}
	// all static callers
	var callers []*ssa.Function
	for _, g := range c.pkgFuncs("websocket") {
		for _, cs := range c.P.Calls(g, nil) {
			if ir.StaticCallee(cs.Common) == f {
				callers = append(callers, g)
			}
		}
	}
	if len(callers) == 0 {
		return false, c.P.FuncName(f) + " has no caller inside a job"
	}
	for _, g := range callers {
		if ok, why := c.runsInsideJob(g, depth+1); !ok {
			return false, why
		}
	}
	return true, "every caller of " + c.P.FuncName(f) + " is a closure handed to Execute/SyncCall"
}

// wsSyncCallScope: SyncCall only under isBlockingMod, Execute only under !isBlockingMod.
func wsSyncCallScope(c *Ctx, ob string) {
	const fBlk = "websocket.Conn.isBlockingMod"
	n := 0
	for _, f := range c.pkgFuncs("websocket") {
		fi := c.P.Info(f)
		for _, cs := range c.P.Calls(f, func(name string, _ ir.CallSite) bool {
			return name == "dyn:nbhttp.Engine.SyncCall" || name == "dyn:websocket.Conn.Execute"
		}) {
			sync := c.P.CalleeName(cs.Common) == "dyn:nbhttp.Engine.SyncCall"
			n++
			key := fmt.Sprintf("%s: %s#%d", c.P.FuncName(ir.Outermost(f)), map[bool]string{true: "SyncCall", false: "Execute"}[sync], n)
			ok := fi.HasFact(cs.In, func(ft ir.Fact) bool {
				k, set, isB := c.P.BoolFieldTest(ft.Cond, ft.Truth)
				return isB && k == fBlk && set == sync
			})
			if sync {
				c.Cond(ok, ob, key, c.Pos(cs.In), "on the isBlockingMod edge", "the handler is run inline through SyncCall at "+c.Pos(cs.In)+" on a connection that is not in blocking mode: it runs on the poller / parsing goroutine, next to a running callback of the same connection and ahead of queued ones")
			} else if !ok {
				// Execute outside the !isBlockingMod edge is harmless for ordering only when the mode has no own reader; report
				c.Cond(false, ob, key, c.Pos(cs.In), "", "the handler is queued with Execute at "+c.Pos(cs.In)+" off the !isBlockingMod edge")
			} else {
				c.OK(ob, key, c.Pos(cs.In), "on the !isBlockingMod edge")
			}
		}
	}
	if n == 0 {
		c.Unres(ob, "SyncCall / Execute sites", "none found")
	}
}

// c14TransferAfterOpen: O9.
func c14TransferAfterOpen(c *Ctx) {
	up := c.Fn("C14.O9", "(*websocket.Upgrader).Upgrade")
	if up == nil {
		return
	}
	fi := c.P.Info(up)
	var open ssa.Instruction
	for _, b := range up.Blocks {
		for _, in := range b.Instrs {
			if dynCallThrough(in, func(v ssa.Value) bool { return strings.HasSuffix(c.P.LoadedField(ir.Resolve(v)), ".openHandler") }) {
				open = in
			}
		}
	}
	if open == nil {
		c.Unres("C14.O9", "open handler call in Upgrade", "not found")
		return
	}
	n := 0
	for _, cs := range c.P.CallsNamed(up, "(*nbhttp.Engine).AddTransferredConn") {
		n++
		key := fmt.Sprintf("%s: transfer#%d registered after the open handler", c.P.FuncName(up), n)
		c.Cond(!fi.CanReach(cs.In, open), "C14.O9", key, c.Pos(cs.In), "registration does not precede the open handler",
			"the transferred connection is registered with the poller at "+c.Pos(cs.In)+" before the open handler runs ("+c.Pos(open)+"), and the handler is not a job of the connection: a frame that arrives right after the 101 response is parsed and its callback runs while the open handler is still running")
	}
	if n == 0 {
		c.Unres("C14.O9", "AddTransferredConn sites", "none found")
	}
}

// c14WhoCleans: O10.  In the blocking modes the message callbacks run on the
// reading goroutine (directly or through its job queue); CloseAndClean in that
// goroutine's deferred cleanup is therefore ordered after them.  The same call
// from the send-queue drainer or any other goroutine runs the close callback
// next to a message callback that is still executing.
func c14WhoCleans(c *Ctx) {
	cnt := map[string]int{}
	for _, f := range c.pkgFuncs("websocket") {
		for _, cs := range c.P.CallsNamed(f, "(*websocket.Conn).CloseAndClean") {
			on := c.P.FuncName(ir.Outermost(f))
			cnt[on]++
			key := fmt.Sprintf("%s: CloseAndClean#%d", on, cnt[on])
			ok := false
			why := "CloseAndClean is called at " + c.Pos(cs.In) + " outside the deferred cleanup of the read loop: the close callback can run while a message callback of the same connection is still executing on the reading goroutine"
			if parent := f.Parent(); parent != nil {
				deferred := false
				for _, b := range parent.Blocks {
					for _, in := range b.Instrs {
						if d, isD := in.(*ssa.Defer); isD {
							if mc, isMC := d.Call.Value.(*ssa.MakeClosure); isMC && mc.Fn == ssa.Value(f) {
								deferred = true
							}
						}
					}
				}
				reads := len(c.P.Calls(parent, func(name string, _ ir.CallSite) bool { return strings.HasSuffix(name, ".Read") })) > 0
				ok = deferred && reads
			} else if _, isD := cs.In.(*ssa.Defer); isD {
				ok = len(c.P.Calls(f, func(name string, _ ir.CallSite) bool { return strings.HasSuffix(name, ".Read") })) > 0
			}
			c.Cond(ok, "C14.O10", key, c.Pos(cs.In), "deferred cleanup of the read loop", why)
		}
	}
}

// c14ReaderHandOver: O11.
func c14ReaderHandOver(c *Ctx) {
	for _, name := range []string{"(*nbhttp.Engine).readConnBlocking", "(*nbhttp.Engine).readTLSConnBlocking"} {
		fn := c.Fn("C14.O11", name)
		if fn == nil {
			continue
		}
		var parses []ssa.Instruction
		for _, cs := range c.P.Calls(fn, func(name string, _ ir.CallSite) bool { return name == "invoke:nbhttp.ParserCloser.Parse" }) {
			parses = append(parses, cs.In)
		}
		key := fnKey(c.P, fn, "hand-over before the error return")
		if len(parses) == 0 {
			c.Unres("C14.O11", key, "Parse call not found")
			continue
		}
		fi2 := c.P.Info(fn)
		bad2 := ""
		for _, esc := range fi2.EscapesWithout(parses, func(in ssa.Instruction) bool {
			if u, ok := in.(*ssa.UnOp); ok && c.P.LoadedField(u) == "nbhttp.Parser.ParserCloser" {
				return true
			}
			// `parser != nil && parser.ParserCloser != nil`: a nil parser means the hand-over is done
			if i, ok := in.(*ssa.If); ok {
				if x, _, isN := ir.NilTest(i.Cond, true); isN && x.Type().String() == "*github.com/lesismal/nbio/nbhttp.Parser" {
					return true
				}
			}
			return false
		}) {
			if fi2.HasFact(esc, func(ft ir.Fact) bool {
				k, set, ok := c.P.BoolFieldTest(ft.Cond, ft.Truth)
				return ok && k == "nbhttp.Conn.Trasfered" && set
			}) {
				continue
			}
			bad2 = "the reader can leave at " + c.Pos(esc) + " after Parse without looking at Parser.ParserCloser: when the upgrade request and a failing frame arrive in one read, the WebSocket connection created inside that Parse is never cleaned up and its close callback never runs"
		}
		c.Cond(bad2 == "", "C14.O11", key, c.Pos(parses[0]), "every exit after Parse passes the ParserCloser test (or is the transferred edge)", bad2)
	}
}

// c14WholeRefusal: O12.
func c14WholeRefusal(c *Ctx) {
	fn := c.Fn("C14.O12", "(*websocket.Conn).WriteMessage")
	if fn == nil {
		return
	}
	fi := c.P.Info(fn)
	key := fnKey(c.P, fn, "queue room tested before the first fragment")
	var first ssa.Instruction
	for _, cs := range c.P.CallsNamed(fn, "(*websocket.Conn).writeFrame") {
		if fi.InLoop(cs.In) {
			first = cs.In
		}
	}
	if first == nil {
		c.Unres("C14.O12", key, "fragment loop not found")
		return
	}
	ok := false
	mentions := func(cond ssa.Value) (usesLen, usesSize bool) {
		seen := map[ssa.Value]bool{}
		var walk func(v ssa.Value, d int)
		walk = func(v ssa.Value, d int) {
			if v == nil || seen[v] || d > 8 {
				return
			}
			seen[v] = true
			switch c.P.LoadedField(v) {
			case fWsSendQueue:
				usesLen = true
			case "websocket.Conn.sendQueueSize":
				usesSize = true
			}
			if in, ok := v.(ssa.Instruction); ok {
				for _, op := range in.Operands(nil) {
					if *op != nil {
						walk(*op, d+1)
					}
				}
			}
		}
		walk(cond, 0)
		return
	}
	for _, t := range fi.Ifs() {
		l, sz := mentions(t.Cond)
		if !l || !sz || !fi.CanReach(t, first) {
			continue
		}
		if fi.Dominates(t, first) {
			ok = true
			continue
		}
		// inside a guard on the queue's existence / bound that itself dominates the loop
		for _, g := range fi.Ifs() {
			gl, gs := mentions(g.Cond)
			if (gl || gs) && g != t && fi.Dominates(g, first) && fi.Dominates(g, t) {
				ok = true
			}
		}
	}
	for _, i := range fi.Ifs() {
		if ok || !fi.Dominates(i, first) {
			continue
		}
		usesLen, usesSize := false, false
		seen := map[ssa.Value]bool{}
		var walk func(v ssa.Value, d int)
		walk = func(v ssa.Value, d int) {
			if v == nil || seen[v] || d > 8 {
				return
			}
			seen[v] = true
			switch c.P.LoadedField(v) {
			case fWsSendQueue:
				usesLen = true
			case "websocket.Conn.sendQueueSize":
				usesSize = true
			}
			if in, ok := v.(ssa.Instruction); ok {
				for _, op := range in.Operands(nil) {
					if *op != nil {
						walk(*op, d+1)
					}
				}
			}
		}
		walk(i.Cond, 0)
		if usesLen && usesSize {
			ok = true
		}
	}
	c.Cond(ok, "C14.O12", key, c.Pos(first), "a test over len(sendQueue) and sendQueueSize dominates the fragment loop",
		"WriteMessage writes the fragments of a message one by one into a bounded send queue without testing the room for all of them first: when the queue fills up half way it returns ErrMessageSendQuqueIsFull while the fragments already queued go out, so the peer is left inside an unfinished message and the next message is a protocol error")
	if !ok {
		return
	}
	// the frames are counted on the bytes that are cut into frames
	loop := fi.LoopBlocks(first.Block())
	var cut ssa.Value
	for b := range loop {
		for _, in := range b.Instrs {
			phi, isPhi := in.(*ssa.Phi)
			if !isPhi {
				continue
			}
			if sl, isSl := phi.Type().Underlying().(*types.Slice); !isSl || !types.Identical(sl.Elem(), types.Typ[types.Byte]) {
				continue
			}
			for k, pr := range b.Preds {
				if !loop[pr] {
					cut = ir.Resolve(phi.Edges[k])
				}
			}
		}
	}
	key2 := fnKey(c.P, fn, "frames counted on what is cut into frames")
	if cut == nil {
		c.Unres("C14.O12", key2, "the fragment loop's data value was not found")
		return
	}
	counted := false
	var lens []string
	for _, t := range fi.Ifs() {
		l, sz := mentions(t.Cond)
		if !l || !sz || !fi.CanReach(t, first) {
			continue
		}
		seen := map[ssa.Value]bool{}
		var walk func(v ssa.Value, d int)
		walk = func(v ssa.Value, d int) {
			if v == nil || seen[v] || d > 10 {
				return
			}
			seen[v] = true
			if x, isLen := ir.IsLenOf(v); isLen {
				if sl, isSl := x.Type().Underlying().(*types.Slice); isSl && types.Identical(sl.Elem(), types.Typ[types.Byte]) {
					lens = append(lens, c.P.Desc(x))
					if ir.Resolve(x) == cut {
						counted = true
					}
				}
			}
			if in, ok := v.(ssa.Instruction); ok {
				for _, op := range in.Operands(nil) {
					if *op != nil {
						walk(*op, d+1)
					}
				}
			}
		}
		walk(t.Cond, 0)
	}
	c.Cond(counted, "C14.O12", key2, c.Pos(first), "the room test measures the value the fragment loop starts from",
		fmt.Sprintf("the room test counts frames on %v, but the fragment loop cuts %s (the data after compression): an incompressible message grows by a few bytes when deflated and needs one frame more than was budgeted, so its last fragment is refused after the others were queued and the peer is left inside an unfinished message", lens, c.P.Desc(cut)))
}
