package props

import (
	"go/types"

	"golang.org/x/tools/go/ssa"

	"verif/internal/ir"
)

// Engine E3: error-result discipline.  The error result of a listed call must
// reach a nil comparison on that very value, and the non-nil edge must lead on
// every path to one of the accepted reactions before the function continues
// with its normal work.

type errReaction struct {
	// react recognises an accepted reaction instruction (close of the
	// connection, ...); a Return is handled separately.
	react func(in ssa.Instruction) bool
	// returnOK decides whether reaching this return on the failure edge is an
	// accepted reaction.
	returnOK func(fi *ir.FnInfo, r *ssa.Return, errv ssa.Value) (bool, string)
	// resume recognises instructions that mean "normal work continues" (the
	// next read / parse of the loop): reaching one without a reaction is a violation.
	resume func(in ssa.Instruction) bool
}

// errValueOf returns the error-typed result of a call instruction.
func errValueOf(call *ssa.Call) ssa.Value {
	errT := types.Universe.Lookup("error").Type()
	if types.Identical(call.Type(), errT) {
		return call
	}
	var errv ssa.Value
	if refs := call.Referrers(); refs != nil {
		for _, r := range *refs {
			if e, ok := r.(*ssa.Extract); ok && types.Identical(e.Type(), errT) {
				errv = e
			}
		}
	}
	return errv
}

// errDiscipline checks one call site; "" means discharged.
func (c *Ctx) errDiscipline(fi *ir.FnInfo, call *ssa.Call, rx errReaction) string {
	errv := errValueOf(call)
	if errv == nil {
		return "the error result is discarded"
	}
	refs := errv.Referrers()
	if refs == nil || len(*refs) == 0 {
		return "the error result is discarded"
	}
	// direct propagation: the error is returned as is
	tested := false
	for _, i := range fi.Ifs() {
		for k := 0; k < 2; k++ {
			x, isNil, ok := ir.NilTest(i.Cond, k == 0)
			if !ok || isNil || !ir.SameValue(x, errv) {
				continue
			}
			tested = true
			// walk the failure edge
			seen := map[ssa.Instruction]bool{}
			var work []ssa.Instruction
			if s := i.Block().Succs[k]; len(s.Instrs) > 0 {
				work = append(work, s.Instrs[0])
			}
			for len(work) > 0 {
				in := work[len(work)-1]
				work = work[:len(work)-1]
				if seen[in] {
					continue
				}
				seen[in] = true
				if rx.react != nil && rx.react(in) {
					continue
				}
				if r, ok := in.(*ssa.Return); ok {
					if rx.returnOK != nil {
						if ok2, why := rx.returnOK(fi, r, errv); !ok2 {
							return why
						}
					}
					continue
				}
				if _, ok := in.(*ssa.Panic); ok {
					continue
				}
				if rx.resume != nil && rx.resume(in) || in == ssa.Instruction(call) {
					return "after the failure is detected at " + c.Pos(i) + " the function carries on at " + c.Pos(in) + " without reacting"
				}
				work = append(work, ir.Succ(in)...)
			}
		}
	}
	if tested {
		return ""
	}
	// returned directly (propagation)?
	for _, r := range fi.Returns() {
		rv := ir.RetVals(r)
		if len(rv) > 0 && ir.SameValue(rv[len(rv)-1], errv) {
			return ""
		}
	}
	return "the error result is never compared with nil (a different variable is tested, or none)"
}
