package props

import (
	"fmt"
	"go/constant"
	"go/token"
	"go/types"
	"strings"

	"golang.org/x/tools/go/ssa"

	"verif/internal/ir"
)

func init() {
	register(&Property{
		ID:          "C09",
		Engines:     []string{"cfg"},
		Explanation: "HTTP response framing, structural part: every success return of Response.Write / writeChunk reports len(data) — the value bound to it or the direct result of conn.Write(data) on the same data (O1); on every success path of writeChunk the appended tokens are hex(len) CRLF data CRLF with hex = formatInt(l,16) (O2); the final flush emits \"0\" CRLF (name \": \" value CRLF)* CRLF in chunked mode and never writes pending body before pending head in identity mode (O3); every path of checkChunked that sets chunked removes Content-Length and ends with Transfer-Encoding: chunked present, the fallback requires HTTP/1.1, no Content-Length and a status other than 204/304, eoncodeHead emits Content-Length only on the !chunked edge (O4); both are encode-once behind their flags (O5); a value bound by a comma-ok type assertion is not dereferenced off the ok edge (O6); a freshly allocated buffer is truncated or filled before it is appended to (O7). Write counts len(data) into bodyWritten at most once per call and on every accepting path, and writeChunk is reached only with a non-empty chunk (O8). The head is encoded only after WriteHeader and checkChunked (O9); ReadFrom emits raw bytes only in identity framing with a positive declared length, from the reader it was given (O10); nil flow of the two response buffers (O11); WriteHeader keeps only a valid, non-negative Content-Length (O12). The chunked fallback has exactly its four conditions (O4); only the frozen writers store to the pending buffers (O13). Status and trailers are the handler's (O14). Every value of a trailer is sent (O14). A declared Content-Length of 0 is enforced (O16).",
		NotCovered:  "decoding by an independent client (byte-level), the 64 KiB threshold arithmetic, Content-Length versus bytes actually written, trailer values set after the head was encoded",
		Run:         runC09,
	})
}

func constString(v ssa.Value) (string, bool) {
	k, ok := ir.Unconv(v).(*ssa.Const)
	if !ok || k.Value == nil || k.Value.Kind() != constant.String {
		return "", false
	}
	return constant.StringVal(k.Value), true
}

func runC09(c *Ctx) {
	c.Rule("C09.O1", "E4", "Response.Write / writeChunk: a return whose error may be nil returns len(data) (the bound value, writeChunk's pass-through, or the direct result of conn.Write(data))", 5)
	c.Rule("C09.O2", "E10", "writeChunk: on every success path the appended tokens are formatInt(l,16), CRLF, data, CRLF in this order", 1)
	c.Rule("C09.O3", "E10,E4", "flush: chunked terminator \"0\\r\\n\" (k \": \" v \"\\r\\n\")* \"\\r\\n\"; identity mode never writes pending body before pending head", 2)
	c.Rule("C09.O4", "E4", "checkChunked: chunked=true is followed by delete(Content-Length) and Transfer-Encoding: chunked; fallback needs ProtoAtLeast(1,1), no Content-Length, status not 204/304; eoncodeHead emits Content-Length only when !chunked", 3)
	c.Rule("C09.O5", "E4", "eoncodeHead / checkChunked: flag tested first and set before any emission", 2)
	c.Rule("C09.O6", "nil-flow", "a value bound by `v, ok := x.(T)` is dereferenced only on paths dominated by ok", 40)
	c.Rule("C09.O8", "E4", "Content-Length accounting: Write adds len(data) to bodyWritten at most once per call and on every path that accepts the bytes; writeChunk is only reached with a non-empty chunk (an empty one would encode the terminating chunk)", 3)
	c09Accounting(c)
	c.Rule("C09.O9", "E4", "the head is encoded only after the framing was decided: every call of eoncodeHead is dominated (in its function, or at every call of its function) by WriteHeader and checkChunked, so no entry point (Write, WriteString, ReadFrom, Flush, the final flush) emits a head without status line or with the wrong framing fields", 4)
	c.Rule("C09.O10", "E4", "ReadFrom hands raw reader bytes to the connection (Sendfile, io.Copy to the conn) only on the edge where the response is not chunked and tested its declared Content-Length; it copies from the reader it was given (a LimitedReader's bound is kept)", 3)
	c.Rule("C09.O11", "nil-flow", "Response.buffer / Response.bodyBuffer are dereferenced only behind a non-nil test of the same pointer or a dominating assignment from the pool in the same function, with no clearing store in between", 15)
	c09HeadAndRaw(c)
	c.Rule("C09.O13", "E5", "who may write the response's pending buffers (Response.buffer, Response.bodyBuffer): Write, writeChunk, eoncodeHead, Flush, flush, ReadFrom and the release path; every other method (WriteString, ...) goes through Write and inherits its guards (empty input, framing decision, accounting)", 20)
	c09BufferWriters(c)
	c.Rule("C09.O14", "E4,E5", "status and trailers are the handler's: WriteHeader records the status code without asking whether net/http has a text for it; the declared trailer names that eoncodeHead sets aside are canonicalised elements of the comma-separated Trailer field; flush reads the trailer values from the header when it emits them (a trailer is set after the body)", 3)
	c09StatusAndTrailers(c)
	c.Rule("C09.O15", "E4", "body bytes go out only where a message body is allowed (not for a HEAD request, not with a 1xx / 204 / 304 status): Write's framing and buffering, the raw path of ReadFrom and the terminating chunk of the final flush are dominated by the positive edge of one predicate over the request method and the status code", 3)
	c09BodyAllowed(c)
	c.Rule("C09.O16", "E4", "a handler-declared Content-Length of 0 is enforced: Write returns ErrContentLength on the edge on which the declared length is 0 and the field is present", 1)
	c09DeclaredZero(c)
	c.Rule("C09.O12", "E4,E6", "WriteHeader keeps a Content-Length header only when it parsed without error to a value >= 0: every path from the parse that does not delete the field carries both outcomes", 1)
	c09KeepsValidLength(c)
	c.Rule("C09.O7", "E2-ext", "a buffer from Malloc(n), n != 0, is truncated or filled before it is the destination of Append/AppendString", 20)

	write := c.Fn("C09.O1", "(*nbhttp.Response).Write")
	chunk := c.Fn("C09.O1", "(*nbhttp.Response).writeChunk")

	// ------------------------------------------------------------------ O1
	if write != nil && chunk != nil {
		fi := c.P.Info(write)
		pd := paramOfType(write, "[]byte")
		n := 0
		for _, r := range fi.Returns() {
			if _, kind := c.retErr(fi, r); kind == "nonnil" {
				continue
			}
			n++
			key := fmt.Sprintf("%s: success-return#%d", c.P.FuncName(write), n)
			rv := ir.RetVals(r)
			v := ir.Resolve(rv[0])
			ok, why := false, "returns "+c.P.Desc(v)+", which is not len(data): io.Copy and http.ResponseWriter users would see a short or long write"
			if x, isLen := ir.IsLenOf(v); isLen && ir.Resolve(x) == ssa.Value(pd) {
				ok = true
			}
			if e, isE := v.(*ssa.Extract); isE && e.Index == 0 {
				if call, isCall := e.Tuple.(*ssa.Call); isCall {
					switch {
					case ir.StaticCallee(&call.Call) == chunk:
						// pass-through of writeChunk(conn, data, len(data))
						a := call.Call.Args
						if ir.Resolve(a[2]) == ssa.Value(pd) {
							if x, isLen := ir.IsLenOf(ir.Resolve(a[3])); isLen && ir.Resolve(x) == ssa.Value(pd) {
								ok = true
							}
						}
					case call.Call.IsInvoke() && call.Call.Method.Name() == "Write":
						if ir.Resolve(call.Call.Args[0]) == ssa.Value(pd) {
							ok = true
						} else {
							why = "returns the byte count of conn.Write(" + c.P.Desc(call.Call.Args[0]) + "), not of the caller's data: a Write that flushes the coalescing buffer reports head + earlier body + data"
						}
					}
				}
			}
			if k, isK := ir.ConstInt(v); isK && k == 0 {
				// entry guard: len(data)==0 or no connection
				if r.Block().Index <= 1 || fi.HasFact(r, func(ft ir.Fact) bool {
					_, zero, okz := ir.ZeroTest(ft.Cond, ft.Truth)
					_, isNil, okn := ir.NilTest(ft.Cond, ft.Truth)
					return okz && zero || okn && isNil
				}) {
					ok = true
				}
				// the guard block is entered from `l == 0 || conn == nil`
				for _, p := range r.Block().Preds {
					if i, isIf := p.Instrs[len(p.Instrs)-1].(*ssa.If); isIf {
						if _, zero, okz := ir.ZeroTest(i.Cond, true); okz && zero {
							ok = true
						}
					}
				}
			}
			c.Cond(ok, "C09.O1", key, c.Pos(r), "returns len(data)", why)
		}
		// writeChunk
		ci := c.P.Info(chunk)
		var pl *ssa.Parameter
		for _, p := range chunk.Params {
			if p.Type().String() == "int" {
				pl = p
			}
		}
		m := 0
		for _, r := range ci.Returns() {
			if _, kind := c.retErr(ci, r); kind == "nonnil" {
				continue
			}
			m++
			key := fmt.Sprintf("%s: success-return#%d", c.P.FuncName(chunk), m)
			c.Cond(ir.Resolve(ir.RetVals(r)[0]) == ssa.Value(pl), "C09.O1", key, c.Pos(r), "returns l", "writeChunk returns "+c.P.Desc(ir.RetVals(r)[0])+" instead of the length it was given")
		}
	}

	// ------------------------------------------------------------------ O2
	if chunk != nil {
		c09ChunkTokens(c, chunk)
	}

	// ------------------------------------------------------------------ O3
	if fl := c.Fn("C09.O3", "(*nbhttp.Response).flush"); fl != nil {
		c09FinalFlush(c, fl)
	}

	// ------------------------------------------------------------------ O4
	if cc := c.Fn("C09.O4", "(*nbhttp.Response).checkChunked"); cc != nil {
		fi := c.P.Info(cc)
		isDelCL := func(in ssa.Instruction) bool {
			cs, ok := ir.AsCall(in)
			if !ok || c.P.CalleeName(cs.Common) != "builtin:delete" {
				return false
			}
			s, isS := constString(cs.Common.Args[1])
			return isS && s == "Content-Length"
		}
		isSetTE := func(in ssa.Instruction) bool {
			cs, ok := ir.AsCall(in)
			if !ok || !strings.HasSuffix(c.P.CalleeName(cs.Common), "Header).Set") {
				return false
			}
			k, _ := constString(cs.Common.Args[1])
			v, _ := constString(cs.Common.Args[2])
			return k == "Transfer-Encoding" && v == "chunked"
		}
		bad := ""
		nSet := 0
		for _, st := range c.P.StoresTo(cc, "nbhttp.Response.chunked") {
			if !isStoreTrue(st, c.P, "nbhttp.Response.chunked") {
				continue
			}
			nSet++
			// delete(Content-Length) on every path to the return
			// after chunked = true the `if res.chunked` false edge is infeasible
			notChunked := func(i *ssa.If, k int) bool {
				f, set, ok := c.P.BoolFieldTest(i.Cond, k == 0)
				return ok && f == "nbhttp.Response.chunked" && !set
			}
			vis, _ := fi.ReachOpt([]ssa.Instruction{st}, isDelCL, notChunked)
			for in := range vis {
				if ir.IsExit(in) {
					bad = "chunked is set at " + c.Pos(st) + " but a path returns without removing Content-Length: both framings would be announced"
				}
			}
			// Transfer-Encoding present: explicit header edge, or Set on every path
			explicit := fi.HasFact(st, func(ft ir.Fact) bool {
				b, ok := ft.Cond.(*ssa.BinOp)
				if !ok || b.Op != token.EQL || !ft.Truth {
					return false
				}
				s, isS := constString(b.Y)
				return isS && s == "chunked"
			})
			if !explicit {
				vis, _ := fi.ReachOpt([]ssa.Instruction{st}, isSetTE, notChunked)
				for in := range vis {
					if ir.IsExit(in) {
						bad = "chunked is set at " + c.Pos(st) + " but Transfer-Encoding: chunked is not added on every path"
					}
				}
			}
		}
		if nSet != 3 && bad == "" {
			bad = fmt.Sprintf("expected 3 sites that choose chunked framing, found %d", nSet)
		}
		c.Cond(bad == "", "C09.O4", fnKey(c.P, cc, "chunked implies TE and no CL"), c.FnPos(cc), "3 sites; delete(Content-Length) and Transfer-Encoding on every path", bad)
		// the fallback
		bad = "fallback to chunked not found"
		for _, st := range c.P.StoresTo(cc, "nbhttp.Response.chunked") {
			proto := fi.HasFact(st, func(ft ir.Fact) bool {
				call, ok := ft.Cond.(*ssa.Call)
				if !ok || !ft.Truth || !strings.HasSuffix(c.P.CalleeName(&call.Call), ".ProtoAtLeast") {
					return false
				}
				a, _ := ir.ConstInt(call.Call.Args[1])
				b, _ := ir.ConstInt(call.Call.Args[2])
				return a == 1 && b == 1
			})
			if !proto {
				continue
			}
			bad = ""
			noCL := fi.HasFact(st, func(ft ir.Fact) bool {
				b, ok := ft.Cond.(*ssa.BinOp)
				if !ok {
					return false
				}
				s, isS := constString(b.Y)
				call, isCall := ir.Resolve(b.X).(*ssa.Call)
				if !isS || s != "" || !isCall || !strings.HasSuffix(c.P.CalleeName(&call.Call), "Header).Get") {
					return false
				}
				k, _ := constString(call.Call.Args[1])
				return k == "Content-Length" && (b.Op == token.EQL) == ft.Truth
			})
			lo204, hi204 := int64(0), int64(0)
			_ = lo204
			_ = hi204
			not := map[int64]bool{}
			for _, ft := range fi.Facts(st) {
				cmp, ok := ir.DecodeIntCmp(ft.Cond)
				if ok && c.P.LoadedField(cmp.Expr) == "nbhttp.Response.statusCode" && cmp.TrueSet.Lo == cmp.TrueSet.Hi && cmp.NotEq == ft.Truth {
					not[cmp.TrueSet.Lo] = true
				}
			}
			if !noCL {
				bad = "the fallback to chunked framing does not require the absence of Content-Length"
			} else if !not[204] || !not[304] {
				bad = "the fallback to chunked framing is not excluded for 204 / 304 responses"
			} else {
				// nothing else restricts the fallback: the facts that hold at the store but not
				// yet at the version test are exactly the four above
				var protoCall ssa.Instruction
				for _, cs := range c.P.Calls(cc, func(name string, _ ir.CallSite) bool { return strings.HasSuffix(name, ".ProtoAtLeast") }) {
					protoCall = cs.In
				}
				if protoCall != nil {
					before := map[string]bool{}
					for _, ft := range fi.Facts(protoCall) {
						before[fmt.Sprintf("%p/%v", ft.If, ft.Truth)] = true
					}
					extra := 0
					what := ""
					for _, ft := range fi.Facts(st) {
						if !before[fmt.Sprintf("%p/%v", ft.If, ft.Truth)] {
							extra++
							if d := c.P.Desc(ft.Cond); !strings.Contains(d, "ProtoAtLeast") && !strings.Contains(d, "Content-Length") && !strings.Contains(d, "statusCode") {
								what = d
							}
						}
					}
					if extra > 4 || what != "" {
						bad = "the fallback to chunked framing is restricted by a further condition (" + what + "): an HTTP/1.1 response without Content-Length that fails it is sent with identity framing whose length is measured when the head is first encoded, so a Flush in the middle of the body announces too few bytes"
					}
				}
			}
		}
		c.Cond(bad == "", "C09.O4", fnKey(c.P, cc, "fallback conditions"), c.FnPos(cc), "HTTP/1.1, no Content-Length, status not 204/304", bad)
	}
	if eh := c.Fn("C09.O4", "(*nbhttp.Response).eoncodeHead"); eh != nil {
		fi := c.P.Info(eh)
		bad := ""
		n := 0
		for _, cs := range c.P.CallsNamed(eh, "mempool.AppendString") {
			s, isS := constString(cs.Common.Args[1])
			if !isS || !strings.HasPrefix(s, "Content-Length") {
				continue
			}
			n++
			if !fi.HasFact(cs.In, func(ft ir.Fact) bool {
				k, set, ok := c.P.BoolFieldTest(ft.Cond, ft.Truth)
				return ok && k == "nbhttp.Response.chunked" && !set
			}) {
				bad = "a Content-Length header is emitted at " + c.Pos(cs.In) + " although the response may be chunked"
			}
		}
		if n == 0 {
			bad = "no Content-Length emission found"
		}
		c.Cond(bad == "", "C09.O4", fnKey(c.P, eh, "Content-Length only when !chunked"), c.FnPos(eh), fmt.Sprintf("%d emission sites on the !chunked edge", n), bad)

		// ---------------------------------------------------------------- O5
		c09Once(c, eh, "nbhttp.Response.headEncoded")
	}
	if cc := c.Fn("C09.O5", "(*nbhttp.Response).checkChunked"); cc != nil {
		c09Once(c, cc, "nbhttp.Response.chunkChecked")
	}

	// ------------------------------------------------------------------ O6
	{
		n := 0
		for _, f := range c.pkgFuncs("nbio", "nbhttp", "websocket") {
			fi := c.P.Info(f)
			k := 0
			for _, b := range f.Blocks {
				for _, in := range b.Instrs {
					ta, ok := in.(*ssa.TypeAssert)
					if !ok || !ta.CommaOk {
						continue
					}
					if _, isPtr := ta.AssertedType.Underlying().(*types.Pointer); !isPtr {
						continue
					}
					var val, okv ssa.Value
					if refs := ta.Referrers(); refs != nil {
						for _, r := range *refs {
							if e, isE := r.(*ssa.Extract); isE {
								if e.Index == 0 {
									val = e
								} else {
									okv = e
								}
							}
						}
					}
					if val == nil {
						continue
					}
					n++
					k++
					key := fmt.Sprintf("%s: %s#%d", c.P.FuncName(f), "comma-ok "+c.P.Short(types.TypeString(ta.AssertedType, nil)), k)
					bad := ""
					for _, d := range derefsOf(val) {
						guarded := okv != nil && fi.HasFact(d, func(ft ir.Fact) bool { return ir.SameValue(ft.Cond, okv) && ft.Truth })
						nonNil := fi.HasFact(d, func(ft ir.Fact) bool {
							x, isNil, ok := ir.NilTest(ft.Cond, ft.Truth)
							return ok && !isNil && ir.SameValue(x, val)
						})
						if !guarded && !nonNil {
							bad = "the value of a failed type assertion (nil) is dereferenced at " + c.Pos(d) + " on a path not dominated by ok"
						}
					}
					c.Cond(bad == "", "C09.O6", key, c.Pos(ta), "dereferenced only behind ok", bad)
				}
			}
		}
		if n < 10 {
			c.Unres("C09.O6", "comma-ok pointer assertions", fmt.Sprintf("found %d", n))
		}
	}

	// ------------------------------------------------------------------ O7
	c09FreshBuffers(c)
}

// derefsOf lists instructions that dereference pointer v (field address, load,
// method call with v as receiver), following phis and cell copies of v.
func derefsOf(v ssa.Value) []ssa.Instruction {
	var out []ssa.Instruction
	seen := map[ssa.Value]bool{}
	var visit func(x ssa.Value)
	visit = func(x ssa.Value) {
		if seen[x] {
			return
		}
		seen[x] = true
		refs := x.Referrers()
		if refs == nil {
			return
		}
		for _, r := range *refs {
			switch u := r.(type) {
			case *ssa.FieldAddr:
				if u.X == x {
					out = append(out, u)
				}
			case *ssa.UnOp:
				if u.Op == token.MUL && u.X == x {
					out = append(out, u)
				}
			case *ssa.Call:
				if !u.Call.IsInvoke() && len(u.Call.Args) > 0 && u.Call.Args[0] == x {
					if callee := ir.StaticCallee(&u.Call); callee != nil && callee.Signature.Recv() != nil {
						// method call on a possibly nil receiver: only a dereference if the method loads through it;
						// conservatively skip (methods may accept nil receivers)
					}
				}
			}
		}
	}
	visit(v)
	return out
}

// c09Once: flag tested first (true edge returns), set before any emission.
func c09Once(c *Ctx, fn *ssa.Function, flag string) {
	fi := c.P.Info(fn)
	key := fnKey(c.P, fn, "encode-once")
	bad := ""
	i, isIf := fn.Blocks[0].Instrs[len(fn.Blocks[0].Instrs)-1].(*ssa.If)
	k, _, okB := "", false, false
	if isIf {
		k, _, okB = c.P.BoolFieldTest(i.Cond, true)
	}
	if !isIf || !okB || k != flag {
		bad = "the function does not start with the test of " + flag
	} else {
		e := edgeForTruth(i, true)
		vis, _ := fi.ReachFromEdge(i, e, nil)
		for in := range vis {
			if cs, ok := ir.AsCall(in); ok {
				bad = "the already-done edge still does work: " + c.P.CalleeName(cs.Common)
			}
		}
		var set ssa.Instruction
		for _, st := range c.P.StoresTo(fn, flag) {
			if isStoreTrue(st, c.P, flag) {
				set = st
			}
		}
		if set == nil {
			bad = flag + " is never set"
		} else {
			for _, cs := range c.P.Calls(fn, nil) {
				n := c.P.CalleeName(cs.Common)
				emits := strings.HasPrefix(n, "mempool.") || n == "builtin:delete" || strings.HasSuffix(n, "Header).Set")
				if emits && !fi.Dominates(set, cs.In) {
					bad = n + " at " + c.Pos(cs.In) + " runs before " + flag + " is set"
				}
			}
			for _, st := range c.P.StoresTo(fn, "nbhttp.Response.chunked") {
				if !fi.Dominates(set, st) {
					bad = "chunked is decided before " + flag + " is set"
				}
			}
		}
	}
	c.Cond(bad == "", "C09.O5", key, c.FnPos(fn), flag+" tested first and set before any emission", bad)
}

// c09ChunkTokens: O2 — enumerate the acyclic paths of writeChunk.
func c09ChunkTokens(c *Ctx, fn *ssa.Function) {
	key := fnKey(c.P, fn, "chunk = hex CRLF data CRLF")
	fi := c.P.Info(fn)
	pd := paramOfType(fn, "[]byte")
	var pl *ssa.Parameter
	for _, p := range fn.Params {
		if p.Type().String() == "int" {
			pl = p
		}
	}
	tokenOf := func(cs ir.CallSite) string {
		n := c.P.CalleeName(cs.Common)
		if n != "mempool.Append" && n != "mempool.AppendString" {
			return ""
		}
		a := cs.Common.Args[1]
		if s, ok := constString(a); ok {
			return fmt.Sprintf("%q", s)
		}
		ra := ir.Resolve(a)
		if ra == ssa.Value(pd) {
			return "data"
		}
		if call, ok := ra.(*ssa.Call); ok && c.P.CalleeName(&call.Call) == "(*nbhttp.Response).formatInt" {
			base, _ := ir.ConstInt(call.Call.Args[2])
			if ir.Resolve(call.Call.Args[1]) == ssa.Value(pl) && base == 16 {
				return "hex(l)"
			}
			return fmt.Sprintf("formatInt(%s,%d)", c.P.Desc(call.Call.Args[1]), base)
		}
		return "?" + c.P.Desc(a)
	}
	want := []string{"hex(l)", `"\r\n"`, "data", `"\r\n"`}
	bad := ""
	paths := 0
	var walk func(b *ssa.BasicBlock, toks []string, seen map[*ssa.BasicBlock]bool)
	walk = func(b *ssa.BasicBlock, toks []string, seen map[*ssa.BasicBlock]bool) {
		if seen[b] || bad != "" || paths > 4000 {
			return
		}
		seen[b] = true
		defer delete(seen, b)
		for _, in := range b.Instrs {
			if cs, ok := ir.AsCall(in); ok {
				if t := tokenOf(cs); t != "" {
					toks = append(append([]string{}, toks...), t)
				}
			}
			if r, ok := in.(*ssa.Return); ok {
				paths++
				if _, kind := c.retErr(fi, r); kind == "nonnil" {
					return
				}
				if strings.Join(toks, " ") != strings.Join(want, " ") {
					bad = fmt.Sprintf("a success path ending at %s appends [%s]; a chunk is [%s]", c.Pos(r), strings.Join(toks, " "), strings.Join(want, " "))
				}
				return
			}
		}
		for _, s := range b.Succs {
			walk(s, toks, seen)
		}
	}
	walk(fn.Blocks[0], nil, map[*ssa.BasicBlock]bool{})
	if paths == 0 {
		bad = "no path"
	}
	c.ExhaustiveTbl["writeChunk paths"] = paths
	c.Cond(bad == "", "C09.O2", key, c.FnPos(fn), fmt.Sprintf("%d paths, each success path appends hex(l) CRLF data CRLF", paths), bad)
}

// c09FinalFlush: O3.
func c09FinalFlush(c *Ctx, fl *ssa.Function) {
	fi := c.P.Info(fl)
	// chunked terminator
	{
		key := fnKey(c.P, fl, "chunked terminator")
		bad := ""
		var zero, zeroOnly, tail []ir.CallSite
		var loopToks []string
		for _, cs := range c.P.CallsNamed(fl, "mempool.AppendString") {
			s, isS := constString(cs.Common.Args[1])
			inLoop := fi.InLoop(cs.In)
			switch {
			case isS && s == "0\r\n\r\n":
				zeroOnly = append(zeroOnly, cs)
			case isS && s == "0\r\n":
				zero = append(zero, cs)
			case isS && s == "\r\n" && !inLoop:
				tail = append(tail, cs)
			case inLoop:
				if isS {
					loopToks = append(loopToks, fmt.Sprintf("%q", s))
				} else if e, isE := ir.Resolve(cs.Common.Args[1]).(*ssa.Extract); isE {
					loopToks = append(loopToks, fmt.Sprintf("range#%d", e.Index))
				} else if isTrailerValue(c, ir.Resolve(cs.Common.Args[1]), 0) {
					// the value the header holds for the range key now (or the captured one)
					loopToks = append(loopToks, "range#2")
				} else {
					loopToks = append(loopToks, "?")
				}
			}
		}
		switch {
		case len(zeroOnly) != 1:
			bad = "the no-trailer terminator \"0\\r\\n\\r\\n\" is not emitted exactly once"
		case len(zero) != 1 || len(tail) != 1:
			bad = "the trailer form \"0\\r\\n\" ... \"\\r\\n\" is incomplete"
		case strings.Join(loopToks, " ") != `range#1 ": " range#2 "\r\n"`:
			bad = "a trailer line is emitted as [" + strings.Join(loopToks, " ") + "], expected name \": \" value \"\\r\\n\""
		case !fi.CanReach(zero[0].In, tail[0].In) || fi.CanReach(tail[0].In, zero[0].In):
			bad = "the closing CRLF does not follow the \"0\\r\\n\" line"
		default:
			// no-trailer form on the len(trailer)==0 edge
			if !fi.HasFact(zeroOnly[0].In, func(ft ir.Fact) bool { _, z, ok := ir.ZeroTest(ft.Cond, ft.Truth); return ok && z }) {
				bad = "the short terminator is not on the no-trailer edge"
			}
			// all on the chunked edge
			for _, cs := range append(append(zeroOnly, zero...), tail...) {
				if !fi.HasFact(cs.In, func(ft ir.Fact) bool {
					k, set, ok := c.P.BoolFieldTest(ft.Cond, ft.Truth)
					return ok && k == "nbhttp.Response.chunked" && set
				}) {
					bad = "a chunk terminator is emitted off the chunked edge"
				}
			}
		}
		c.Cond(bad == "", "C09.O3", key, c.FnPos(fl), "\"0\\r\\n\\r\\n\" or \"0\\r\\n\" (k \": \" v \"\\r\\n\")* \"\\r\\n\"", bad)
	}
	// identity: head before body
	{
		key := fnKey(c.P, fl, "head before body")
		var head, body []ssa.Instruction
		for _, cs := range c.P.Calls(fl, nil) {
			if !(cs.Common.IsInvoke() && cs.Common.Method.Name() == "Write") {
				continue
			}
			a, isLoad := ir.IsLoad(ir.Resolve(cs.Common.Args[0]))
			if !isLoad {
				continue
			}
			switch c.P.LoadedField(ir.Resolve(a)) {
			case "nbhttp.Response.buffer":
				head = append(head, cs.In)
			case "nbhttp.Response.bodyBuffer":
				body = append(body, cs.In)
			}
		}
		bad := ""
		if len(head) == 0 || len(body) == 0 {
			bad = fmt.Sprintf("head writes=%d body writes=%d", len(head), len(body))
		}
		for _, b := range body {
			for _, h := range head {
				if fi.CanReach(b, h) {
					bad = "the pending body can be written at " + c.Pos(b) + " before the pending head at " + c.Pos(h)
				}
			}
		}
		c.Cond(bad == "", "C09.O3", key, c.FnPos(fl), fmt.Sprintf("%d head writes, %d body writes, body never first", len(head), len(body)), bad)
	}
}

// c09FreshBuffers: O7.
func c09FreshBuffers(c *Ctx) {
	cfg := c.tsConfig()
	n := 0
	for _, f := range c.pkgFuncs("nbio", "nbhttp", "websocket") {
		fi := c.P.Info(f)
		k := 0
		for _, cs := range c.P.Calls(f, nil) {
			if !cfg.IsMalloc(cs) || cs.Value() == nil {
				continue
			}
			size := cs.Common.Args[len(cs.Common.Args)-1]
			if z, isK := ir.ConstInt(size); isK && z == 0 {
				continue
			}
			n++
			k++
			key := fmt.Sprintf("%s: Malloc#%d", c.P.FuncName(f), k)
			m := cs.Value()
			// values that are (or may be) this buffer: m, phis of m, loads of cells holding m
			alias := map[ssa.Value]bool{m: true}
			cells := map[ssa.Value]bool{}
			for changed := true; changed; {
				changed = false
				for _, b := range f.Blocks {
					for _, in := range b.Instrs {
						switch x := in.(type) {
						case *ssa.Phi:
							for _, e := range x.Edges {
								if alias[e] && !alias[x] {
									alias[x] = true
									changed = true
								}
							}
						case *ssa.Store:
							if alias[x.Val] {
								if a, ok := x.Addr.(*ssa.Alloc); ok && !cells[a] {
									cells[a] = true
									changed = true
								}
							}
						case *ssa.UnOp:
							if x.Op == token.MUL && cells[x.X] && !alias[x] {
								alias[x] = true
								changed = true
							}
						}
					}
				}
			}
			initialised := func(in ssa.Instruction) bool {
				switch x := in.(type) {
				case *ssa.Store:
					// *p = (*p)[a:b]
					if alias[x.Addr] {
						return true
					}
					// the cell is overwritten by another buffer
					if a, ok := x.Addr.(*ssa.Alloc); ok && cells[a] && !alias[x.Val] {
						return true
					}
				case *ssa.Call:
					if b, ok := x.Call.Value.(*ssa.Builtin); ok && b.Name() == "copy" {
						if ld, isLoad := ir.IsLoad(ir.Unconv(x.Call.Args[0])); isLoad && alias[ld] {
							return true
						}
						if sl, isSl := x.Call.Args[0].(*ssa.Slice); isSl {
							if ld, isLoad := ir.IsLoad(sl.X); isLoad && alias[ld] {
								return true
							}
						}
					}
				}
				return false
			}
			vis, _ := fi.Reach([]ssa.Instruction{cs.In}, initialised)
			bad := ""
			for in := range vis {
				x, ok := ir.AsCall(in)
				if !ok {
					continue
				}
				if a := cfg.ConsumeArg(x); a != nil && alias[a] && !strings.HasSuffix(c.P.CalleeName(x.Common), "Realloc") {
					bad = "the buffer allocated at " + c.Pos(cs.In) + " with length " + c.P.Desc(size) + " is appended to at " + c.Pos(in) + " without being truncated first: " + c.P.Desc(size) + " stale bytes from the pool would precede the payload"
				}
			}
			c.Cond(bad == "", "C09.O7", key, c.Pos(cs.In), "truncated / filled before the first append (or never appended to)", bad)
		}
	}
	if n < 10 {
		c.Unres("C09.O7", "Malloc sites", fmt.Sprintf("found %d", n))
	}
}

// c09Accounting: O8.
func c09Accounting(c *Ctx) {
	w := c.Fn("C09.O8", "(*nbhttp.Response).Write")
	if w == nil {
		return
	}
	fi := c.P.Info(w)
	const fBW = "nbhttp.Response.bodyWritten"
	stores := c.P.StoresTo(w, fBW)
	// at most once
	bad := ""
	for _, a := range stores {
		for _, b := range stores {
			if a != b && fi.CanReach(a, b) {
				bad = "Write adds to bodyWritten at " + c.Pos(a) + " and again at " + c.Pos(b) + " on one path: the bytes are counted twice and a later legal Write is refused with ErrContentLength (body shorter than the announced length)"
			}
		}
	}
	c.Cond(bad == "" && len(stores) > 0, "C09.O8", fnKey(c.P, w, "bodyWritten counted at most once"), c.FnPos(w), fmt.Sprintf("%d increment site(s), pairwise exclusive", len(stores)), bad)

	// on every accepting path: from the Content-Length test's pass edge, every return that is
	// not a constant failure is behind an increment
	bad = ""
	var gate *ssa.If
	gateEdge := -1
	for _, i := range fi.Ifs() {
		b, ok := stripNot(i.Cond).(*ssa.BinOp)
		if !ok || b.Op != token.GTR {
			continue
		}
		if sum, isSum := ir.Resolve(b.X).(*ssa.BinOp); isSum && sum.Op == token.ADD && c.P.LoadedField(ir.Resolve(sum.X)) == fBW {
			gate = i
			_, t := ir.StripNot(i.Cond, true)
			gateEdge = 1
			if !t {
				gateEdge = 0
			}
		}
	}
	if gate == nil {
		bad = "the ErrContentLength test (bodyWritten + l > Content-Length) was not found"
	} else {
		isStore := func(in ssa.Instruction) bool {
			st, ok := in.(*ssa.Store)
			if !ok {
				return false
			}
			fa, ok := st.Addr.(*ssa.FieldAddr)
			return ok && c.P.FieldKey(fa) == fBW
		}
		vis, _ := fi.ReachFromEdge(gate, gateEdge, isStore)
		for _, r := range fi.Returns() {
			if !vis[r] {
				continue
			}
			rv := ir.RetVals(r)
			if c.isNonNilErrorValue(rv[1]) {
				continue
			}
			if fi.HasFact(r, func(ft ir.Fact) bool {
				x, isNil, ok := ir.NilTest(ft.Cond, ft.Truth)
				return ok && !isNil && ir.Resolve(x) == ir.Resolve(rv[1])
			}) {
				continue
			}
			bad = "Write can accept bytes and return at " + c.Pos(r) + " without adding them to bodyWritten: more than the announced Content-Length could be written"
		}
	}
	c.Cond(bad == "", "C09.O8", fnKey(c.P, w, "bodyWritten counted on every accepting path"), c.FnPos(w), "every non-failing return behind the Content-Length test passes an increment", bad)

	// writeChunk only with a non-empty chunk
	bad = ""
	n := 0
	for _, f := range c.pkgFuncs("nbhttp") {
		ffi := c.P.Info(f)
		for _, cs := range c.P.CallsNamed(f, "(*nbhttp.Response).writeChunk") {
			n++
			l := cs.Common.Args[len(cs.Common.Args)-1]
			ok := ffi.HasFact(cs.In, func(ft ir.Fact) bool {
				e, zero, isZ := ir.ZeroTest(ft.Cond, ft.Truth)
				return isZ && !zero && ir.Resolve(e) == ir.Resolve(l)
			})
			if lo, _ := ffi.IntervalAt(cs.In, l); lo >= 1 {
				ok = true
			}
			if !ok {
				bad = "writeChunk is reached at " + c.Pos(cs.In) + " without knowing that the chunk is non-empty: an empty Write would be encoded as 0 CRLF CRLF, the terminating chunk, in the middle of the body"
			}
		}
	}
	if n == 0 {
		bad = "no call of writeChunk found"
	}
	c.Cond(bad == "", "C09.O8", "writeChunk only with a non-empty chunk", "", fmt.Sprintf("%d call site(s) behind l != 0", n), bad)
}

// c09HeadAndRaw: O9 (framing decided before the head is encoded), O10 (raw
// reader bytes only in identity framing with a declared length), O11 (nil
// flow of the two response buffers).
func c09HeadAndRaw(c *Ctx) {
	scope := c.pkgFuncs("nbhttp")
	const (
		fnHead  = "(*nbhttp.Response).eoncodeHead"
		fnWH    = "(*nbhttp.Response).WriteHeader"
		fnCheck = "(*nbhttp.Response).checkChunked"
	)
	// ---- O9
	var decided func(f *ssa.Function, at ssa.Instruction, depth int) string
	decided = func(f *ssa.Function, at ssa.Instruction, depth int) string {
		fi := c.P.Info(f)
		need := map[string]bool{fnWH: true, fnCheck: true}
		for _, cs := range c.P.CallsNamed(f, fnWH, fnCheck) {
			if fi.Dominates(cs.In, at) {
				delete(need, c.P.CalleeName(cs.Common))
			}
		}
		if len(need) == 0 {
			return ""
		}
		if depth >= 2 {
			return "no dominating WriteHeader/checkChunked in " + c.P.FuncName(f)
		}
		// every static call of f must be decided
		n := 0
		for _, g := range scope {
			for _, cs := range c.P.Calls(g, nil) {
				if ir.StaticCallee(cs.Common) != f {
					continue
				}
				n++
				if why := decided(g, cs.In, depth+1); why != "" {
					return why
				}
			}
		}
		if n == 0 {
			return c.P.FuncName(f) + " reaches the head encoder at " + c.Pos(at) + " without a dominating WriteHeader and checkChunked: the head goes out without a status line (HTTP/1.1 000) and with the framing fields of a response that was never classified"
		}
		return ""
	}
	for _, f := range scope {
		k := 0
		for _, cs := range c.P.CallsNamed(f, fnHead) {
			k++
			why := decided(f, cs.In, 0)
			c.Cond(why == "", "C09.O9", c.siteKey(f, "eoncodeHead", k), c.Pos(cs.In), "WriteHeader and checkChunked dominate", why)
		}
	}

	// ---- O10
	if rf := c.Fn("C09.O10", "(*nbhttp.Response).ReadFrom"); rf != nil {
		fi := c.P.Info(rf)
		var rparam *ssa.Parameter
		for _, p := range rf.Params {
			if p.Type().String() == "io.Reader" {
				rparam = p
			}
		}
		var clCall ssa.Value
		for _, cs := range c.P.CallsNamed(rf, "(*nbhttp.Response).contentLength") {
			clCall = cs.Value()
		}
		k := 0
		for _, cs := range c.P.Calls(rf, nil) {
			name := c.P.CalleeName(cs.Common)
			raw := false
			switch {
			case name == "io.Copy" && len(cs.Common.Args) == 2:
				d := c.P.Desc(ir.Resolve(cs.Common.Args[0]))
				raw = strings.Contains(d, "Parser.Conn")
			case strings.HasSuffix(name, ".Sendfile"):
				raw = true
			}
			if !raw {
				continue
			}
			k++
			key := c.siteKey(rf, "raw body emission", k)
			bad := ""
			if !fi.HasFact(cs.In, func(ft ir.Fact) bool {
				f, set, ok := c.P.BoolFieldTest(ft.Cond, ft.Truth)
				return ok && f == "nbhttp.Response.chunked" && !set
			}) {
				bad = "reader bytes are handed to the connection at " + c.Pos(cs.In) + " without the response being known as not chunked: in a chunked response they go out unframed"
			}
			if bad == "" {
				okCL := false
				if clCall != nil {
					for _, r := range *clCall.Referrers() {
						if e, ok := r.(*ssa.Extract); ok && e.Index == 0 {
							if lo, _ := fi.IntervalAt(cs.In, e); lo >= 1 {
								okCL = true
							}
						}
					}
				}
				if !okCL {
					bad = "reader bytes are handed to the connection at " + c.Pos(cs.In) + " where the declared Content-Length is not known to be positive: with no declared length the head says Content-Length: 0 (or the length of what was buffered) and the bytes follow it"
				}
			}
			c.Cond(bad == "", "C09.O10", key, c.Pos(cs.In), "identity framing with a tested length", bad)
			if name == "io.Copy" && rparam != nil {
				src := ir.Resolve(cs.Common.Args[1])
				c.Cond(src == ssa.Value(rparam), "C09.O10", fnKey(c.P, rf, "fallback copy reads the given reader"), c.Pos(cs.In), "io.Copy(conn, r) with r the parameter",
					"the copy at "+c.Pos(cs.In)+" reads from "+c.P.Desc(src)+" instead of the reader it was given: the bound of an io.LimitedReader (io.CopyN, http.ServeContent ranges) is dropped and more bytes than the declared Content-Length go out")
			}
		}
	}

	// ---- O11
	fields := map[string]bool{"nbhttp.Response.buffer": true, "nbhttp.Response.bodyBuffer": true}
	for _, f := range scope {
		fi := c.P.Info(f)
		// clearing stores and pool assignments per field
		clear := map[string][]ssa.Instruction{}
		assign := map[string][]ssa.Instruction{}
		revive := map[ssa.Instruction]bool{}
		for fld := range fields {
			for _, st := range c.P.StoresTo(f, fld) {
				if ir.IsNilConst(st.Val) {
					clear[fld] = append(clear[fld], st)
					continue
				}
				if call, ok := ir.Resolve(st.Val).(*ssa.Call); ok && strings.HasPrefix(c.P.CalleeName(&call.Call), "mempool.") {
					assign[fld] = append(assign[fld], st)
					revive[st] = true
					continue
				}
				// a value known to be non-nil where it is stored
				v := ir.Resolve(st.Val)
				vf := c.P.LoadedField(v)
				if fi.HasFact(st, func(ft ir.Fact) bool {
					x, isNil, ok := ir.NilTest(ft.Cond, ft.Truth)
					return ok && !isNil && (ir.Resolve(x) == v || vf != "" && c.P.LoadedField(x) == vf)
				}) {
					revive[st] = true
				}
			}
		}
		k := 0
		for _, b := range f.Blocks {
			for _, in := range b.Instrs {
				u, ok := in.(*ssa.UnOp)
				if !ok || u.Op != token.MUL {
					continue
				}
				fld := c.P.LoadedField(u.X)
				if !fields[fld] {
					continue
				}
				k++
				key := fmt.Sprintf("%s: *%s#%d", c.P.FuncName(f), fld, k)
				ptr := ir.Resolve(u.X)
				// 1. a non-nil fact on the very same pointer value
				if fi.HasFact(in, func(ft ir.Fact) bool {
					x, isNil, ok := ir.NilTest(ft.Cond, ft.Truth)
					return ok && !isNil && ir.Resolve(x) == ptr
				}) {
					c.OK("C09.O11", key, c.Pos(in), "non-nil test of the same pointer value")
					continue
				}
				// 2. a justification (non-nil test of another load of the field, or a pool assignment) that dominates, with no clearing store in between
				var just []ssa.Instruction
				for _, i := range fi.Ifs() {
					for e := 0; e < 2; e++ {
						x, isNil, ok := ir.NilTest(i.Cond, e == 0)
						if ok && !isNil && c.P.LoadedField(x) == fld && fi.EdgeDominates(i, e, in.Block()) {
							just = append(just, i)
						}
					}
				}
				for _, st := range assign[fld] {
					if fi.Dominates(st, in) {
						just = append(just, st)
					}
				}
				good := false
				for _, j := range just {
					vis, _ := fi.Reach([]ssa.Instruction{j}, func(x ssa.Instruction) bool { return x == in })
					hit := false
					for _, cl := range clear[fld] {
						if !vis[cl] {
							continue
						}
						// the clearing store must be able to reach the dereference without passing the justification again
						v2, _ := fi.Reach([]ssa.Instruction{cl}, func(x ssa.Instruction) bool { return x == j || revive[x] })
						if v2[in] {
							hit = true
						}
					}
					if !hit {
						good = true
						break
					}
				}
				c.Cond(good, "C09.O11", key, c.Pos(in), "dominated by a non-nil test or a pool assignment of the field, not cleared in between",
					"*"+fld+" is dereferenced at "+c.Pos(in)+" where the field may be nil (other paths test it, and Write/Flush/flush clear it): a handler sequence that reaches this line after the buffer was handed over or released panics in the middle of the response")
			}
		}
	}
}

// c09KeepsValidLength: O12.  A Content-Length the handler set goes on the wire
// verbatim; net/http drops an unparsable or negative one.  WriteHeader is the
// only place that validates it.
func c09KeepsValidLength(c *Ctx) {
	fn := c.Fn("C09.O12", "(*nbhttp.Response).WriteHeader")
	if fn == nil {
		return
	}
	fi := c.P.Info(fn)
	key := fnKey(c.P, fn, "invalid Content-Length deleted")
	var parse *ssa.Call
	for _, cs := range c.P.CallsNamed(fn, "strconv.ParseInt", "strconv.Atoi", "strconv.ParseUint", "(*nbhttp.Response).contentLength") {
		if call, ok := cs.In.(*ssa.Call); ok {
			parse = call
		}
	}
	if parse == nil {
		c.Bad("C09.O12", key, c.FnPos(fn), "WriteHeader does not parse the Content-Length the handler set: an invalid or negative value goes on the wire")
		return
	}
	var val, errv ssa.Value
	for _, r := range *parse.Referrers() {
		if e, ok := r.(*ssa.Extract); ok {
			if e.Index == 0 {
				val = e
			} else {
				errv = e
			}
		}
	}
	isDel := func(in ssa.Instruction) bool {
		cs, ok := ir.AsCall(in)
		if !ok {
			return false
		}
		switch c.P.CalleeName(cs.Common) {
		case "(net/http.Header).Del":
			return true
		case "builtin:delete":
			return true
		}
		return false
	}
	paths, exits, complete := pathFactsAvoiding(fi, parse, isDel, 4096)
	if !complete {
		c.Unres("C09.O12", key, "too many paths")
		return
	}
	bad := ""
	for i, facts := range paths {
		okErr := errv == nil
		for _, ft := range facts {
			if x, isNil, ok := ir.NilTest(ft.Cond, ft.Truth); ok && isNil && errv != nil && ir.Resolve(x) == errv {
				okErr = true
			}
		}
		lo := int64(ir.NegInf)
		if val != nil {
			lo, _ = ir.IntervalOf(facts, val)
			// an unsigned parse cannot be negative
			if c.P.CalleeName(&parse.Call) == "strconv.ParseUint" {
				lo = 0
			}
		}
		if !okErr {
			bad = "a path from the parse at " + c.Pos(parse) + " to " + c.Pos(exits[i]) + " keeps the Content-Length field although the parse may have failed"
		} else if lo < 0 {
			bad = "a path from the parse at " + c.Pos(parse) + " to " + c.Pos(exits[i]) + " keeps the Content-Length field although the parsed value may be negative: 'Content-Length: -1' goes on the wire and the client cannot frame the response"
		}
	}
	c.Cond(bad == "", "C09.O12", key, c.Pos(parse), fmt.Sprintf("%d keeping path(s), each with err == nil and value >= 0", len(paths)), bad)
}

// c09BufferWriters: O13.
func c09BufferWriters(c *Ctx) {
	allowed := map[string]bool{
		"(*nbhttp.Response).Write": true, "(*nbhttp.Response).writeChunk": true, "(*nbhttp.Response).eoncodeHead": true,
		"(*nbhttp.Response).Flush": true, "(*nbhttp.Response).flush": true, "(*nbhttp.Response).ReadFrom": true,
		"nbhttp.releaseResponse": true, "nbhttp.NewResponse": true,
	}
	for _, f := range c.pkgFuncs("nbhttp") {
		name := c.P.FuncName(ir.Outermost(f))
		for _, fld := range []string{"nbhttp.Response.buffer", "nbhttp.Response.bodyBuffer"} {
			for i, st := range c.P.StoresTo(f, fld) {
				if _, fresh := ir.Root(st.Addr.(*ssa.FieldAddr).X).(*ssa.Alloc); fresh {
					continue
				}
				key := fmt.Sprintf("%s: store %s#%d", name, fld, i+1)
				c.Cond(allowed[name], "C09.O13", key, c.Pos(st), "writer of the frozen set",
					name+" writes "+fld+" at "+c.Pos(st)+" itself instead of going through Write: it emits body bytes without Write's guards (an empty input would be encoded as the terminating chunk, the framing decision and the Content-Length accounting are skipped)")
			}
		}
	}
}

// c09StatusAndTrailers: O14.
func c09StatusAndTrailers(c *Ctx) {
	if wh := c.Fn("C09.O14", "(*nbhttp.Response).WriteHeader"); wh != nil {
		fi := c.P.Info(wh)
		bad := "WriteHeader does not record the status code"
		for _, st := range c.P.StoresTo(wh, "nbhttp.Response.statusCode") {
			if _, isParam := ir.Resolve(st.Val).(*ssa.Parameter); !isParam {
				continue
			}
			bad = ""
			if fi.HasFact(st, func(ft ir.Fact) bool {
				b, ok := ft.Cond.(*ssa.BinOp)
				if !ok {
					return false
				}
				for _, v := range []ssa.Value{b.X, b.Y} {
					if call, ok := ir.Resolve(v).(*ssa.Call); ok && c.P.CalleeName(&call.Call) == "net/http.StatusText" {
						return true
					}
				}
				return false
			}) {
				bad = "the status code is recorded at " + c.Pos(st) + " only when http.StatusText knows a text for it: a handler's WriteHeader(599) is dropped and the client decodes 200"
			}
		}
		c.Cond(bad == "", "C09.O14", fnKey(c.P, wh, "status code recorded whatever its text"), c.FnPos(wh), "store not conditional on StatusText", bad)
	}
	if eh := c.Fn("C09.O14", "(*nbhttp.Response).eoncodeHead"); eh != nil {
		bad := "no declared trailer name is set aside"
		for _, b := range eh.Blocks {
			for _, in := range b.Instrs {
				mu, ok := in.(*ssa.MapUpdate)
				if !ok || c.P.LoadedField(ir.Resolve(mu.Map)) != "nbhttp.Response.trailer" {
					continue
				}
				if s, isS := constString(mu.Value); !isS || s != "" {
					continue
				}
				call, isCall := ir.Resolve(mu.Key).(*ssa.Call)
				if isCall && c.P.CalleeName(&call.Call) == "net/http.CanonicalHeaderKey" {
					if bad == "no declared trailer name is set aside" {
						bad = ""
					}
				} else {
					bad = "the name set aside at " + c.Pos(in) + " is " + c.P.Desc(ir.Resolve(mu.Key)) + ", a whole Trailer field value as the handler wrote it: a comma-separated list becomes one malformed name, and a name in another case never matches the header key"
				}
			}
		}
		c.Cond(bad == "", "C09.O14", fnKey(c.P, eh, "declared trailer names canonicalised"), c.FnPos(eh), "keys are http.CanonicalHeaderKey(element)", bad)
	}
	if fl := c.Fn("C09.O14", "(*nbhttp.Response).flush"); fl != nil {
		fi := c.P.Info(fl)
		ok := false
		first := ""
		for _, cs := range c.P.Calls(fl, func(name string, _ ir.CallSite) bool { return strings.HasSuffix(name, "Header).Get") }) {
			if fi.InLoop(cs.In) && c.P.LoadedField(ir.Resolve(cs.Common.Args[0])) == "nbhttp.Response.header" {
				ok = true
				first = c.Pos(cs.In)
			}
		}
		// every value: the emitted value is an element of header[name], in a loop of its own
		all := false
		for _, cs := range c.P.CallsNamed(fl, "mempool.AppendString") {
			if len(cs.Common.Args) == 2 && fi.InLoop(cs.In) {
				if u, isU := ir.Resolve(cs.Common.Args[1]).(*ssa.UnOp); isU && isTrailerValue(c, u, 0) {
					all = true
					ok = true
				}
			}
		}
		c.Cond(ok, "C09.O14", fnKey(c.P, fl, "trailer values read at flush time"), c.FnPos(fl), "the header is read inside the trailer loop",
			"flush emits the trailer values that were captured when the head was encoded (at the first Write): a trailer set after the body, which is what trailers are for, goes out empty")
		if ok {
			c.Cond(all, "C09.O14", fnKey(c.P, fl, "every value of a trailer is sent"), c.FnPos(fl), "the emitted value is an element of header[name]",
				"flush takes a trailer's value with Header.Get ("+first+"), which returns the first value only: a trailer the handler gave several values (Header().Add twice) reaches the client with one")
		}
	}
}

// isTrailerValue: the range value, Header.Get(range key), or a phi of those.
func isTrailerValue(c *Ctx, v ssa.Value, depth int) bool {
	if depth > 4 {
		return false
	}
	switch x := v.(type) {
	case *ssa.Extract:
		return x.Index == 2
	case *ssa.Call:
		if !strings.HasSuffix(c.P.CalleeName(&x.Call), "Header).Get") {
			return false
		}
		e, ok := ir.Resolve(x.Call.Args[len(x.Call.Args)-1]).(*ssa.Extract)
		return ok && e.Index == 1
	case *ssa.Phi:
		for _, e := range x.Edges {
			if !isTrailerValue(c, ir.Resolve(e), depth+1) {
				return false
			}
		}
		return len(x.Edges) > 0
	case *ssa.UnOp:
		// an element of the field's value list, header[name]
		if x.Op == token.MUL {
			if ia, ok := x.X.(*ssa.IndexAddr); ok {
				// the element under the loop's index, not one fixed element every time
				if _, fixed := ia.Index.(*ssa.Const); fixed {
					return false
				}
				return valuesOfHeaderField(c, ia.X, 0)
			}
		}
	}
	return false
}

// valuesOfHeaderField: v is Response.header[k] (possibly joined by a phi with a
// fallback list).
func valuesOfHeaderField(c *Ctx, v ssa.Value, depth int) bool {
	if depth > 4 {
		return false
	}
	switch x := ir.Resolve(v).(type) {
	case *ssa.Lookup:
		return c.P.LoadedField(ir.Resolve(x.X)) == "nbhttp.Response.header"
	case *ssa.Phi:
		for _, e := range x.Edges {
			if valuesOfHeaderField(c, e, depth+1) {
				return true
			}
		}
	}
	return false
}

// c09BodyAllowed: O15.
func c09BodyAllowed(c *Ctx) {
	allowedFact := func(fi *ir.FnInfo, at ssa.Instruction) bool {
		return fi.HasFact(at, func(ft ir.Fact) bool {
			cnd, truth := ir.StripNot(ft.Cond, ft.Truth)
			call, ok := ir.Resolve(cnd).(*ssa.Call)
			return ok && truth && c.P.CalleeName(&call.Call) == "(*nbhttp.Response).bodyAllowed"
		})
	}
	// the predicate itself looks at the method and the status
	if ba := c.Fn("C09.O15", "(*nbhttp.Response).bodyAllowed"); ba != nil {
		method, status := false, false
		for _, a := range c.P.FieldAccesses(ba, func(k string) bool { return k == "net/http.Request.Method" || k == "nbhttp.Response.statusCode" }) {
			if a.Field == "net/http.Request.Method" {
				method = true
			} else {
				status = true
			}
		}
		c.Cond(method && status, "C09.O15", fnKey(c.P, ba, "predicate over method and status"), c.FnPos(ba), "reads Request.Method and Response.statusCode", "bodyAllowed does not look at both the request method and the status code")
	}
	if w := c.Fn("C09.O15", "(*nbhttp.Response).Write"); w != nil {
		fi := c.P.Info(w)
		bad := ""
		n := 0
		for _, cs := range c.P.Calls(w, func(name string, _ ir.CallSite) bool {
			return name == "(*nbhttp.Response).writeChunk" || name == "mempool.Append" || name == "invoke:net.Conn.Write"
		}) {
			n++
			if !allowedFact(fi, cs.In) {
				bad = "Write emits or buffers body bytes at " + c.Pos(cs.In) + " without knowing that this response may carry a body: the answer to a HEAD request, or a 204 / 304 response, is followed by bytes the client takes for the start of the next response"
			}
		}
		c.Cond(bad == "" && n > 0, "C09.O15", fnKey(c.P, w, "body only where allowed"), c.FnPos(w), fmt.Sprintf("%d emission site(s) behind bodyAllowed()", n), bad)
	}
	if fl := c.Fn("C09.O15", "(*nbhttp.Response).flush"); fl != nil {
		fi := c.P.Info(fl)
		bad := ""
		n := 0
		for _, cs := range c.P.CallsNamed(fl, "mempool.AppendString") {
			if s, ok := constString(cs.Common.Args[1]); ok && (s == "0\r\n\r\n" || s == "0\r\n") {
				n++
				if !allowedFact(fi, cs.In) {
					bad = "the terminating chunk is appended at " + c.Pos(cs.In) + " whether or not the response may carry a body: a chunked answer to HEAD ends with '0 CRLF CRLF', which the client reads as the start of the next response"
				}
			}
		}
		c.Cond(bad == "" && n > 0, "C09.O15", fnKey(c.P, fl, "terminator only where a body is allowed"), c.FnPos(fl), fmt.Sprintf("%d terminator site(s) behind bodyAllowed()", n), bad)
	}
}
