package props

import (
	"fmt"
	"go/token"
	"strings"

	"golang.org/x/tools/go/ssa"

	"verif/internal/eng"
	"verif/internal/ir"
)

func init() {
	register(&Property{
		ID:          "C02",
		Engines:     []string{"cfg"},
		Explanation: "Inbound delivery, structural part: at each of the three read loops the data callback is guarded by n>0, receives the connection returned by that very read and the buffer re-sliced to [:n] of that read's count (O1); the loops agree on EINTR -> retry, EAGAIN -> leave, other error -> close and leave, short count -> leave, and on the per-event iteration bound (O2); the one-shot read task re-arms on every exit that did not close (O3); the synchronous loop pays every borrowed buffer back before the next borrow or exit (O4); the async gate: counter atomic-only, a task is submitted only when the increment returned 1, the over-count edge undoes its increment, the task returns only when the decrement returned 0 (O5); every buffer that reaches a kernel read is made with a provably positive length (O6); connsUnix has only its three writers and deleteConn's removal is identity-guarded (O7); the UDP session map is looked up and inserted with the same key, sessions are created and announced on the miss edge only (O8). Engine.Start publishes every engine field the poller loops read before it starts the first poller goroutine (O9); the one-shot re-arm registers with the kernel regardless of the isWAdded flag (O10); the count and error of the kernel read travel unchanged through readStream/readUDP, doRead, Read and ReadAndGetConn (O11). Every read of a read loop gets the whole buffer (O12); the short-count exit is taken for stream sockets only (O13); a hang-up event closes only after the synchronous loop, its bound lifted, has read what the peer sent (O14; the asynchronous case hands the hang-up to the read task). Every read task is submitted behind the gate (O16).",
		NotCovered:  "the lost-edge race of the gate under all schedules, kernel ET/ONESHOT semantics, CPU usage at quiescence, datagram boundaries (kernel), the configuration matrix as executions",
		Run:         runC02,
	})
}

type readLoop struct {
	fn   *ssa.Function
	name string
	read *ssa.Call // ReadAndGetConn
	rc   ssa.Value
	n    ssa.Value
	err  ssa.Value
	pbuf ssa.Value
	// gated: the closure moves the readEvents gate itself
	gated bool
}

func (c *Ctx) readLoops() []readLoop {
	var out []readLoop
	for _, f := range c.nbioFuncs() {
		for _, cs := range c.P.CallsNamed(f, "(*nbio.Conn).ReadAndGetConn") {
			call, ok := cs.In.(*ssa.Call)
			if !ok || !c.P.Info(f).InLoop(call) {
				continue
			}
			rl := readLoop{fn: f, read: call, pbuf: cs.Common.Args[1]}
			if refs := call.Referrers(); refs != nil {
				for _, r := range *refs {
					if e, ok := r.(*ssa.Extract); ok {
						switch e.Index {
						case 0:
							rl.rc = e
						case 1:
							rl.n = e
						case 2:
							rl.err = e
						}
					}
				}
			}
			rl.gated = f.Parent() != nil && len(c.P.Calls(f, func(n string, _ ir.CallSite) bool { return n == "sync/atomic.AddInt32" })) > 0
			switch {
			case f.Parent() == nil:
				rl.name = c.P.FuncName(f) + ": sync read loop"
			case len(c.P.CallsNamed(f, "(*nbio.Conn).ResetPollerEvent")) > 0:
				// the task of one-shot mode is the one that sets the event again (it may be gated as well)
				rl.name = "(*nbio.Conn).AsyncRead: one-shot read task"
			case rl.gated:
				rl.name = "(*nbio.Conn).AsyncRead: gated read task"
			default:
				rl.name = "(*nbio.Conn).AsyncRead: one-shot read task"
			}
			out = append(out, rl)
		}
	}
	return out
}

func runC02(c *Ctx) {
	c.Rule("C02.O1", "E4", "onDataPtr(rc, pbuf) is guarded by n>0, rc and n come from the dominating ReadAndGetConn on the same pbuf, and *pbuf = (*pbuf)[:n] is the last store before the call", 3)
	c.Rule("C02.O2", "E7b", "each read loop: EINTR -> retry, EAGAIN -> leave, other error -> close and leave, short count -> leave; loop bound MaxConnReadTimesPerEventLoop", 3)
	c.Rule("C02.O3", "E4", "one-shot read task: every exit that did not close passes ResetPollerEvent", 1)
	c.Rule("C02.O4", "E4", "sync loop: every borrow is followed by payback of the same buffer before the next borrow or loop exit", 1)
	c.Rule("C02.O5", "E1,E4", "readEvents atomic-only; task submitted iff increment returned 1; over-count edge undoes; task returns only when the decrement returned 0", 4)
	c.Rule("C02.O6", "E9", "every make([]byte,k) that feeds a kernel read has a provably positive k (constant, normalised config field, or normalised parameter)", 2)
	c.Rule("C02.O7", "E5", "connsUnix element writers are addConn, addDialer and deleteConn; deleteConn removes only its own entry", 2)
	c.Rule("C02.O9", "E4,E5", "Engine.Start: every engine field the poller loops read is assigned before the first poller goroutine is started (no go statement reaches a later store)", 1)
	c.Rule("C02.O10", "E4", "ResetPollerEvent (the one-shot re-arm every read path relies on) registers with the kernel on both edges without consulting the isWAdded flag", 1)
	c.Rule("C02.O11", "E4", "Read / ReadAndGetConn / doRead / readStream / readUDP hand the kernel's count and error through unchanged: no error is synthesised from a zero count (an empty datagram is not end-of-stream)", 5)
	c.Rule("C02.O12", "E4", "every kernel read of a read loop gets the whole buffer: after *pbuf = (*pbuf)[:n] the buffer is restored to its capacity (or paid back and borrowed again) before the next read; a buffer left cut to a small count truncates the next datagram", 3)
	c.Rule("C02.O13", "E7", "the short-count exit of a read loop is taken for stream sockets only (a short datagram does not mean the socket is drained)", 3)
	c.Rule("C02.O14", "E4", "a hang-up event closes the connection only after what the peer sent before it was read: the synchronous loop's per-event bound is lifted under the hang-up flag, and the close is ordered after the read", 2)
	c.Rule("C02.O15", "E4,E5", "edge-triggered mode reads until EAGAIN: the per-event read bound is lifted under EpollMod == EPOLLET in code that runs when the pollers start (the mode can still be changed after NewEngine), and both the synchronous loop and the read tasks use the lifted bound", 1)
	c.Rule("C02.O16", "E4", "every read task AsyncRead submits is behind the readEvents gate (in one-shot mode too: a Write that hits EAGAIN re-arms the descriptor while the task is running)", 1)
	c.Rule("C02.O8", "E4", "udpConn.getConn: same key for lookup and insert; session created, stored and announced on the miss edge only", 2)
	c02Published(c)
	c02ETOverride(c)
	c02PassThrough(c)
	if fn := c.Fn("C02.O10", "(*nbio.Conn).ResetPollerEvent"); fn != nil {
		bad := ""
		n := 0
		for _, cs := range c.P.Calls(fn, nil) {
			callee := ir.StaticCallee(cs.Common)
			if callee == nil {
				continue
			}
			switch c.P.FuncName(callee) {
			case "(*nbio.poller).modWrite", "(*nbio.poller).resetRead":
				n++
			case "(*nbio.Conn).modWrite", "(*nbio.Conn).resetRead":
				n++
				fi := c.P.Info(callee)
				for _, d := range c.P.Calls(callee, func(name string, _ ir.CallSite) bool {
					return name == "(*nbio.poller).modWrite" || name == "(*nbio.poller).resetRead"
				}) {
					if fi.HasFact(d.In, func(ft ir.Fact) bool {
						k, _, ok := c.P.BoolFieldTest(ft.Cond, ft.Truth)
						return ok && k == fConnIsWAdded
					}) {
						bad = "the one-shot re-arm at " + c.Pos(cs.In) + " goes through " + c.P.FuncName(callee) + ", which registers only when the isWAdded flag disagrees: EPOLLONESHOT disarmed the descriptor regardless of the flag, so the connection gets no further read events"
					}
				}
			}
		}
		if n < 2 && bad == "" {
			bad = "expected a registration on the queue-empty and on the queue-non-empty edge"
		}
		c.Cond(bad == "", "C02.O10", fnKey(c.P, fn, "one-shot re-arm is unconditional"), c.FnPos(fn), fmt.Sprintf("%d registration call(s), none behind the flag", n), bad)
	}

	loops := c.readLoops()
	if len(loops) != 3 {
		c.Unres("C02.O1", "read loops", fmt.Sprintf("found %d, expected 3", len(loops)))
	}
	core := c.Core()

	for _, rl := range loops {
		fi := c.P.Info(rl.fn)
		// ---------------------------------------------------------------- O1
		{
			key := rl.name + ": deliver what was read"
			calls := c.P.Calls(rl.fn, func(n string, _ ir.CallSite) bool { return n == "dyn:"+fEngOnDataPtr })
			bad := ""
			if len(calls) != 1 || rl.rc == nil || rl.n == nil {
				bad = fmt.Sprintf("expected one data callback per loop, found %d", len(calls))
			} else {
				cs := calls[0]
				if ir.Resolve(cs.Common.Args[0]) != rl.rc {
					bad = "the data is attributed to " + c.P.Desc(cs.Common.Args[0]) + ", not to the connection returned by the read (UDP datagrams would be attributed to the listener)"
				}
				if ir.Resolve(cs.Common.Args[1]) != ir.Resolve(rl.pbuf) {
					bad = "the buffer delivered is not the buffer that was read into"
				}
				lo, _ := fi.IntervalAt(cs.In, rl.n)
				if lo < 1 {
					bad = "the data callback is not guarded by n > 0"
				}
				// last store through pbuf before the call, in the call's block
				var last *ssa.Store
				for _, in := range cs.In.Block().Instrs {
					if in == cs.In {
						break
					}
					if st, ok := in.(*ssa.Store); ok && ir.Resolve(st.Addr) == ir.Resolve(rl.pbuf) {
						last = st
					}
				}
				if last == nil {
					bad = "the buffer is not re-sliced to the count before delivery: stale bytes beyond n would be delivered"
				} else if sl, ok := ir.Resolve(last.Val).(*ssa.Slice); !ok || sl.High == nil || ir.Resolve(sl.High) != rl.n || sl.Low != nil && !isZero(sl.Low) {
					bad = "the buffer is re-sliced to " + c.P.Desc(last.Val) + ", not to [:n] of this read"
				}
			}
			c.Cond(bad == "", "C02.O1", key, c.Pos(rl.read), "n>0, rc and [:n] of the same read", bad)
		}
		// ---------------------------------------------------------------- O2
		{
			key := rl.name + ": errno and short-count classification"
			bad := ""
			gate := func(in ssa.Instruction) bool {
				cs, ok := ir.AsCall(in)
				return ok && c.P.CalleeName(cs.Common) == "sync/atomic.AddInt32"
			}
			// "reads again" = reaches this read without passing the gate or the next event dispatch
			reachesRead := func(i *ssa.If, k int, avoidClose bool) (bool, bool) {
				vis, stopped := fi.ReachFromEdge(i, k, func(in ssa.Instruction) bool {
					return gate(in) || in == ssa.Instruction(rl.read) || c.isCallTo(in, "(*nbio.poller).getConn", "syscall.EpollWait")
				})
				closed := false
				for in := range vis {
					if c.isCallTo(in, "(*nbio.Conn).closeWithError") {
						if cs, _ := ir.AsCall(in); ir.Resolve(cs.Common.Args[1]) == rl.err {
							closed = true
						}
					}
				}
				return stopped[rl.read], closed
			}
			seen := map[string]bool{}
			for _, i := range fi.Ifs() {
				for k := 0; k < 2; k++ {
					if e, target, is, ok := c.P.ErrorsIsTest(i.Cond, k == 0); ok && is && ir.Resolve(e) == rl.err {
						again, closed := reachesRead(i, k, false)
						switch target {
						case "EINTR":
							seen["EINTR"] = true
							if !again || closed {
								bad = "EINTR does not simply retry the read"
							}
						case "EAGAIN":
							seen["EAGAIN"] = true
							if again {
								bad = "after EAGAIN the loop reads again instead of going idle: the reader would spin on an empty socket"
							}
							if closed {
								bad = "EAGAIN closes the connection"
							}
						}
					}
					if x, isNil, ok := ir.NilTest(i.Cond, k == 0); ok && !isNil && ir.Resolve(x) == rl.err {
						seen["err"] = true
						vis, _ := fi.ReachFromEdge(i, k, func(in ssa.Instruction) bool { return c.isCallTo(in, "(*nbio.Conn).closeWithError") })
						for in := range vis {
							if in == ssa.Instruction(rl.read) || ir.IsExit(in) {
								bad = "a read error other than EINTR/EAGAIN does not close the connection before the loop goes on / ends"
							}
						}
						// after the close the loop is left
						for _, cs := range c.P.CallsNamed(rl.fn, "(*nbio.Conn).closeWithError") {
							v2, _ := fi.Reach([]ssa.Instruction{cs.In}, func(in ssa.Instruction) bool {
								return gate(in) || c.isCallTo(in, "(*nbio.poller).getConn", "syscall.EpollWait")
							})
							if v2[rl.read] {
								bad = "after closing on a read error the loop keeps reading"
							}
						}
					}
					// short count
					if b, ok := stripNot(i.Cond).(*ssa.BinOp); ok && b.Op == token.LSS && ir.Resolve(b.X) == rl.n {
						if _, t := ir.StripNot(i.Cond, k == 0); t {
							seen["short"] = true
							// followed along the stream-type edges only (O13 decides the type test)
							vis, stopped := fi.ReachOpt([]ssa.Instruction{i}, func(in ssa.Instruction) bool {
								return gate(in) || in == ssa.Instruction(rl.read) || c.isCallTo(in, "(*nbio.poller).getConn", "syscall.EpollWait")
							}, func(i2 *ssa.If, k2 int) bool {
								return (i2 == i && k2 != k) || c02NonStreamEdge(c, fi, i2, k2)
							})
							_ = vis
							if stopped[rl.read] {
								bad = "a short read on a stream socket does not end the loop"
							}
						}
					}
					// loop bound
					if b, ok := stripNot(i.Cond).(*ssa.BinOp); ok && b.Op == token.LSS && c02IsBound(c, b.Y) {
						seen["bound"] = true
					}
				}
			}
			for _, w := range []string{"EINTR", "EAGAIN", "err", "short", "bound"} {
				if !seen[w] && bad == "" {
					bad = "the loop has no " + w + " handling"
				}
			}
			c.Cond(bad == "", "C02.O2", key, c.Pos(rl.read), "EINTR retry / EAGAIN leave / error close+leave / short leave / bounded", bad)
		}
	}

	// ------------------------------------------------------------------ O12, O13
	for _, rl := range loops {
		fi := c.P.Info(rl.fn)
		isShrink := func(in ssa.Instruction) bool {
			st, ok := in.(*ssa.Store)
			if !ok || ir.Resolve(st.Addr) != ir.Resolve(rl.pbuf) {
				return false
			}
			sl, ok := ir.Resolve(st.Val).(*ssa.Slice)
			return ok && sl.High != nil && ir.Resolve(sl.High) == rl.n
		}
		isRestore := func(in ssa.Instruction) bool {
			if c.isCallTo(in, "(*nbio.Engine).payback", "(*nbio.Engine).borrow") {
				return true
			}
			st, ok := in.(*ssa.Store)
			if !ok || ir.Resolve(st.Addr) != ir.Resolve(rl.pbuf) {
				return false
			}
			sl, ok := ir.Resolve(st.Val).(*ssa.Slice)
			if !ok || sl.High == nil {
				return false
			}
			_, isCap := ir.IsCapOf(ir.Resolve(sl.High))
			return isCap
		}
		bad := ""
		n := 0
		for _, b := range rl.fn.Blocks {
			for _, in := range b.Instrs {
				if !isShrink(in) {
					continue
				}
				n++
				vis, _ := fi.Reach([]ssa.Instruction{in}, func(x ssa.Instruction) bool {
					return isRestore(x) || c.isCallTo(x, "(*nbio.poller).getConn", "syscall.EpollWait")
				})
				if vis[rl.read] {
					bad = "after the buffer is cut to the count at " + c.Pos(in) + " the next read (" + c.Pos(rl.read) + ") is reached without restoring it to its capacity: the pooled buffer shrinks for good, and a later, larger datagram is truncated to the earlier count"
				}
			}
		}
		if n == 0 {
			bad = "no re-slice to the count found"
		}
		c.Cond(bad == "", "C02.O12", rl.name+": whole buffer for every read", c.Pos(rl.read), "restored / paid back before the next read", bad)

		// O13
		bad = ""
		found := false
		for _, i := range fi.Ifs() {
			for k := 0; k < 2; k++ {
				b, ok := stripNot(i.Cond).(*ssa.BinOp)
				if !ok || b.Op != token.LSS || ir.Resolve(b.X) != rl.n {
					continue
				}
				if _, t := ir.StripNot(i.Cond, k == 0); !t {
					continue
				}
				found = true
				// the count is compared with the length of the very buffer that was read into
				if x, isLen := ir.IsLenOf(ir.Resolve(b.Y)); !isLen {
					bad = "the read count is compared with " + c.P.Desc(b.Y) + " (" + c.Pos(i) + "), not with the length of the buffer that was read into: with a read-buffer allocator that hands out other sizes a full buffer is taken for a short read and pending data is left behind"
				} else if a, isLoad := ir.IsLoad(ir.Resolve(x)); !isLoad || ir.Resolve(a) != ir.Resolve(rl.pbuf) {
					bad = "the read count is compared with the length of " + c.P.Desc(x) + " (" + c.Pos(i) + "), not of the buffer that was read into"
				}
				if bad != "" {
					continue
				}
				// from the short-count edge, leaving the loop (not reading again, reaching the
				// gate / the loop's exit) must not be possible along a non-stream edge ... i.e.
				// every way out passes a stream-type test on its stream edge
				vis, stopped := fi.ReachOpt([]ssa.Instruction{i}, func(in ssa.Instruction) bool {
					if in == ssa.Instruction(rl.read) {
						return true
					}
					// back at the loop's own bound test: the loop goes on
					if i3, isIf := in.(*ssa.If); isIf {
						if b3, ok := stripNot(i3.Cond).(*ssa.BinOp); ok && b3.Op == token.LSS && c02IsBound(c, b3.Y) {
							return true
						}
					}
					return false
				}, func(i2 *ssa.If, k2 int) bool {
					return (i2 == i && k2 != k) || c02StreamEdge(c, fi, i2, k2)
				})
				_ = stopped
				// with the stream edges removed, the only continuation must be the next read
				for in := range vis {
					if in == ssa.Instruction(i) {
						continue
					}
					if ir.IsExit(in) || c.isCallTo(in, "sync/atomic.AddInt32", "(*nbio.Conn).ResetPollerEvent", "syscall.EpollWait", "(*nbio.poller).getConn") {
						bad = "a short count ends the loop for every socket type (" + c.Pos(i) + "): after one short datagram the remaining datagrams stay in the socket, and in edge-triggered mode no further event announces them"
					}
				}
			}
		}
		if !found {
			c.OK("C02.O13", rl.name+": short-count exit for streams only", c.Pos(rl.read), "no short-count exit (reads until EAGAIN)")
		} else {
			c.Cond(bad == "", "C02.O13", rl.name+": short-count exit for streams only", c.Pos(rl.read), "the exit is behind typ == TCP || typ == Unix", bad)
		}
	}

	// ------------------------------------------------------------------ O14
	if rw := c.Fn("C02.O14", "(*nbio.poller).readWriteLoop"); rw != nil {
		fi := c.P.Info(rw)
		errMask := c.pkgConstInt("nbio", "epollEventsError")
		isHupFact := func(ft ir.Fact) bool {
			e, zero, ok := ir.ZeroTest(ft.Cond, ft.Truth)
			if !ok || zero {
				return false
			}
			b, isB := ir.Resolve(e).(*ssa.BinOp)
			if !isB || b.Op != token.AND {
				return false
			}
			k, isK := ir.ConstInt(b.Y)
			return isK && k == errMask
		}
		// the close under the hang-up flag
		var hupClose ssa.Instruction
		for _, cs := range c.P.CallsNamed(rw, "(*nbio.Conn).closeWithError") {
			if fi.HasFact(cs.In, isHupFact) {
				hupClose = cs.In
			}
		}
		if hupClose == nil {
			c.Unres("C02.O14", "hang-up close", "closeWithError under ev.Events & epollEventsError != 0 not found")
		} else {
			// sync loop
			for _, rl := range loops {
				if rl.fn != rw {
					continue
				}
				bad := "the loop bound was not found"
				for _, i := range fi.Ifs() {
					b, ok := stripNot(i.Cond).(*ssa.BinOp)
					if !ok || b.Op != token.LSS || !c02IsBound(c, b.Y) || !fi.CanReach(i, rl.read) || !fi.InLoop(i) {
						continue
					}
					bad = ""
					lifted := false
					if ph, isPhi := ir.Resolve(b.Y).(*ssa.Phi); isPhi {
						for k, e := range ph.Edges {
							if v, isK := ir.ConstInt(e); isK && v >= 1<<30 {
								pred := ph.Block().Preds[k]
								for _, ft := range fi.FactsOnEdge(pred, ph.Block()) {
									if isHupFact(ft) {
										lifted = true
									}
								}
							}
						}
					}
					if !lifted {
						bad = "the synchronous read loop is bounded by MaxConnReadTimesPerEventLoop also when the event carries a hang-up flag, and the connection is closed right after it (" + c.Pos(hupClose) + "): whatever the peer sent beyond that many buffers before it closed is never delivered"
					}
				}
				if !fi.CanReach(rl.read, hupClose) {
					bad = "the hang-up close is not ordered after the synchronous read"
				}
				c.Cond(bad == "", "C02.O14", rl.name+": drained before the hang-up close", c.Pos(rl.read), "bound lifted under the hang-up flag, close after the loop", bad)
			}
			// async dispatch: the hang-up is handed to the read task, which drains and closes
			isHungupAddr := func(v ssa.Value) bool {
				fa, ok := ir.Root(v).(*ssa.FieldAddr)
				return ok && c.P.FieldKey(fa) == "nbio.Conn.hungup"
			}
			for _, cs := range c.P.CallsNamed(rw, "(*nbio.Conn).AsyncRead") {
				key := "(*nbio.poller).readWriteLoop: hang-up close after the async read task"
				if !fi.CanReach(cs.In, hupClose) {
					c.OK("C02.O14", key, c.Pos(cs.In), "the close is not reachable from the dispatch")
					continue
				}
				// (a) the poller does not close on this event itself: the hang-up edge behind the dispatch leaves the event
				handed := false
				for _, jf := range fi.Ifs() {
					if !fi.Dominates(cs.In, jf) {
						continue
					}
					for k := 0; k < 2; k++ {
						cnd, t := ir.StripNot(jf.Cond, k == 0)
						if !isHupFact(ir.Fact{If: jf, Cond: cnd, Truth: t}) {
							continue
						}
						vis, _ := fi.ReachFromEdge(jf, k, func(in ssa.Instruction) bool { return c.isCallTo(in, "(*nbio.poller).getConn") })
						if !vis[hupClose] {
							handed = true
						}
					}
				}
				// (b) the flag is set under the hang-up fact before the dispatch
				stored := false
				for _, st := range c.P.CallsNamed(rw, "sync/atomic.StoreInt32") {
					if isHungupAddr(st.Common.Args[0]) && fi.HasFact(st.In, isHupFact) && fi.CanReach(st.In, cs.In) {
						stored = true
					}
				}
				// (c) the task looks at the flag before it reads, and closes behind it after the reads
				taskOK := true
				nTasks := 0
				if ar := c.P.Func("(*nbio.Conn).AsyncRead"); ar != nil {
					for _, g := range ir.Closures(ar) {
						reads := c.P.CallsNamed(g, "(*nbio.Conn).ReadAndGetConn")
						if len(reads) == 0 {
							continue
						}
						nTasks++
						gi := c.P.Info(g)
						var load ssa.Value
						for _, ld := range c.P.CallsNamed(g, "sync/atomic.LoadInt32") {
							if isHungupAddr(ld.Common.Args[0]) && gi.Dominates(ld.In, reads[0].In) {
								// before the reads of every round, the first included (with an outer loop a load
								// behind the reads can reach the next round's read, but does not dominate it)
								load = ld.Value()
							}
						}
						if load == nil {
							taskOK = false
							continue
						}
						dep := c.dependsOn(g, load)
						closes := false
						for _, cl := range c.P.CallsNamed(g, "(*nbio.Conn).closeWithError") {
							if gi.CanReach(reads[0].In, cl.In) && gi.HasFact(cl.In, func(ft ir.Fact) bool { return dep[ft.Cond] || dep[ir.Resolve(ft.Cond)] }) {
								closes = true
							}
						}
						if !closes {
							taskOK = false
						}
					}
				}
				ok := handed && stored && taskOK && nTasks >= 2
				c.Cond(ok, "C02.O14", key, c.Pos(cs.In), "the hang-up is handed to the read task: flag stored before the dispatch, no poller close on this event, the task looks at the flag before it reads and closes behind it",
					"in asynchronous-read mode the poller schedules the read task and then closes the connection on the same hang-up event ("+c.Pos(hupClose)+") without waiting for the task: bytes the peer sent before it closed can be lost")
			}
		}
	}

	// ------------------------------------------------------------------ O3
	for _, rl := range loops {
		if !strings.Contains(rl.name, "one-shot") {
			continue
		}
		fi := c.P.Info(rl.fn)
		vis, _ := fi.Reach([]ssa.Instruction{rl.fn.Blocks[0].Instrs[0]}, func(in ssa.Instruction) bool {
			return c.isCallTo(in, "(*nbio.Conn).ResetPollerEvent", "(*nbio.Conn).closeWithError")
		})
		bad := ""
		for in := range vis {
			if ir.IsExit(in) {
				bad = "the one-shot read task can end at " + c.Pos(in) + " without re-arming the descriptor: the connection would never be read again"
			}
		}
		c.Cond(bad == "", "C02.O3", rl.name+": re-arm on every exit", c.FnPos(rl.fn), "ResetPollerEvent or close on every path", bad)
	}

	// ------------------------------------------------------------------ O4
	for _, rl := range loops {
		if !strings.HasSuffix(rl.name, ": sync read loop") {
			continue
		}
		fi := c.P.Info(rl.fn)
		bad := "no borrow"
		for _, cs := range c.P.CallsNamed(rl.fn, "(*nbio.Engine).borrow") {
			bad = ""
			b := cs.Value()
			vis, _ := fi.Reach([]ssa.Instruction{cs.In}, func(in ssa.Instruction) bool {
				x, ok := ir.AsCall(in)
				return ok && c.P.CalleeName(x.Common) == "(*nbio.Engine).payback" && ir.Resolve(x.Common.Args[2]) == b
			})
			for in := range vis {
				if in == cs.In || ir.IsExit(in) || c.isCallTo(in, "syscall.EpollWait") {
					bad = "a borrowed read buffer is not paid back before " + c.Pos(in)
				}
			}
			if ir.Resolve(rl.pbuf) != b {
				bad = "the read does not use the borrowed buffer"
			}
		}
		c.Cond(bad == "", "C02.O4", rl.name+": borrow/payback", c.FnPos(rl.fn), "payback(same buffer) on every path", bad)
	}

	// ------------------------------------------------------------------ O5
	{
		for i, s := range eng.CheckAtomicOnly(c.P, c.libFuncs(), fConnReadEv) {
			key := fmt.Sprintf("%s: readEvents use#%d", c.P.FuncName(s.Fn), i+1)
			c.Cond(s.OK, "C02.O5", key, c.Pos(s.In), "argument of a sync/atomic function", "Conn.readEvents is accessed non-atomically")
		}
		if ar := c.Fn("C02.O5", "(*nbio.Conn).AsyncRead"); ar != nil {
			fi := c.P.Info(ar)
			var incs []*ssa.Call
			for _, cs := range c.P.CallsNamed(ar, "sync/atomic.AddInt32") {
				if k, ok := ir.ConstInt(cs.Common.Args[1]); ok && k == 1 {
					if call, isCall := cs.In.(*ssa.Call); isCall {
						incs = append(incs, call)
					}
				}
			}
			bad := ""
			if len(incs) == 0 {
				bad = "no increment of the gate"
			}
			// the increment that gates a submission: the nearest dominating one
			gateOf := func(at ssa.Instruction) *ssa.Call {
				var best *ssa.Call
				for _, inc := range incs {
					if fi.Dominates(inc, at) && (best == nil || fi.Dominates(best, inc)) {
						best = inc
					}
				}
				return best
			}
			ungated := ""
			nSub := 0
			for _, cs := range c.P.Calls(ar, func(n string, _ ir.CallSite) bool { return n == "dyn:nbio.Config.IOExecute" }) {
				nSub++
				inc := gateOf(cs.In)
				if inc == nil {
					ungated = c.Pos(cs.In)
					continue
				}
				_, hi := fi.IntervalAt(cs.In, inc)
				if hi != 1 {
					bad = fmt.Sprintf("a read task is submitted when the increment returned up to %d, not only 1: two tasks could read the same connection concurrently", hi)
				}
			}
			for _, inc := range incs {
				// over-count edge undoes
				for _, i := range fi.Ifs() {
					cmp, ok := ir.DecodeIntCmp(stripNot(i.Cond))
					if !ok || ir.Resolve(cmp.Expr) != ssa.Value(inc) || !(cmp.Holds(3) && !cmp.Holds(2)) {
						continue
					}
					vis, _ := fi.ReachFromEdge(i, edgeForTruth(i, true), func(in ssa.Instruction) bool {
						cs, ok := ir.AsCall(in)
						if !ok || c.P.CalleeName(cs.Common) != "sync/atomic.AddInt32" {
							return false
						}
						k, isK := ir.ConstInt(cs.Common.Args[1])
						return isK && k == -1
					})
					for in := range vis {
						if ir.IsExit(in) {
							bad = "the over-count edge returns without undoing its increment: the gate would stay above 0 and the connection would never be read again"
						}
					}
				}
			}
			c.Cond(ungated == "" && nSub > 0, "C02.O16", fnKey(c.P, ar, "every read task is submitted behind the gate"), c.FnPos(ar), fmt.Sprintf("%d submission(s), each dominated by an increment of readEvents", nSub),
				"the read task submitted at "+ungated+" is not behind the readEvents gate: one-shot mode relies on the descriptor staying disabled until the task sets the event again, but a Write that hits EAGAIN re-arms it for reading and writing (Conn.modWrite -> EPOLL_CTL_MOD IN|OUT|ONESHOT) while the task is still running, so the next input starts a second task next to it — two OnData calls of one connection at once, bytes delivered out of order")
			c.Cond(bad == "", "C02.O5", fnKey(c.P, ar, "gate on submission"), c.FnPos(ar), "submit iff increment == 1; over-count undone", bad)
		}
		for _, rl := range loops {
			if !rl.gated {
				continue
			}
			fi := c.P.Info(rl.fn)
			bad := ""
			for _, r := range fi.Returns() {
				okRet := fi.HasFact(r, func(ft ir.Fact) bool {
					cmp, ok := ir.DecodeIntCmp(ft.Cond)
					if !ok {
						return false
					}
					call, isCall := ir.Resolve(cmp.Expr).(*ssa.Call)
					if !isCall || c.P.CalleeName(&call.Call) != "sync/atomic.AddInt32" {
						return false
					}
					k, _ := ir.ConstInt(call.Call.Args[1])
					return k == -1 && cmp.Holds(0) == ft.Truth && cmp.Holds(1) != ft.Truth
				})
				closed := false
				for _, cs := range c.P.CallsNamed(rl.fn, "(*nbio.Conn).closeWithError") {
					if fi.Dominates(cs.In, r) {
						closed = true
					}
				}
				if !okRet && !closed {
					bad = "the gated read task returns at " + c.Pos(r) + " without having brought the gate to 0: a readiness event that arrived meanwhile would be lost"
				}
			}
			c.Cond(bad == "", "C02.O5", rl.name+": exit only at gate 0", c.FnPos(rl.fn), "return only when the decrement returned 0 (or after close)", bad)
		}
	}

	// ------------------------------------------------------------------ O6
	c02PositiveBuffers(c)

	// ------------------------------------------------------------------ O7
	{
		writers := map[string]bool{}
		bad := ""
		for _, f := range c.nbioFuncs() {
			fi := c.P.Info(f)
			for _, b := range f.Blocks {
				for _, in := range b.Instrs {
					st, ok := in.(*ssa.Store)
					if !ok {
						continue
					}
					ia, ok := st.Addr.(*ssa.IndexAddr)
					if !ok || c.P.LoadedField(ia.X) != fEngConnsUnix {
						continue
					}
					name := c.P.FuncName(ir.Outermost(f))
					writers[name] = true
					if name == "(*nbio.poller).deleteConn" {
						if !fi.HasFact(st, func(ft ir.Fact) bool {
							bo, ok := ft.Cond.(*ssa.BinOp)
							if !ok || bo.Op != token.EQL || !ft.Truth {
								return false
							}
							for _, p := range [][2]ssa.Value{{bo.X, bo.Y}, {bo.Y, bo.X}} {
								if _, isParam := ir.Resolve(p[0]).(*ssa.Parameter); isParam {
									if a, isLoad := ir.IsLoad(ir.Resolve(p[1])); isLoad {
										if ia2, ok := a.(*ssa.IndexAddr); ok && c.P.LoadedField(ia2.X) == fEngConnsUnix {
											return true
										}
									}
								}
							}
							return false
						}) {
							bad = "deleteConn clears the table slot without checking that it still holds this connection: a reused descriptor's new connection would be dropped from the table"
						}
					}
				}
			}
		}
		want := "(*nbio.poller).addConn,(*nbio.poller).addDialer,(*nbio.poller).deleteConn"
		got := strings.Join(sortedKeys(writers), ",")
		c.Cond(got == want, "C02.O7", "writers of connsUnix[fd]", "", got, "the fd->connection table is written by ["+got+"], expected ["+want+"]")
		c.Cond(bad == "", "C02.O7", "(*nbio.poller).deleteConn: identity-guarded removal", "", "removal behind c == connsUnix[fd]", bad)
	}

	// ------------------------------------------------------------------ O8
	if gc := c.Fn("C02.O8", "(*nbio.udpConn).getConn"); gc != nil {
		fi := c.P.Info(gc)
		var look *ssa.Lookup
		var upd *ssa.MapUpdate
		for _, b := range gc.Blocks {
			for _, in := range b.Instrs {
				switch x := in.(type) {
				case *ssa.Lookup:
					if x.CommaOk {
						look = x
					}
				case *ssa.MapUpdate:
					upd = x
				}
			}
		}
		bad := ""
		switch {
		case look == nil || upd == nil:
			bad = "lookup / insert not found"
		case ir.Resolve(look.Index) != ir.Resolve(upd.Key):
			bad = "the session is stored under " + c.P.Desc(upd.Key) + " but looked up under " + c.P.Desc(look.Index) + ": datagrams of one remote would create a new session every time"
		case c.P.LoadedField(look.X) != "nbio.udpConn.conns" || c.P.LoadedField(upd.Map) != "nbio.udpConn.conns":
			bad = "lookup and insert use different maps"
		default:
			var okv ssa.Value
			if refs := look.Referrers(); refs != nil {
				for _, r := range *refs {
					if e, isE := r.(*ssa.Extract); isE && e.Index == 1 {
						okv = e
					}
				}
			}
			if okv == nil || !fi.HasFact(upd, func(ft ir.Fact) bool { return ir.SameValue(ft.Cond, okv) && !ft.Truth }) {
				bad = "the session is (re)created off the miss edge: an existing session would be replaced"
			}
		}
		c.Cond(bad == "", "C02.O8", fnKey(c.P, gc, "lookup/insert agree, insert on miss"), c.FnPos(gc), "same key, insert on !ok", bad)
		// every session handed out comes from this call's lookup in the session table or was
		// created by it: a session cached anywhere else is not invalidated when it closes
		// (udpConn.Close removes it from the table only)
		{
			bad := ""
			n := 0
			var fromTable func(v ssa.Value, d int) bool
			fromTable = func(v ssa.Value, d int) bool {
				if d > 6 {
					return false
				}
				switch x := v.(type) {
				case *ssa.Phi:
					for _, e := range x.Edges {
						if !fromTable(e, d+1) {
							return false
						}
					}
					return true
				case *ssa.Extract:
					if lk, ok := x.Tuple.(*ssa.Lookup); ok && c.P.LoadedField(ir.Resolve(lk.X)) == "nbio.udpConn.conns" {
						return true
					}
				case *ssa.Lookup:
					return c.P.LoadedField(ir.Resolve(x.X)) == "nbio.udpConn.conns"
				case *ssa.Alloc:
					return x.Heap && x.Parent() == gc
				}
				return false
			}
			for _, r := range c.P.Info(gc).Returns() {
				n++
				v := ir.RetVals(r)[0]
				if !fromTable(v, 0) {
					bad = "getConn returns " + c.P.Desc(v) + " at " + c.Pos(r) + ", which is neither this call's lookup in the session table nor the session it created: a closed session (removed from the table only) would keep receiving the remote's datagrams"
				}
			}
			c.Cond(bad == "", "C02.O8", fnKey(c.P, gc, "sessions come from the table"), c.FnPos(gc), fmt.Sprintf("%d return(s): table lookup or fresh session", n), bad)
		}
	}
	if ru := c.Fn("C02.O8", "(*nbio.Conn).readUDP"); ru != nil {
		fi := c.P.Info(ru)
		bad := "open notification for UDP sessions not found"
		for _, cs := range c.P.Calls(ru, func(n string, _ ir.CallSite) bool { return n == "dyn:"+fEngOnOpen }) {
			bad = ""
			miss := fi.HasFact(cs.In, func(ft ir.Fact) bool {
				e, ok := ir.Resolve(ft.Cond).(*ssa.Extract)
				if !ok || e.Index != 1 || ft.Truth {
					return false
				}
				call, isCall := e.Tuple.(*ssa.Call)
				return isCall && c.P.CalleeName(&call.Call) == "(*nbio.udpConn).getConn"
			})
			if !miss {
				bad = "the open notification for a UDP session is not restricted to the miss edge: every datagram would announce a new connection"
			}
			// announced connection = the session returned
			if e, ok := ir.Resolve(cs.Common.Args[0]).(*ssa.Extract); !ok || e.Index != 0 {
				bad = "the connection announced is not the session returned by getConn"
			}
		}
		c.Cond(bad == "", "C02.O8", fnKey(c.P, ru, "open on miss only"), c.FnPos(ru), "onOpen(session) on the !ok edge", bad)
	}
	_ = core
}

// c02PositiveBuffers: O6.
func c02PositiveBuffers(c *Ctx) {
	// read-buffer allocation sites: byte slices stored into poller.ReadBuffer, and the IO task pool's buffers
	type site struct {
		fn  *ssa.Function
		mk  *ssa.MakeSlice
		why string
	}
	var sites []site
	for _, f := range c.pkgFuncs("nbio", "taskpool") {
		for _, b := range f.Blocks {
			for _, in := range b.Instrs {
				mk, ok := in.(*ssa.MakeSlice)
				if !ok || mk.Type().String() != "[]byte" {
					continue
				}
				feeds := ""
				if refs := mk.Referrers(); refs != nil {
					for _, r := range *refs {
						if st, ok := r.(*ssa.Store); ok {
							if fa, ok := st.Addr.(*ssa.FieldAddr); ok && c.P.FieldKey(fa) == "nbio.poller.ReadBuffer" {
								feeds = "poller read buffer"
							}
							if a, ok := st.Addr.(*ssa.Alloc); ok && c.P.PkgOf(f) == "taskpool" {
								_ = a
								feeds = "IO task pool read buffer"
							}
						}
					}
				}
				if feeds != "" {
					sites = append(sites, site{f, mk, feeds})
				}
			}
		}
	}
	if len(sites) < 2 {
		c.Unres("C02.O6", "read-buffer allocation sites", fmt.Sprintf("found %d, expected the poller buffer and the IO task pool buffer", len(sites)))
	}
	for _, s := range sites {
		key := fmt.Sprintf("%s: %s", c.P.FuncName(ir.Outermost(s.fn)), s.why)
		ok, why := c.provablyPositive(s.mk.Len, s.fn, 0)
		c.Cond(ok, "C02.O6", key, c.Pos(s.mk), "length provably positive: "+why, "the read buffer is made with length "+c.P.Desc(s.mk.Len)+", which is not provably positive ("+why+"): a zero-length buffer reads 0 bytes forever and the loop spins without delivering data")
	}
}

// provablyPositive: a positive constant, a value normalised by the `k <= 0 ->
// default` idiom, a config field normalised by its constructor, or a
// parameter that every caller passes provably positive.
func (c *Ctx) provablyPositive(v ssa.Value, fn *ssa.Function, depth int) (bool, string) {
	if depth > 4 {
		return false, "too indirect"
	}
	rv := ir.Resolve(v)
	if k, ok := ir.ConstInt(rv); ok {
		if k > 0 {
			return true, fmt.Sprintf("constant %d", k)
		}
		return false, fmt.Sprintf("constant %d", k)
	}
	switch x := rv.(type) {
	case *ssa.Phi:
		// normalisation: phi(p, const>0) where the p edge is under p > 0
		fi := c.P.Info(x.Parent())
		for i, e := range x.Edges {
			if k, isK := ir.ConstInt(e); isK {
				if k <= 0 {
					return false, "a non-positive default"
				}
				continue
			}
			lo, _ := ir.IntervalOf(fi.FactsOnEdge(x.Block().Preds[i], x.Block()), e)
			if lo < 1 {
				if ok, why := c.provablyPositive(e, fn, depth+1); !ok {
					return false, why
				}
			}
		}
		return true, "normalised (k <= 0 -> default)"
	case *ssa.Parameter:
		f := x.Parent()
		idx := -1
		for i, p := range f.Params {
			if p == x {
				idx = i
			}
		}
		n := 0
		for _, g := range c.libFuncs() {
			for _, cs := range c.P.Calls(g, nil) {
				if ir.StaticCallee(cs.Common) != f || idx >= len(cs.Common.Args) {
					continue
				}
				n++
				if ok, why := c.provablyPositive(cs.Common.Args[idx], g, depth+1); !ok {
					return false, "caller " + c.P.FuncName(g) + " at " + c.Pos(cs.In) + " passes " + why
				}
			}
		}
		if n == 0 {
			return false, "exported parameter without normalisation"
		}
		return true, fmt.Sprintf("every caller (%d) passes a positive value", n)
	}
	// a local cell (captured, reassigned parameter): normalised when every path
	// from the entry to the capture passes the store of a positive constant or
	// the positive edge of a `cell <= 0` test, and nothing else is stored later
	if ld, ok := rv.(*ssa.UnOp); ok && ld.Op == token.MUL {
		if cell, isCell := ir.Root(ld.X).(*ssa.Alloc); isCell {
			par := cell.Parent()
			pfi := c.P.Info(par)
			okStores := true
			for _, b := range par.Blocks {
				for _, in := range b.Instrs {
					st, isSt := in.(*ssa.Store)
					if !isSt || st.Addr != ssa.Value(cell) {
						continue
					}
					if k, isK := ir.ConstInt(st.Val); isK {
						if k <= 0 {
							okStores = false
						}
						continue
					}
					if _, isParam := st.Val.(*ssa.Parameter); isParam && b == par.Blocks[0] {
						continue // the spill of the parameter at entry
					}
					okStores = false
				}
			}
			if !okStores {
				return false, "local " + cell.Comment + " receives a value that is not a positive constant"
			}
			posStore := func(in ssa.Instruction) bool {
				st, isSt := in.(*ssa.Store)
				if !isSt || st.Addr != ssa.Value(cell) {
					return false
				}
				k, isK := ir.ConstInt(st.Val)
				return isK && k > 0
			}
			posEdge := func(i *ssa.If, k int) bool {
				cmp, ok := ir.DecodeIntCmp(stripNot(i.Cond))
				if !ok {
					return false
				}
				l2, isLd := ir.Unconv(cmp.Expr).(*ssa.UnOp)
				if !isLd || l2.Op != token.MUL || l2.X != ssa.Value(cell) {
					return false
				}
				_, t := ir.StripNot(i.Cond, k == 0)
				// on this edge the cell is >= 1
				return cmp.Holds(1) == t && cmp.Holds(0) != t
			}
			vis, _ := pfi.ReachOpt([]ssa.Instruction{par.Blocks[0].Instrs[0]}, posStore, posEdge)
			for in := range vis {
				if mc, isMC := in.(*ssa.MakeClosure); isMC {
					for _, b := range mc.Bindings {
						if b == ssa.Value(cell) {
							return false, "local " + cell.Comment + " can reach the closure at " + c.Pos(in) + " without having been normalised"
						}
					}
				}
				if l3, isLd := in.(*ssa.UnOp); isLd && l3 == ld {
					return false, "local " + cell.Comment + " is used without having been normalised"
				}
			}
			return true, "local " + cell.Comment + " normalised (k <= 0 -> default) before use"
		}
	}
	// a free variable bound to a parameter / value of the parent
	if field := c.P.LoadedField(rv); field != "" {
		// normalised by a constructor: an `F <= 0` test whose edge stores a positive constant to F
		for _, f := range c.libFuncs() {
			fi := c.P.Info(f)
			for _, st := range c.P.StoresTo(f, field) {
				k, isK := ir.ConstInt(st.Val)
				if !isK || k <= 0 {
					continue
				}
				if fi.HasFact(st, func(ft ir.Fact) bool {
					cmp, ok := ir.DecodeIntCmp(ft.Cond)
					return ok && c.P.LoadedField(cmp.Expr) == field && cmp.Holds(0) == ft.Truth && cmp.Holds(1) != ft.Truth
				}) {
					return true, field + " is normalised in " + c.P.FuncName(f)
				}
			}
		}
		return false, field + " is never normalised"
	}
	return false, c.P.Desc(rv)
}

// c02Published: in Engine.Start, no `go (*poller).start` may be followed by a
// store to an Engine field that the poller goroutines read.
func c02Published(c *Ctx) {
	start := c.Fn("C02.O9", "(*nbio.Engine).Start")
	pstart := c.Fn("C02.O9", "(*nbio.poller).start")
	if start == nil || pstart == nil {
		return
	}
	// forward closure of the poller goroutine
	reach := map[*ssa.Function]bool{}
	var walk func(f *ssa.Function)
	walk = func(f *ssa.Function) {
		if reach[f] {
			return
		}
		reach[f] = true
		for _, g := range ir.WithClosures(f) {
			reach[g] = true
		}
		for _, g := range c.staticCallees(f) {
			walk(g)
		}
	}
	walk(pstart)
	reads := map[string]bool{}
	for f := range reach {
		for _, b := range f.Blocks {
			for _, in := range b.Instrs {
				if u, ok := in.(*ssa.UnOp); ok {
					if fa, ok := u.X.(*ssa.FieldAddr); ok && u.Op == token.MUL {
						if k := c.P.FieldKey(fa); strings.HasPrefix(k, "nbio.Engine.") || strings.HasPrefix(k, "nbio.Config.") {
							reads[k] = true
						}
					}
				}
			}
		}
	}
	fi := c.P.Info(start)
	var gos []ssa.Instruction
	for _, b := range start.Blocks {
		for _, in := range b.Instrs {
			if g, ok := in.(*ssa.Go); ok {
				if callee := ir.StaticCallee(&g.Call); callee == pstart {
					gos = append(gos, in)
				}
			}
		}
	}
	if len(gos) == 0 {
		c.Unres("C02.O9", fnKey(c.P, start, "configuration published before the loops start"), "no go (*poller).start found")
		return
	}
	vis, _ := fi.Reach(gos, nil)
	bad := ""
	nst := 0
	for _, b := range start.Blocks {
		for _, in := range b.Instrs {
			st, ok := in.(*ssa.Store)
			if !ok {
				continue
			}
			fa, ok := st.Addr.(*ssa.FieldAddr)
			if !ok {
				continue
			}
			k := c.P.FieldKey(fa)
			if !reads[k] {
				continue
			}
			nst++
			if vis[in] {
				if bad != "" {
					bad += "; "
				}
				bad += k + " is assigned at " + c.Pos(in) + " after a poller goroutine was started"
			}
		}
	}
	if bad != "" {
		bad += ": the loops read these when they start or on their first event, so a poller can run in the wrong mode (one-shot descriptors never re-armed) or without its executor"
	}
	c.Cond(bad == "", "C02.O9", fnKey(c.P, start, "configuration published before the loops start"), c.FnPos(start),
		fmt.Sprintf("%d go statement(s), %d engine field(s) read by the loops, %d store(s) in Start all before the first go", len(gos), len(reads), nst), bad)
}

// c02PassThrough: O11.  The (count, error) pair travels unchanged from the
// kernel read to the read loops, which classify it (EINTR / EAGAIN / fatal).
func c02PassThrough(c *Ctx) {
	type spec struct {
		fn      string
		sources []string // callee names whose results may be returned
	}
	for _, sp := range []spec{
		{"(*nbio.Conn).Read", []string{"(*nbio.Conn).doRead"}},
		{"(*nbio.Conn).ReadAndGetConn", []string{"(*nbio.Conn).doRead"}},
		{"(*nbio.Conn).doRead", []string{"(*nbio.Conn).readStream", "(*nbio.Conn).readUDP"}},
		{"(*nbio.Conn).readStream", []string{"syscall.Read"}},
		{"(*nbio.Conn).readUDP", []string{"syscall.Recvfrom"}},
	} {
		fn := c.Fn("C02.O11", sp.fn)
		if fn == nil {
			continue
		}
		fi := c.P.Info(fn)
		fromSource := func(v ssa.Value) bool {
			ex, ok := ir.Resolve(v).(*ssa.Extract)
			if !ok {
				return false
			}
			call, ok := ex.Tuple.(*ssa.Call)
			if !ok {
				return false
			}
			name := c.P.CalleeName(&call.Call)
			for _, s := range sp.sources {
				if name == s {
					return true
				}
			}
			return false
		}
		bad := ""
		n := 0
		for _, r := range fi.Returns() {
			vals := ir.RetVals(r)
			errV := vals[len(vals)-1]
			cntV := vals[len(vals)-2]
			if c.isNonNilErrorValue(errV) {
				// a constant failure (closed connection, unsupported type): count must be 0
				continue
			}
			n++
			if !fromSource(errV) {
				bad = "the error returned at " + c.Pos(r) + " is not the one the kernel read reported (" + c.P.Desc(errV) + "): the read loops would classify a synthesised error as fatal and close the connection"
			}
			if k, isK := ir.ConstInt(cntV); isK && k == 0 {
				continue
			}
			if !fromSource(cntV) {
				bad = "the count returned at " + c.Pos(r) + " is not the one the kernel read reported (" + c.P.Desc(cntV) + ")"
			}
		}
		if n == 0 && bad == "" {
			bad = "no pass-through return found"
		}
		c.Cond(bad == "", "C02.O11", fnKey(c.P, fn, "count and error passed through"), c.FnPos(fn), fmt.Sprintf("%d return(s) hand the results of %v through", n, sp.sources), bad)
	}
}

// c02IsBound: the value is the configured per-event read bound, possibly lifted through a local.
func c02IsBound(c *Ctx, v ssa.Value) bool {
	const f = "nbio.Config.MaxConnReadTimesPerEventLoop"
	r := ir.Resolve(v)
	if c.P.LoadedField(r) == f {
		return true
	}
	if ph, ok := r.(*ssa.Phi); ok {
		for _, e := range ph.Edges {
			if c.P.LoadedField(ir.Resolve(e)) == f {
				return true
			}
		}
	}
	return false
}

// c02TypEdge classifies the edge of a test of Conn.typ against the two stream types:
// +1 the edge implies a stream type, -1 it excludes both, 0 otherwise.
func c02TypEdge(c *Ctx, fi *ir.FnInfo, i *ssa.If, k int) int {
	tcp, unix := c.pkgConstInt("nbio", "ConnTypeTCP"), c.pkgConstInt("nbio", "ConnTypeUnix")
	cnd, truth := ir.StripNot(i.Cond, k == 0)
	if ph, isPhi := cnd.(*ssa.Phi); isPhi {
		// a boolean computed from type tests before it is branched on (isStream := a || b)
		set, ok := c02PhiTypes(c, fi, ph, truth)
		if !ok {
			return 0
		}
		stream, other := 0, 0
		for v := range set {
			if v == tcp || v == unix {
				stream++
			} else {
				other++
			}
		}
		switch {
		case stream == 0:
			return -1
		case other == 0:
			return +1
		}
		return 0
	}
	cmp, ok := ir.DecodeIntCmp(cnd)
	if !ok || c.P.LoadedField(cmp.Expr) != "nbio.Conn.typ" {
		return 0
	}
	possible := map[int64]bool{tcp: true, unix: true}
	other := true // some non-stream type still possible
	apply := func(cmp ir.IntCmp, truth bool) {
		for v := range possible {
			if cmp.Holds(v) != truth {
				delete(possible, v)
			}
		}
		// does the fact pin the value to a stream type?
		if truth && !cmp.NotEq && cmp.TrueSet.Lo == cmp.TrueSet.Hi && (cmp.TrueSet.Lo == tcp || cmp.TrueSet.Lo == unix) {
			other = false
		}
		if !truth && cmp.NotEq && cmp.TrueSet.Lo == cmp.TrueSet.Hi && (cmp.TrueSet.Lo == tcp || cmp.TrueSet.Lo == unix) {
			other = false
		}
	}
	apply(cmp, truth)
	for _, ft := range fi.Facts(i) {
		if c2, ok := ir.DecodeIntCmp(ft.Cond); ok && c.P.LoadedField(c2.Expr) == "nbio.Conn.typ" {
			apply(c2, ft.Truth)
		}
	}
	switch {
	case len(possible) == 0:
		return -1
	case !other:
		return +1
	}
	return 0
}

func c02NonStreamEdge(c *Ctx, fi *ir.FnInfo, i *ssa.If, k int) bool {
	return c02TypEdge(c, fi, i, k) < 0
}
func c02StreamEdge(c *Ctx, fi *ir.FnInfo, i *ssa.If, k int) bool { return c02TypEdge(c, fi, i, k) > 0 }

// c02PhiTypes computes the connection types for which a boolean phi built from
// tests of Conn.typ has the given truth value (domain: the declared ConnType values).
func c02PhiTypes(c *Ctx, fi *ir.FnInfo, ph *ssa.Phi, want bool) (map[int64]bool, bool) {
	var domain []int64
	for v := int64(0); v <= 8; v++ {
		domain = append(domain, v)
	}
	out := map[int64]bool{}
	for j, e := range ph.Edges {
		pred := ph.Block().Preds[j]
		possible := map[int64]bool{}
		for _, v := range domain {
			possible[v] = true
		}
		restrict := func(cmp ir.IntCmp, truth bool) {
			for v := range possible {
				if cmp.Holds(v) != truth {
					delete(possible, v)
				}
			}
		}
		for _, ft := range fi.FactsOnEdge(pred, ph.Block()) {
			if c2, ok := ir.DecodeIntCmp(ft.Cond); ok && c.P.LoadedField(c2.Expr) == "nbio.Conn.typ" {
				restrict(c2, ft.Truth)
			}
		}
		switch x := e.(type) {
		case *ssa.Const:
			b, ok := ir.ConstBool(x)
			if !ok {
				return nil, false
			}
			if b != want {
				continue
			}
		default:
			cnd, truth := ir.StripNot(e, want)
			c2, ok := ir.DecodeIntCmp(cnd)
			if !ok || c.P.LoadedField(c2.Expr) != "nbio.Conn.typ" {
				return nil, false
			}
			restrict(c2, truth)
		}
		for v := range possible {
			out[v] = true
		}
	}
	return out, true
}

// c02ETOverride: O15.
func c02ETOverride(c *Ctx) {
	pstart := c.Fn("C02.O15", "(*nbio.poller).start")
	if pstart == nil {
		return
	}
	reach := map[*ssa.Function]bool{}
	var walk func(f *ssa.Function)
	walk = func(f *ssa.Function) {
		if reach[f] {
			return
		}
		reach[f] = true
		for _, g := range ir.WithClosures(f) {
			reach[g] = true
		}
		for _, g := range c.staticCallees(f) {
			walk(g)
		}
	}
	walk(pstart)
	et := c.pkgConstInt("nbio", "EPOLLET")
	isETFact := func(ft ir.Fact) bool {
		cmp, ok := ir.DecodeIntCmp(ft.Cond)
		return ok && strings.HasSuffix(c.P.LoadedField(cmp.Expr), ".EpollMod") && !cmp.NotEq && cmp.TrueSet.Lo == et && cmp.TrueSet.Hi == et && ft.Truth
	}
	const fBound = "nbio.Config.MaxConnReadTimesPerEventLoop"
	ok := false
	where := ""
	for _, f := range c.nbioFuncs() {
		fi := c.P.Info(f)
		for _, st := range c.P.StoresTo(f, fBound) {
			k, isK := ir.ConstInt(st.Val)
			if !isK || k < 1<<30 {
				continue
			}
			if !fi.HasFact(st, isETFact) {
				continue
			}
			if reach[f] {
				ok = true
			} else {
				where = c.P.FuncName(f) + " (" + c.Pos(st) + ")"
			}
		}
	}
	// or a local lift in every read loop (checked for the sync loop; the tasks read the field)
	bad := ""
	if !ok {
		bad = "the per-event read bound is not lifted for edge-triggered mode in code that runs when the pollers start"
		if where != "" {
			bad += " (it is lifted in " + where + ", before the mode is final: an engine switched to EPOLLET afterwards keeps the level-triggered bound, and whatever a burst leaves beyond it is never read because no further edge arrives)"
		}
	}
	c.Cond(bad == "", "C02.O15", "edge-triggered mode reads until EAGAIN", c.FnPos(pstart), "bound lifted under EpollMod == EPOLLET at poller start", bad)
}
