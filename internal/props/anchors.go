package props

import (
	"go/token"

	"golang.org/x/tools/go/ssa"

	"verif/internal/ir"
)

// Core field keys (internal identifiers; renaming one makes the anchor
// unresolved, which fails loudly — DESIGN §2.1).
const (
	fConnFd        = "nbio.Conn.fd"
	fConnMux       = "nbio.Conn.mux"
	fConnClosed    = "nbio.Conn.closed"
	fConnWriteList = "nbio.Conn.writeList"
	fConnLeft      = "nbio.Conn.left"
	fConnIsWAdded  = "nbio.Conn.isWAdded"
	fConnJobList   = "nbio.Conn.jobList"
	fConnRTimer    = "nbio.Conn.rTimer"
	fConnWTimer    = "nbio.Conn.wTimer"
	fConnTyp       = "nbio.Conn.typ"
	fConnCloseErr  = "nbio.Conn.closeErr"
	fConnReadEv    = "nbio.Conn.readEvents"
	fConnOnConn    = "nbio.Conn.onConnected"
	fEngOnClose    = "nbio.Engine.onClose"
	fEngOnOpen     = "nbio.Engine.onOpen"
	fEngOnDataPtr  = "nbio.Engine.onDataPtr"
	fEngConnsUnix  = "nbio.Engine.connsUnix"
)

// Core caches the role-resolved anchors of the nbio core package.
type Core struct {
	KernelWrites []ir.CallSite   // write/sendfile/sendto/writev syscalls on Conn.fd
	KernelReads  []ir.CallSite   // read/recvfrom on Conn.fd
	EnqueueFns   []*ssa.Function // functions that append to Conn.writeList (closures mapped to their outermost function)
	EnqueueBuf   *ssa.Function   // the enqueue function that takes a []byte
	EnqueueFile  *ssa.Function   // the enqueue function that takes a file range
	Teardown     *ssa.Function   // closes Conn.fd and calls deleteConn
	DeleteConn   *ssa.Function
	ArmFns       []*ssa.Function // store true to isWAdded
	DisarmFns    []*ssa.Function // store false to isWAdded
	Release      *ssa.Function   // releaseToWrite
	problems     []string
}

func (c *Ctx) nbioFuncs() []*ssa.Function {
	var out []*ssa.Function
	for _, f := range c.P.Funcs {
		if c.P.PkgOf(f) == "nbio" {
			out = append(out, f)
		}
	}
	return out
}

func (c *Ctx) pkgFuncs(pkgs ...string) []*ssa.Function {
	var out []*ssa.Function
	for _, f := range c.P.Funcs {
		pk := c.P.PkgOf(f)
		for _, w := range pkgs {
			if pk == w {
				out = append(out, f)
			}
		}
	}
	return out
}

// libFuncs are the library packages that are rule subjects.
func (c *Ctx) libFuncs() []*ssa.Function {
	return c.pkgFuncs("nbio", "nbhttp", "websocket", "mempool", "taskpool", "timer", "lmux")
}

// isFdOf reports that v is (a copy of) a load of Conn.fd.
func (c *Ctx) isConnFd(v ssa.Value) bool {
	v = ir.Unconv(v)
	if c.P.LoadedField(v) == fConnFd {
		return true
	}
	// local copy: dst = c.fd
	if ld, ok := ir.IsLoad(v); ok {
		if a, ok := ir.Root(ld).(*ssa.Alloc); ok {
			_ = a
		}
	}
	if d := c.P.Desc(v); d == fConnFd {
		return true
	}
	return false
}

var coreCache = map[*ir.Prog]*Core{}

// Core resolves the core anchors by role.
func (c *Ctx) Core() *Core {
	if k, ok := coreCache[c.P]; ok {
		return k
	}
	k := &Core{}
	coreCache[c.P] = k
	enq := map[*ssa.Function]bool{}
	for _, f := range c.nbioFuncs() {
		for _, b := range f.Blocks {
			for _, in := range b.Instrs {
				if cs, ok := ir.AsCall(in); ok {
					name := c.P.CalleeName(cs.Common)
					switch name {
					case "syscall.Write", "syscall.Sendfile", "syscall.Sendto":
						if len(cs.Common.Args) > 0 && c.isConnFd(cs.Common.Args[0]) {
							k.KernelWrites = append(k.KernelWrites, cs)
						}
					case "syscall.Syscall":
						if len(cs.Common.Args) >= 2 {
							if n, ok := ir.ConstInt(cs.Common.Args[0]); ok && n == c.sysNo("SYS_WRITEV") && c.isConnFd(cs.Common.Args[1]) {
								k.KernelWrites = append(k.KernelWrites, cs)
							}
						}
					case "syscall.Read", "syscall.Recvfrom":
						if len(cs.Common.Args) > 0 && c.isConnFd(cs.Common.Args[0]) {
							k.KernelReads = append(k.KernelReads, cs)
						}
					}
				}
				// enqueue: store to writeList of append(old writeList, ...)
				if st, ok := in.(*ssa.Store); ok {
					if fa, ok := st.Addr.(*ssa.FieldAddr); ok && c.P.FieldKey(fa) == fConnWriteList {
						if call, ok := st.Val.(*ssa.Call); ok {
							if bi, ok := call.Call.Value.(*ssa.Builtin); ok && bi.Name() == "append" &&
								c.P.LoadedField(call.Call.Args[0]) == fConnWriteList {
								enq[ir.Outermost(f)] = true
							}
						}
					}
					if fa, ok := st.Addr.(*ssa.FieldAddr); ok && c.P.FieldKey(fa) == fConnIsWAdded {
						if bv, ok := ir.ConstBool(st.Val); ok {
							if bv {
								k.ArmFns = append(k.ArmFns, f)
							} else {
								k.DisarmFns = append(k.DisarmFns, f)
							}
						}
					}
				}
			}
		}
	}
	for f := range enq {
		k.EnqueueFns = append(k.EnqueueFns, f)
	}
	sortFns(c.P, k.EnqueueFns)
	for _, f := range k.EnqueueFns {
		hasSlice := false
		for _, p := range f.Params {
			if p.Type().String() == "[]byte" {
				hasSlice = true
			}
		}
		if hasSlice {
			if k.EnqueueBuf != nil {
				k.problems = append(k.problems, "more than one buffer-enqueue function")
			}
			k.EnqueueBuf = f
		} else {
			if k.EnqueueFile != nil {
				k.problems = append(k.problems, "more than one file-enqueue function")
			}
			k.EnqueueFile = f
		}
	}
	// teardown: closes Conn.fd and calls deleteConn
	k.DeleteConn = c.P.Func("(*nbio.poller).deleteConn")
	for _, f := range c.nbioFuncs() {
		closesFd, callsDelete := false, false
		for _, cs := range c.P.Calls(f, nil) {
			n := c.P.CalleeName(cs.Common)
			if n == "syscall.Close" && len(cs.Common.Args) == 1 && c.isConnFd(cs.Common.Args[0]) {
				closesFd = true
			}
			if n == "(*nbio.poller).deleteConn" {
				callsDelete = true
			}
		}
		if closesFd && callsDelete {
			if k.Teardown != nil {
				k.problems = append(k.problems, "more than one teardown function")
			}
			k.Teardown = f
		}
	}
	k.Release = c.P.Func("(*nbio.Conn).releaseToWrite")
	return k
}

func sortFns(p *ir.Prog, fs []*ssa.Function) {
	for i := 0; i < len(fs); i++ {
		for j := i + 1; j < len(fs); j++ {
			if p.FuncName(fs[j]) < p.FuncName(fs[i]) {
				fs[i], fs[j] = fs[j], fs[i]
			}
		}
	}
}

// sysNo looks up a syscall number constant in the loaded syscall package.
func (c *Ctx) sysNo(name string) int64 {
	for _, sp := range c.P.SSA.AllPackages() {
		if sp.Pkg.Path() == "syscall" {
			if m, ok := sp.Members[name].(*ssa.NamedConst); ok {
				if n, ok := ir.ConstInt(m.Value); ok {
					return n
				}
			}
		}
	}
	return -1
}

// isCallTo reports a plain call instruction to one of the named callees.
func (c *Ctx) isCallTo(in ssa.Instruction, names ...string) bool {
	cs, ok := ir.AsCall(in)
	if !ok || cs.Kind != "call" {
		return false
	}
	n := c.P.CalleeName(cs.Common)
	for _, x := range names {
		if n == x {
			return true
		}
	}
	return false
}

// callsFn reports a plain call whose static callee is fn.
func callsFn(in ssa.Instruction, fn *ssa.Function) bool {
	cs, ok := ir.AsCall(in)
	if !ok || cs.Kind != "call" || fn == nil {
		return false
	}
	return ir.StaticCallee(cs.Common) == fn
}

// queueTest classifies a dominating fact as a test of len(Conn.writeList):
// ok, and whether the queue is empty on that edge.
func (c *Ctx) queueTest(f ir.Fact) (empty bool, ok bool) {
	e, zero, ok := ir.ZeroTest(f.Cond, f.Truth)
	if !ok {
		// writeList == nil is NOT an emptiness test: flush pops with writeList[1:] and
		// leaves an empty non-nil slice.  Only "!= nil" implies nothing (may be empty),
		// and "== nil" implies empty.
		x, isNil, ok2 := ir.NilTest(f.Cond, f.Truth)
		if ok2 && isNil && c.P.LoadedField(x) == fConnWriteList {
			return true, true
		}
		return false, false
	}
	if x, isLen := ir.IsLenOf(e); isLen && c.P.LoadedField(x) == fConnWriteList {
		return zero, true
	}
	return false, false
}

// closedTest classifies a fact as a test of Conn.closed (value on this edge).
func (c *Ctx) closedTest(f ir.Fact, field string) (closed bool, ok bool) {
	k, set, ok := c.P.BoolFieldTest(f.Cond, f.Truth)
	if ok && k == field {
		return set, true
	}
	return false, false
}

// underNotClosed reports that `at` is dominated by the false edge of a read of
// the closed flag.
func (c *Ctx) underNotClosed(fi *ir.FnInfo, at ssa.Instruction, field string) bool {
	return fi.HasFact(at, func(f ir.Fact) bool {
		cl, ok := c.closedTest(f, field)
		return ok && !cl
	})
}

func isStoreTrue(in ssa.Instruction, p *ir.Prog, field string) bool {
	st, ok := in.(*ssa.Store)
	if !ok {
		return false
	}
	fa, ok := st.Addr.(*ssa.FieldAddr)
	if !ok || p.FieldKey(fa) != field {
		return false
	}
	b, ok := ir.ConstBool(st.Val)
	return ok && b
}

func isLoadOfField(in ssa.Instruction, p *ir.Prog, field string) bool {
	u, ok := in.(*ssa.UnOp)
	if !ok || u.Op != token.MUL {
		return false
	}
	fa, ok := u.X.(*ssa.FieldAddr)
	return ok && p.FieldKey(fa) == field
}
