package props

import (
	"fmt"
	"go/token"

	"golang.org/x/tools/go/ssa"

	"verif/internal/eng"
	"verif/internal/ir"
)

func init() {
	register(&Property{
		ID:          "C04",
		Engines:     []string{"cfg", "lockset"},
		Explanation: "Flush liveness rests on the invariant 'queue non-empty => write interest registered'; decided as code shape: every enqueue is followed by arming before the mutex is released (O1); write interest is disarmed only under the mutex on the queue-empty edge (O2); the isWAdded flag and the epoll registration change together behind the !closed test (O3); the epoll interest masks carry the required bits (O4); the write-event edge of the poller reaches flush and nothing else calls flush (O5); the one-shot re-arm chooses read+write exactly on the queue-non-empty edge and reads the queue under the mutex (O6); a registration issued after a user callback reconciles a backlog the callback created (O7). The re-arm sites reach the kernel registration without the isWAdded guard (O6, O7); flush gives up with a non-empty queue only on the EAGAIN edge (O9). The disarm helper clears the flag on every path on which it found it set (O10); an explicit success return of flush's head-writers is behind the pop of the head (O11). No empty entry is queued (O13); flush's queue-empty returns disarm (O14); writeList and isWAdded are guarded by Conn.mux on every access (O15); resetRead only next to isWAdded = false or in the queue-decided re-arm (O16). The queue test behind a disarm is not stale (O2). A disarm on the queue-empty edge has no second condition (O17).",
		NotCovered:  "that the kernel delivers the event; eventual delivery itself; edge-triggered timing",
		Run:         runC04,
	})
}

func runC04(c *Ctx) {
	c.Rule("C04.O1", "E4", "in Write/Writev/Sendfile every path from an enqueue to the release of Conn.mux passes the arm function, unless it takes the queue-empty edge, the enqueue is on the queue-non-empty edge, or the path ends in teardown", 3)
	c.Rule("C04.O2", "E4,E1", "every call of the disarm function holds Conn.mux and is dominated by the queue-empty edge", 2)
	c.Rule("C04.O3", "E4", "a store to isWAdded sits in the block of the matching epoll_ctl call, behind the !closed test (addDialer: pre-publication exception)", 3)
	c.Rule("C04.O16", "E4,E1", "the converse of O3: the poller-level read-only registration (resetRead) is issued only next to isWAdded = false, or by the one-shot re-arm that decides by the queue (queue-empty edge under Conn.mux); nothing else takes write interest away and leaves the flag set", 2)
	c.Rule("C04.O17", "E4", "a disarm issued on the queue-empty edge is conditioned by nothing else: no further branch between the queue test and Conn.resetRead (flush, dial completion)", 2)
	c04DisarmByQueueAlone(c)
	c.Rule("C04.O4", "E9", "setReadWrite always registers EPOLLOUT|EPOLLIN|error flags (+EPOLLET in ET mode); setRead registers EPOLLIN|error flags and EPOLLOUT exactly in the ET-without-ONESHOT ADD", 6)
	c.Rule("C04.O5", "E4,E5", "flush is called only from the poller loop, on the write-event edge", 1)
	c.Rule("C04.O6", "E4,E1", "ResetPollerEvent re-arms read+write exactly on the queue-non-empty edge and reads closed/writeList under Conn.mux", 1)
	c.Rule("C04.O7", "E4", "after EPOLL_CTL_ADD that follows a user callback, the success path arms write interest under the mutex on the queue-non-empty edge", 1)

	c.Rule("C04.O9", "E4", "flush gives up with a non-empty queue only when the kernel refused bytes: every success return is on the queue-empty edge or on the EAGAIN edge (edge-triggered mode delivers no further event otherwise)", 1)
	c.Rule("C04.O10", "E4", "the disarm helper clears isWAdded on every path on which it found the flag set on an open connection: the flag may never say 'armed' after flush has drained the queue", 1)
	c.Rule("C04.O11", "E4", "flush makes progress: an explicit success return of a head-writer (buffer / file) is behind the pop of the head on every path, so the drain loop cannot see the same finished head again", 1)
	c.Rule("C04.O12", "E5", "whether something is queued is decided on the queue itself, never on the byte counter Conn.left (same rule as C17.O6)", 1)
	c17Readers(c, "C04.O12")
	c.Rule("C04.O13", "E4", "no empty entry is ever queued: the buffer-enqueue function appends to the queue only behind len(buf) != 0 (flush's buffer writer pops an entry only after a positive count, so an empty entry is never removed and flush spins on it)", 1)
	c.Rule("C04.O14", "E4", "flush never leaves with an empty queue and the write-interest flag still set: its queue-empty success returns pass the disarm helper (a dialer that connected at once starts with the flag set and nothing queued)", 1)
	c.Rule("C04.O8", "E4", "one-shot mode: every dispatch of an event for a live connection re-registers the descriptor (ResetPollerEvent, the async read job, a custom OnRead, or close) before the next event is awaited", 1)

	core := c.Core()
	if core.Teardown == nil || len(core.ArmFns) == 0 || len(core.DisarmFns) == 0 {
		c.Unres("C04.O1", "core anchors", "teardown/arm/disarm functions not resolved")
		return
	}
	L := c.Locks()
	c.Rule("C04.O15", "E1", "the write queue and the write-interest flag are read and written only with Conn.mux held (a queue-emptiness test outside the mutex can miss the remainder a concurrent short write is about to queue, and skip the only flush an edge-triggered event will ever cause)", 20)
	{
		table := []eng.Guard{
			{Field: fConnWriteList, Lock: fConnMux, Reads: true, Writes: true},
			{Field: fConnIsWAdded, Lock: fConnMux, Reads: true, Writes: true},
		}
		exc := []eng.Exception{
			{Fn: "(*nbio.poller).addDialer", Field: fConnIsWAdded, Reason: "set before the descriptor's EPOLL_CTL_ADD (C04.O3 checks the order): no event and no other goroutine can reach the connection yet"},
		}
		if td := c.Core().Teardown; td != nil {
			exc = append(exc, eng.Exception{Fn: c.P.FuncName(td), Field: fConnWriteList, Reason: "teardown runs once, after closed was set under the mutex; every other accessor tests closed under the mutex first (C01.O1)"})
		}
		for _, s := range eng.CheckGuarded(L, c.nbioFuncs(), table, exc) {
			key := fmt.Sprintf("%s: %s %s", c.P.FuncName(s.Fn), rw(s.Access.Write), s.Access.Field)
			if !s.Held && s.Access.Addr != nil && c.freshUnpublished(s.Fn, s.Access.In, s.Access.Addr.X) {
				c.OK("C04.O15", key, c.Pos(s.Access.In), "initialisation of a connection allocated in this function and not yet registered with a poller")
				continue
			}
			if !s.Held && s.Reason != "" {
				c.OK("C04.O15", key, c.Pos(s.Access.In), "exception: "+s.Reason)
				continue
			}
			c.Cond(s.Held, "C04.O15", key, c.Pos(s.Access.In), "Conn.mux held", s.Access.Field+" accessed without Conn.mux at "+c.Pos(s.Access.In))
		}
	}
	_, enqueue := c.writeSinks()
	isArm := func(in ssa.Instruction) bool {
		for _, a := range core.ArmFns {
			if callsFn(in, a) {
				return true
			}
		}
		return false
	}
	var connArm, connDisarm *ssa.Function
	for _, a := range core.ArmFns {
		if c.P.FuncName(a) == "(*nbio.Conn).modWrite" {
			connArm = a
		}
	}
	for _, a := range core.DisarmFns {
		if c.P.FuncName(a) == "(*nbio.Conn).resetRead" {
			connDisarm = a
		}
	}
	if connArm == nil || connDisarm == nil {
		c.Unres("C04.O1", "Conn.modWrite / Conn.resetRead", "arm/disarm methods not found")
		return
	}

	// ------------------------------------------------------------------ O1
	for _, name := range []string{fnWriteAPI, fnWritevAPI, fnSendfile} {
		fn := c.Fn("C04.O1", name)
		if fn == nil {
			continue
		}
		fi := c.P.Info(fn)
		rel := map[ssa.Instruction]bool{}
		for _, r := range L.Releases(fn, fConnMux) {
			rel[r] = true
		}
		key := fnKey(c.P, fn, "arm after enqueue")
		bad := ""
		n := 0
		for _, cs := range c.P.Calls(fn, nil) {
			callee := ir.StaticCallee(cs.Common)
			if callee == nil || !enqueue[callee] || callee == core.Teardown {
				continue
			}
			n++
			// enqueue on the queue-non-empty edge: interest is already registered
			if fi.HasFact(cs.In, func(f ir.Fact) bool { e, ok := c.queueTest(f); return ok && !e }) {
				continue
			}
			skip := func(i *ssa.If, k int) bool {
				e, ok := c.queueTest(ir.Fact{Cond: stripNot(i.Cond), Truth: condTruth(i.Cond, k)})
				return ok && e
			}
			vis, _ := fi.ReachOpt([]ssa.Instruction{cs.In}, func(in ssa.Instruction) bool {
				return isArm(in) || callsFn(in, core.Teardown)
			}, skip)
			for in := range vis {
				// the fatal path releases the mutex before teardown (Write/Writev): a
				// release that is followed only by teardown is fine.
				if rel[in] {
					v2, _ := fi.Reach([]ssa.Instruction{in}, func(x ssa.Instruction) bool { return callsFn(x, core.Teardown) })
					leaks := false
					for x := range v2 {
						if ir.IsExit(x) {
							leaks = true
						}
					}
					if leaks {
						bad = "after the enqueue at " + c.Pos(cs.In) + " the mutex is released at " + c.Pos(in) + " without arming write interest: the backlog would never be flushed"
					}
				}
			}
		}
		if n == 0 {
			c.Unres("C04.O1", key, "no enqueue site found")
			continue
		}
		c.Cond(bad == "", "C04.O1", key, c.FnPos(fn), fmt.Sprintf("%d enqueue sites followed by arm / exempt", n), bad)
	}

	// ------------------------------------------------------------------ O2
	for _, f := range c.nbioFuncs() {
		fi := c.P.Info(f)
		n := 0
		for _, cs := range c.P.Calls(f, nil) {
			if !callsFn(cs.In, connDisarm) {
				continue
			}
			n++
			key := c.siteKey(f, "disarm", n)
			bad := ""
			if !L.HeldClass(cs.In, fConnMux) {
				bad = "write interest is disarmed without Conn.mux"
			}
			if !fi.HasFact(cs.In, func(ft ir.Fact) bool { e, ok := c.queueTest(ft); return ok && e }) {
				if bad != "" {
					bad += " and "
				}
				bad += "not on the queue-empty edge: a backlog written meanwhile (e.g. in the dial callback) would lose its EPOLLOUT registration"
			}
			if bad == "" {
				// the queue test is not stale: no release of Conn.mux between the load it is based on and the disarm
				for _, ft := range fi.Facts(cs.In) {
					if e, ok := c.queueTest(ft); !ok || !e {
						continue
					}
					for _, ld := range c.queueLoadsOf(ft.Cond) {
						if ld.Parent() != f {
							continue
						}
						if same, rel := L.SameRegion(fi, fConnMux, ld, cs.In); !same {
							bad = "the queue-empty test behind this disarm read the queue at " + c.Pos(ld) + ", and Conn.mux is released at " + c.Pos(rel) + " before the disarm: a backlog written in between (by the dial callback, by another goroutine) loses its write interest"
						}
					}
				}
			}
			c.Cond(bad == "", "C04.O2", key, c.Pos(cs.In), "under Conn.mux on the queue-empty edge, test and disarm in one critical section", bad)
		}
	}

	// ------------------------------------------------------------------ O3
	for _, f := range c.nbioFuncs() {
		fi := c.P.Info(f)
		n := 0
		for _, st := range c.P.StoresTo(f, fConnIsWAdded) {
			if _, fresh := ir.Root(st.Addr.(*ssa.FieldAddr).X).(*ssa.Alloc); fresh {
				continue
			}
			n++
			key := fmt.Sprintf("%s: isWAdded store#%d", c.P.FuncName(f), n)
			val, isConst := ir.ConstBool(st.Val)
			if !isConst {
				c.Bad("C04.O3", key, c.Pos(st), "isWAdded is set to a non-constant value")
				continue
			}
			want := []string{"(*nbio.poller).resetRead"}
			if val {
				want = []string{"(*nbio.poller).modWrite", "(*nbio.poller).addReadWrite"}
			}
			paired := false
			for _, in := range st.Block().Instrs {
				if c.isCallTo(in, want...) {
					paired = true
				}
			}
			bad := ""
			if !paired {
				bad = fmt.Sprintf("isWAdded = %v is not paired with %v in the same block", val, want)
			}
			if c.P.FuncName(f) == "(*nbio.poller).addDialer" {
				// frozen exception: the connection is not yet published to the poller
				c.Cond(bad == "", "C04.O3", key, c.Pos(st), "pre-publication arm paired with addReadWrite", bad)
				continue
			}
			if !c.underNotClosed(fi, st, fConnClosed) {
				bad = "the flag changes without the !closed test"
			}
			c.Cond(bad == "", "C04.O3", key, c.Pos(st), "flag and registration move together", bad)
		}
	}

	// ------------------------------------------------------------------ O16: the converse of O3
	for _, f := range c.nbioFuncs() {
		fi := c.P.Info(f)
		n := 0
		for _, cs := range c.P.CallsNamed(f, "(*nbio.poller).resetRead") {
			n++
			key := c.siteKey(f, "read-only registration", n)
			paired := false
			for _, in := range cs.In.Block().Instrs {
				if st, ok := in.(*ssa.Store); ok {
					if fa, ok := st.Addr.(*ssa.FieldAddr); ok && c.P.FieldKey(fa) == fConnIsWAdded {
						if v, isC := ir.ConstBool(st.Val); isC && !v {
							paired = true
						}
					}
				}
			}
			if paired {
				c.OK("C04.O16", key, c.Pos(cs.In), "paired with isWAdded = false in the same block")
				continue
			}
			byQueue := L.HeldClass(cs.In, fConnMux) && fi.HasFact(cs.In, func(ft ir.Fact) bool { e, ok := c.queueTest(ft); return ok && e })
			c.Cond(byQueue, "C04.O16", key, c.Pos(cs.In), "decided by the queue-empty edge under Conn.mux (one-shot re-arm)",
				"the registration is reduced to read-only at "+c.Pos(cs.In)+" while isWAdded keeps saying that write interest is registered (no isWAdded = false next to it, and not the queue-decided re-arm under Conn.mux): every later arm step is skipped as 'already armed' and a backlog is never flushed")
		}
	}

	// ------------------------------------------------------------------ O4
	c04Masks(c)

	// ------------------------------------------------------------------ O5
	if fl := c.Fn("C04.O5", fnFlush); fl != nil {
		bad := ""
		n := 0
		for _, f := range c.libFuncs() {
			fi := c.P.Info(f)
			for _, cs := range c.P.Calls(f, nil) {
				if ir.StaticCallee(cs.Common) != fl {
					continue
				}
				n++
				if c.P.FuncName(ir.Outermost(f)) != "(*nbio.poller).readWriteLoop" {
					bad = "flush is called from " + c.P.FuncName(f)
					continue
				}
				if !fi.HasFact(cs.In, func(ft ir.Fact) bool { return c.eventMaskTest(ft, c.epollConst("EPOLLOUT")) }) {
					bad = "flush is not on the EPOLLOUT edge of the event dispatch"
				}
			}
		}
		if n != 1 && bad == "" {
			bad = fmt.Sprintf("expected exactly one call of flush, found %d", n)
		}
		c.Cond(bad == "", "C04.O5", "callers of flush", "", "readWriteLoop on the write-event edge", bad)
	}

	// ------------------------------------------------------------------ O13
	if eb := c.Core().EnqueueBuf; eb != nil {
		bad := ""
		n := 0
		prm := paramOfType(eb, "[]byte")
		for _, g := range ir.WithClosures(eb) {
			gi := c.P.Info(g)
			for _, st := range c.P.StoresTo(g, fConnWriteList) {
				n++
				nonEmpty := func(fi *ir.FnInfo, at ssa.Instruction) bool {
					return fi.HasFact(at, func(ft ir.Fact) bool {
						e, zero, ok := ir.ZeroTest(ft.Cond, ft.Truth)
						if !ok || zero {
							return false
						}
						x, isLen := ir.IsLenOf(ir.Resolve(e))
						return isLen && prm != nil && ir.Resolve(x) == ssa.Value(prm)
					})
				}
				ok := nonEmpty(gi, st)
				if !ok && g != eb {
					// the append sits in a local closure: every call of the closure is behind the test
					ok = true
					ebi := c.P.Info(eb)
					nc := 0
					for _, b := range eb.Blocks {
						for _, in := range b.Instrs {
							if cs, isCall := ir.AsCall(in); isCall {
								if mc, isMC := ir.Resolve(cs.Common.Value).(*ssa.MakeClosure); isMC && mc.Fn == ssa.Value(g) {
									nc++
									if !nonEmpty(ebi, in) {
										ok = false
									}
								}
							}
						}
					}
					if nc == 0 {
						ok = false
					}
				}
				if !ok {
					bad = "an entry is appended to the write queue at " + c.Pos(st) + " without knowing that the buffer is non-empty: Writev with an empty slice behind a backlog queues an entry that flush's buffer writer never removes (it pops only after a positive count), so the poller spins on it holding the connection mutex"
				}
			}
		}
		if n == 0 {
			bad = "no append to the write queue found in the enqueue function"
		}
		c.Cond(bad == "", "C04.O13", fnKey(c.P, eb, "no empty entry queued"), c.FnPos(eb), fmt.Sprintf("%d append(s) behind len(buf) != 0", n), bad)
	}

	// ------------------------------------------------------------------ O14
	if fn := c.Fn("C04.O14", "(*nbio.Conn).flush"); fn != nil && connDisarm != nil {
		fi := c.P.Info(fn)
		bad := ""
		n := 0
		first := fn.Blocks[0].Instrs[0]
		vis, _ := fi.Reach([]ssa.Instruction{first}, func(in ssa.Instruction) bool { return callsFn(in, connDisarm) })
		for _, r := range fi.Returns() {
			if !ir.IsNilConst(ir.RetVals(r)[0]) {
				continue
			}
			if !fi.HasFact(r, func(ft ir.Fact) bool { e, ok := c.queueTest(ft); return ok && e }) {
				continue
			}
			n++
			if vis[r] {
				bad = "flush returns at " + c.Pos(r) + " with an empty queue without calling " + c.P.FuncName(connDisarm) + ": the isWAdded flag stays set (a dialer that connected at once is registered with it set), the one-shot re-arm then registers read-only, and the next backlog's modWrite is skipped"
			}
		}
		if n == 0 && bad == "" {
			bad = "no queue-empty success return found"
		}
		c.Cond(bad == "", "C04.O14", fnKey(c.P, fn, "queue-empty returns disarm"), c.FnPos(fn), fmt.Sprintf("%d queue-empty success return(s), all behind the disarm helper", n), bad)
	}

	// ------------------------------------------------------------------ O11
	if fn := c.Fn("C04.O11", "(*nbio.Conn).flush"); fn != nil {
		bad := ""
		n := 0
		for _, g := range ir.Closures(fn) {
			if len(g.Signature.Results().String()) == 0 || g.Signature.Results().Len() != 1 || g.Signature.Results().At(0).Type().String() != "error" {
				continue
			}
			gi := c.P.Info(g)
			isPop := func(in ssa.Instruction) bool {
				st, ok := in.(*ssa.Store)
				if !ok {
					return false
				}
				fa, ok := st.Addr.(*ssa.FieldAddr)
				if !ok || c.P.FieldKey(fa) != fConnWriteList {
					return false
				}
				sl, ok := ir.Resolve(st.Val).(*ssa.Slice)
				if !ok || sl.Low == nil {
					return false
				}
				k, isK := ir.ConstInt(sl.Low)
				return isK && k == 1
			}
			first := g.Blocks[0].Instrs[0]
			vis, _ := gi.Reach([]ssa.Instruction{first}, isPop)
			for _, r := range gi.Returns() {
				if !ir.IsNilConst(ir.RetVals(r)[0]) {
					continue
				}
				n++
				if vis[r] {
					bad = c.P.FuncName(g) + " can report success at " + c.Pos(r) + " without having removed the head of the queue (e.g. a queued file range with nothing left to send): flush's loop sees the same head again and spins forever holding the connection mutex"
				}
			}
		}
		if n == 0 && bad == "" {
			bad = "no explicit success return of a head-writer found"
		}
		c.Cond(bad == "", "C04.O11", fnKey(c.P, fn, "head-writers pop before reporting success"), c.FnPos(fn), fmt.Sprintf("%d explicit success return(s), all behind the pop", n), bad)
	}

	// ------------------------------------------------------------------ O10
	if connDisarm != nil {
		fi := c.P.Info(connDisarm)
		isClear := func(in ssa.Instruction) bool {
			st, ok := in.(*ssa.Store)
			if !ok {
				return false
			}
			fa, ok := st.Addr.(*ssa.FieldAddr)
			if !ok || c.P.FieldKey(fa) != fConnIsWAdded {
				return false
			}
			k, isK := ir.ConstBool(st.Val)
			return isK && !k
		}
		skip := func(i *ssa.If, k int) bool {
			f, set, ok := c.P.BoolFieldTest(i.Cond, k == 0)
			if !ok {
				return false
			}
			// exits that may keep the flag: connection closed, or flag already clear
			return (f == fConnClosed && set) || (f == fConnIsWAdded && !set)
		}
		first := connDisarm.Blocks[0].Instrs[0]
		vis, _ := fi.ReachOpt([]ssa.Instruction{first}, isClear, skip)
		bad := ""
		for _, r := range fi.Returns() {
			if vis[r] {
				bad = c.P.FuncName(connDisarm) + " can return at " + c.Pos(r) + " with the flag still set on an open connection: the registration is (or is about to be) read-only while the flag says armed, so the next backlog's modWrite is skipped and never flushed"
			}
		}
		c.Cond(bad == "", "C04.O10", fnKey(c.P, connDisarm, "flag cleared on every path"), c.FnPos(connDisarm), "only the closed / already-clear exits keep the flag", bad)
	}

	// ------------------------------------------------------------------ O9
	if fn := c.Fn("C04.O9", "(*nbio.Conn).flush"); fn != nil {
		fi := c.P.Info(fn)
		bad := ""
		n := 0
		for _, r := range fi.Returns() {
			if !ir.IsNilConst(ir.RetVals(r)[0]) {
				continue
			}
			n++
			ok := fi.HasFact(r, func(ft ir.Fact) bool {
				if e, isQ := c.queueTest(ft); isQ && e {
					return true
				}
				_, target, is, isE := c.P.ErrorsIsTest(ft.Cond, ft.Truth)
				return isE && is && target == "EAGAIN"
			})
			if !ok {
				bad = "flush returns at " + c.Pos(r) + " with bytes possibly still queued although the kernel did not refuse any: in edge-triggered mode no further writable event arrives and the backlog is never sent"
			}
		}
		if n < 2 && bad == "" {
			bad = fmt.Sprintf("expected the queue-empty and the EAGAIN return, found %d success return(s)", n)
		}
		c.Cond(bad == "", "C04.O9", fnKey(c.P, fn, "gives up only on EAGAIN"), c.FnPos(fn), fmt.Sprintf("%d success return(s): queue empty or EAGAIN", n), bad)
	}

	// ------------------------------------------------------------------ O8
	c04OneshotRearm(c)

	// ------------------------------------------------------------------ O6
	if fn := c.Fn("C04.O6", "(*nbio.Conn).ResetPollerEvent"); fn != nil {
		fi := c.P.Info(fn)
		bad := ""
		nMod, nReset := 0, 0
		for _, cs := range c.P.Calls(fn, nil) {
			switch c.P.CalleeName(cs.Common) {
			case "(*nbio.poller).modWrite", "(*nbio.Conn).modWrite":
				nMod++
				if callee := ir.StaticCallee(cs.Common); callee != nil && c.flagGuardedArm(callee) {
					bad = "the one-shot re-arm at " + c.Pos(cs.In) + " goes through " + c.P.FuncName(callee) + ", which registers only when the isWAdded flag is clear: the flag is already set whenever the queue is non-empty, while EPOLLONESHOT has disarmed the descriptor, so nothing is registered and no further event arrives"
				}
				if !fi.HasFact(cs.In, func(ft ir.Fact) bool { e, ok := c.queueTest(ft); return ok && !e }) {
					bad = "read+write is re-armed off the queue-non-empty edge"
				}
			case "(*nbio.poller).resetRead", "(*nbio.Conn).resetRead":
				nReset++
				if !fi.HasFact(cs.In, func(ft ir.Fact) bool { e, ok := c.queueTest(ft); return ok && e }) {
					bad = "read-only is re-armed off the queue-empty edge"
				}
			}
		}
		if nMod == 0 || nReset == 0 {
			bad = "re-arm does not choose between read and read+write"
		}
		for _, a := range c.P.FieldAccesses(fn, func(k string) bool { return k == fConnWriteList || k == fConnClosed }) {
			if !a.AddrTaken && !L.HeldClass(a.In, fConnMux) {
				bad = a.Field + " is read at " + c.Pos(a.In) + " without Conn.mux: a concurrent Write can arm EPOLLOUT and have it overwritten by the stale read-only re-arm"
			}
		}
		c.Cond(bad == "", "C04.O6", fnKey(c.P, fn, "one-shot re-arm"), c.FnPos(fn), "chooses by queue state under the mutex", bad)
	}

	// ------------------------------------------------------------------ O7
	if fn := c.Fn("C04.O7", "(*nbio.poller).addConn"); fn != nil {
		fi := c.P.Info(fn)
		key := fnKey(c.P, fn, "registration reconciles the open callback")
		var add *ssa.Call
		for _, cs := range c.P.CallsNamed(fn, "(*nbio.poller).addRead") {
			add, _ = cs.In.(*ssa.Call)
		}
		var open ssa.Instruction
		for _, cs := range c.P.Calls(fn, func(name string, _ ir.CallSite) bool { return name == "dyn:"+fEngOnOpen }) {
			open = cs.In
		}
		switch {
		case add == nil || open == nil:
			c.Unres("C04.O7", key, "open notification / EPOLL_CTL_ADD not found")
		case !fi.CanReach(open, add):
			c.OK("C04.O7", key, c.Pos(add), "registration precedes the callback: nothing to reconcile")
		default:
			bad := "no arm step after the successful ADD: a backlog written in the open callback is never flushed in LT/ONESHOT mode"
			// success edge of the ADD's error test
			for _, i := range fi.Ifs() {
				for k := 0; k < 2; k++ {
					x, isNil, ok := ir.NilTest(i.Cond, k == 0)
					if !ok || !isNil || ir.Resolve(x) != ssa.Value(add) {
						continue
					}
					vis, _ := fi.ReachFromEdge(i, k, nil)
					for in := range vis {
						isArmCall := c.isCallTo(in, "(*nbio.poller).modWrite") || callsFn(in, connArm)
						if !isArmCall {
							continue
						}
						if !L.HeldClass(in, fConnMux) {
							bad = "the arm step at " + c.Pos(in) + " does not hold Conn.mux"
							continue
						}
						if callsFn(in, connArm) && c.flagGuardedArm(connArm) {
							bad = "the arm step at " + c.Pos(in) + " goes through " + c.P.FuncName(connArm) + ", which registers only when the isWAdded flag is clear: a Write in the open callback has already set the flag (its EPOLL_CTL_MOD failed, the descriptor was not registered yet), so nothing is armed"
							continue
						}
						if !fi.HasFact(in, func(ft ir.Fact) bool { e, ok := c.queueTest(ft); return ok && !e }) {
							bad = "the arm step at " + c.Pos(in) + " is not on the queue-non-empty edge"
							continue
						}
						bad = ""
					}
				}
			}
			c.Cond(bad == "", "C04.O7", key, c.Pos(add), "success edge arms write interest when the queue is non-empty", bad)
		}
	}
}

// c04OneshotRearm: O8.  EPOLLONESHOT disables the descriptor when it reports
// an event; a dispatch path that does not register it again leaves the
// connection without events (a backlog behind a full socket is never flushed).
func c04OneshotRearm(c *Ctx) {
	fn := c.Fn("C04.O8", "(*nbio.poller).readWriteLoop")
	if fn == nil {
		return
	}
	fi := c.P.Info(fn)
	key := fnKey(c.P, fn, "one-shot re-arm on every dispatch")
	// the connection lookup
	var look *ssa.Call
	for _, cs := range c.P.CallsNamed(fn, "(*nbio.poller).getConn") {
		look, _ = cs.In.(*ssa.Call)
	}
	if look == nil {
		c.Unres("C04.O8", key, "connection lookup not found")
		return
	}
	// start: the non-nil edge of the lookup
	var start *ssa.If
	startK := -1
	for _, i := range fi.Ifs() {
		for k := 0; k < 2; k++ {
			x, isNil, ok := ir.NilTest(i.Cond, k == 0)
			if ok && !isNil && ir.Resolve(x) == ssa.Value(look) {
				start, startK = i, k
			}
		}
	}
	if start == nil {
		c.Unres("C04.O8", key, "nil test of the looked-up connection not found")
		return
	}
	isOneshotVal := func(v ssa.Value) bool {
		v = ir.Resolve(v)
		return c.P.LoadedField(v) == "nbio.Engine.isOneshot"
	}
	rearm := func(in ssa.Instruction) bool {
		if c.isCallTo(in, "(*nbio.Conn).ResetPollerEvent", "(*nbio.Conn).AsyncRead", "(*nbio.Conn).closeWithError", "dyn:nbio.Engine.onRead") {
			return true
		}
		return false
	}
	// not-one-shot edges are exempt
	skip := func(i *ssa.If, k int) bool {
		cnd, truth := ir.StripNot(i.Cond, k == 0)
		return isOneshotVal(cnd) && !truth
	}
	// end of the dispatch: the next lookup / the next wait
	end := func(in ssa.Instruction) bool {
		return in == ssa.Instruction(look) || c.isCallTo(in, "syscall.EpollWait") || ir.IsExit(in)
	}
	vis, stopped := fi.ReachOpt(nil, nil, nil)
	_ = vis
	_ = stopped
	seen := map[ssa.Instruction]bool{}
	bad := ""
	var work []ssa.Instruction
	s := start.Block().Succs[startK]
	if len(s.Instrs) > 0 {
		work = append(work, s.Instrs[0])
	}
	for len(work) > 0 {
		in := work[len(work)-1]
		work = work[:len(work)-1]
		if seen[in] {
			continue
		}
		seen[in] = true
		if rearm(in) {
			continue
		}
		if end(in) {
			bad = "a dispatch path reaches " + c.Pos(in) + " without re-registering the descriptor in one-shot mode (e.g. a write-only event whose flush ends in EAGAIN): the connection gets no further events"
			continue
		}
		if i, ok := in.(*ssa.If); ok {
			for k, sb := range i.Block().Succs {
				if skip(i, k) || len(sb.Instrs) == 0 {
					continue
				}
				work = append(work, sb.Instrs[0])
			}
			continue
		}
		work = append(work, ir.Succ(in)...)
	}
	c.Cond(bad == "", "C04.O8", key, c.Pos(look), "every one-shot dispatch path re-arms", bad)
}

// eventMaskTest recognises the fact "(events & mask) != 0" where mask contains bit.
func (c *Ctx) eventMaskTest(ft ir.Fact, bit int64) bool {
	cmp, ok := ir.DecodeIntCmp(ft.Cond)
	if !ok {
		return false
	}
	b, ok := ir.Resolve(cmp.Expr).(*ssa.BinOp)
	if !ok || b.Op != token.AND {
		return false
	}
	mask, isK := ir.ConstInt(b.Y)
	if !isK {
		mask, isK = ir.ConstInt(b.X)
	}
	if !isK || mask&bit == 0 {
		return false
	}
	nonZeroOnEdge := cmp.Holds(0) != ft.Truth && cmp.Holds(mask) == ft.Truth
	return nonZeroOnEdge
}

// constMask ORs the constant leaves of an OR-tree.
func constMask(v ssa.Value) int64 {
	v = ir.Resolve(v)
	if k, ok := ir.ConstInt(v); ok {
		return k
	}
	if b, ok := v.(*ssa.BinOp); ok && b.Op == token.OR {
		return constMask(b.X) | constMask(b.Y)
	}
	return 0
}

// c04Masks: O4.
func c04Masks(c *Ctx) {
	in_ := c.epollConst("EPOLLIN")
	out := c.epollConst("EPOLLOUT")
	errs := c.epollConst("EPOLLERR") | c.epollConst("EPOLLHUP") | c.epollConst("EPOLLRDHUP")
	var et int64 = 0x80000000
	if in_ == 0 || out == 0 || errs == 0 {
		c.Unres("C04.O4", "EPOLL constants", "not found in package syscall")
		return
	}
	for _, name := range []string{"(*nbio.poller).setRead", "(*nbio.poller).setReadWrite"} {
		fn := c.Fn("C04.O4", name)
		if fn == nil {
			continue
		}
		fi := c.P.Info(fn)
		n := 0
		for _, cs := range c.P.CallsNamed(fn, "syscall.EpollCtl") {
			n++
			key := c.siteKey(fn, "EpollCtl", n)
			// the Events field of the event literal
			var mask int64 = -1
			if a, ok := ir.Root(cs.Common.Args[3]).(*ssa.Alloc); ok {
				if refs := a.Referrers(); refs != nil {
					for _, r := range *refs {
						if fa, ok := r.(*ssa.FieldAddr); ok && c.P.FieldKey(fa) == "syscall.EpollEvent.Events" {
							if frefs := fa.Referrers(); frefs != nil {
								for _, s := range *frefs {
									if st, ok := s.(*ssa.Store); ok && st.Addr == ssa.Value(fa) {
										mask = constMask(st.Val)
									}
								}
							}
						}
					}
				}
			}
			if mask < 0 {
				c.Unres("C04.O4", key, "Events of the epoll event literal not found")
				continue
			}
			// branch context
			etBranch := fi.HasFact(cs.In, func(ft ir.Fact) bool {
				cmp, ok := ir.DecodeIntCmp(ft.Cond)
				return ok && c.P.LoadedField(cmp.Expr) == "nbio.Config.EpollMod" && cmp.Holds(et) == ft.Truth && cmp.Holds(0) != ft.Truth
			})
			notOneshot := fi.HasFact(cs.In, func(ft ir.Fact) bool {
				cmp, ok := ir.DecodeIntCmp(ft.Cond)
				one := c.epollConst("EPOLLONESHOT")
				return ok && c.P.LoadedField(cmp.Expr) == "nbio.Config.EPOLLONESHOT" && cmp.Holds(one) != ft.Truth && cmp.Holds(0) == ft.Truth
			})
			isAdd := fi.HasFact(cs.In, func(ft ir.Fact) bool {
				cmp, ok := ir.DecodeIntCmp(ft.Cond)
				if !ok {
					return false
				}
				p, isP := ir.Resolve(cmp.Expr).(*ssa.Parameter)
				return isP && p == fn.Params[1] && cmp.Holds(c.sysNo("EPOLL_CTL_ADD")) == ft.Truth && cmp.Holds(c.sysNo("EPOLL_CTL_MOD")) != ft.Truth
			})
			bad := ""
			need := in_ | errs
			if name == "(*nbio.poller).setReadWrite" {
				need |= out
			}
			if etBranch {
				need |= et
			}
			if mask&need != need {
				bad = fmt.Sprintf("mask %#x lacks required bits %#x", mask, need&^mask)
			}
			if name == "(*nbio.poller).setRead" {
				wantOut := etBranch && notOneshot && isAdd
				if (mask&out != 0) != wantOut {
					bad = fmt.Sprintf("EPOLLOUT registered=%v but expected=%v (ET=%v !ONESHOT=%v ADD=%v)", mask&out != 0, wantOut, etBranch, notOneshot, isAdd)
				}
			}
			if !etBranch && mask&et != 0 {
				bad = "EPOLLET registered outside the ET branch"
			}
			c.Cond(bad == "", "C04.O4", key, c.Pos(cs.In), fmt.Sprintf("mask %#x", mask), bad)
		}
		// the ET-without-ONESHOT MOD is a no-op: only sound because ADD registered EPOLLOUT (checked above)
	}
}

// flagGuardedArm: every kernel registration (*poller).modWrite in f is behind a
// test of the isWAdded flag, i.e. f trusts the flag to mirror the registration.
func (c *Ctx) flagGuardedArm(f *ssa.Function) bool {
	fi := c.P.Info(f)
	sites := c.P.CallsNamed(f, "(*nbio.poller).modWrite")
	if len(sites) == 0 {
		return false
	}
	for _, cs := range sites {
		if !fi.HasFact(cs.In, func(ft ir.Fact) bool {
			k, _, ok := c.P.BoolFieldTest(ft.Cond, ft.Truth)
			return ok && k == fConnIsWAdded
		}) {
			return false
		}
	}
	return true
}

// queueLoadsOf lists the loads of Conn.writeList that a condition is computed from.
func (c *Ctx) queueLoadsOf(cond ssa.Value) []ssa.Instruction {
	var out []ssa.Instruction
	seen := map[ssa.Value]bool{}
	var walk func(v ssa.Value, d int)
	walk = func(v ssa.Value, d int) {
		if v == nil || seen[v] || d > 8 {
			return
		}
		seen[v] = true
		if u, ok := v.(*ssa.UnOp); ok && u.Op == token.MUL && c.P.LoadedField(u) == fConnWriteList {
			out = append(out, u)
			return
		}
		if in, ok := v.(ssa.Instruction); ok {
			for _, op := range in.Operands(nil) {
				if *op != nil {
					walk(*op, d+1)
				}
			}
		}
	}
	walk(cond, 0)
	return out
}
