package props

import (
	"fmt"
	"strings"

	"golang.org/x/tools/go/ssa"

	"verif/internal/eng"
	"verif/internal/ir"
)

func init() {
	register(&Property{
		ID:          "C05",
		Engines:     []string{"cfg", "lockset"},
		Explanation: "Per-connection job serialisation, structural part: jobList is only touched under Conn.mux (O1); Execute tests closed and appends in one critical section and its closed edge returns false without appending or starting a drainer (O2); a drainer is started only by the submitter that found the list empty, decided in the critical section of the append (O3); the drainer decides exhaustion, resets the list and fetches the next job in one critical section, runs the job with the mutex released and advances its index by one (O4); jobs run inside a recover frame (O5); MustExecute has no closed test, the nbhttp close hook does all its work inside a MustExecute job, and parsers / WebSocket connections on the poller paths use the bound Execute of the registered connection (O6). A job handed to Execute is never also called directly by the submitter (O7). Executors stored in Engine.Execute use the job they are given (O8).",
		NotCovered:  "the hand-over under all interleavings (a model-checking statement; O3+O4 are its necessary shape); behaviour of user-supplied executors",
		Run:         runC05,
	})
}

func runC05(c *Ctx) {
	c.Rule("C05.O1", "E1", "Conn.jobList is read and written only with Conn.mux held", 10)
	c.Rule("C05.O2", "E4,E1", "Execute: closed test and append in one critical section; closed edge returns false, no append, no drainer", 1)
	c.Rule("C05.O3", "E4", "Execute/MustExecute start the drainer only on 'list was empty', decided in the critical section of the tail append", 2)
	c.Rule("C05.O4", "E1-atomic", "drainer: exhaustion test, list reset and next-job fetch in one critical section; job runs with the mutex released; index advances by one", 1)
	c.Rule("C05.O5", "E4", "the job, the default Engine.Execute and SyncExecutor run the function inside a frame that defers recover()", 3)
	c.Rule("C05.O7", "E4", "a job handed to a connection's Execute is never also called directly by the submitter: a refused job (closed connection) is dropped, not run inline next to the jobs still queued or running", 4)
	c05NoInlineRun(c)
	c.Rule("C05.O8", "E5", "every function literal stored in Engine.Execute uses the job it is given (calls it, starts it, passes it on): an executor that drops its argument makes MustExecute queue a job that never runs", 2)
	c05ExecutorsRunWhatTheyGet(c)
	c.Rule("C05.O6", "E5", "MustExecute has no closed test; the nbhttp close hook works only inside a MustExecute job; poller-path parsers and WebSocket conns use the bound Execute of the registered connection", 14)

	L := c.Locks()

	// ------------------------------------------------------------------ O1
	{
		table := []eng.Guard{{Field: fConnJobList, Lock: fConnMux, Reads: true, Writes: true}}
		for _, s := range eng.CheckGuarded(L, c.libFuncs(), table, nil) {
			key := fmt.Sprintf("%s: %s %s", c.P.FuncName(s.Fn), rw(s.Access.Write), s.Access.Field)
			c.Cond(s.Held, "C05.O1", key, c.Pos(s.Access.In), "Conn.mux held", "jobList accessed without Conn.mux (held="+L.Held(s.Access.In).String()+")")
		}
	}

	execFn := c.Fn("C05.O2", "(*nbio.Conn).Execute")
	must := c.Fn("C05.O3", "(*nbio.Conn).MustExecute")
	drain := c.Fn("C05.O4", "(*nbio.Conn).execute")
	isStart := func(in ssa.Instruction) bool { return callsFn(in, drain) }

	// ------------------------------------------------------------------ O2
	if execFn != nil && drain != nil {
		fi := c.P.Info(execFn)
		key := fnKey(c.P, execFn, "closed test + append atomic")
		bad := ""
		apps := c.appendStores(execFn, fConnJobList)
		var closedLoad ssa.Instruction
		for _, a := range c.P.FieldAccesses(execFn, func(k string) bool { return k == fConnClosed }) {
			if !a.Write {
				closedLoad = a.In
			}
		}
		switch {
		case len(apps) != 1:
			bad = "no single tail append"
		case closedLoad == nil:
			bad = "Execute does not test the closed flag"
		default:
			if same, r := L.SameRegion(fi, fConnMux, closedLoad, apps[0]); !same || !fi.Dominates(closedLoad, apps[0]) {
				bad = "the mutex is released at " + c.Pos(r) + " between the closed test and the append: a job can be queued on a closed connection and never run"
			}
			// the job appended is the parameter
			call := ir.Resolve(apps[0].Val).(*ssa.Call)
			if len(call.Call.Args) != 2 {
				bad = "append shape"
			}
		}
		c.Cond(bad == "", "C05.O2", key, c.FnPos(execFn), "closed test and append share one critical section (closed edge checked in C03.O4 and below)", bad)
		// closed edge starts no drainer
		for _, i := range fi.Ifs() {
			for k := 0; k < 2; k++ {
				cl, ok := c.closedTest(ir.Fact{Cond: stripNot(i.Cond), Truth: condTruth(i.Cond, k)}, fConnClosed)
				if !ok || !cl {
					continue
				}
				vis, _ := fi.ReachFromEdge(i, k, nil)
				for in := range vis {
					if isStart(in) {
						c.Bad("C05.O2", key+" (closed edge)", c.Pos(in), "the closed edge starts a drainer")
					}
				}
			}
		}
	}

	// ------------------------------------------------------------------ O3
	for _, fn := range []*ssa.Function{execFn, must} {
		if fn == nil || drain == nil {
			continue
		}
		bad, n := c.checkHeadStarts(fn, fConnJobList, fConnMux, isStart)
		c.Cond(bad == "", "C05.O3", fnKey(c.P, fn, "head starts drainer"), c.FnPos(fn), fmt.Sprintf("%d start site(s) decided by emptiness inside the append's critical section", n), bad)
	}

	// ------------------------------------------------------------------ O4 / O5
	if drain != nil {
		var loop, runner *ssa.Function
		for _, g := range ir.Closures(drain) {
			if len(c.P.FieldAccesses(g, func(k string) bool { return k == fConnJobList })) > 0 {
				loop = g
			}
		}
		isJobCall := func(in ssa.Instruction) bool {
			return dynCallThrough(in, func(v ssa.Value) bool {
				// the job cell: a func() value loaded from the captured `job` variable
				return v.Type().String() == "func()" && !strings.Contains(c.P.Desc(v), "Engine.")
			})
		}
		if loop == nil {
			c.Unres("C05.O4", fnKey(c.P, drain, "drainer loop"), "closure touching jobList not found")
		} else {
			for _, g := range ir.WithClosures(loop) {
				for _, in := range instrsOf(g, isJobCall) {
					_ = in
					runner = g
				}
			}
			isRun := func(in ssa.Instruction) bool {
				if runner != nil && runner != loop {
					return callsFn(in, runner)
				}
				return isJobCall(in)
			}
			bad := c.checkDrainer(drainSpec{fn: loop, list: fConnJobList, lock: fConnMux, isRun: isRun})
			c.Cond(bad == "", "C05.O4", fnKey(c.P, drain, "drainer critical section"), c.FnPos(loop), "exhaustion test, reset and fetch atomic; job runs unlocked; index +1", bad)
			// the drainer closure is handed to the engine's executor
			handed := false
			for _, cs := range c.P.Calls(drain, func(name string, _ ir.CallSite) bool { return name == "dyn:nbio.Engine.Execute" }) {
				for _, a := range cs.Common.Args {
					if mc, ok := a.(*ssa.MakeClosure); ok && mc.Fn == ssa.Value(loop) {
						handed = true
					}
				}
			}
			c.Cond(handed, "C05.O4", fnKey(c.P, drain, "drainer runs on Engine.Execute"), c.FnPos(drain), "handed to the configured executor", "the drainer is not handed to Engine.Execute")
			// O5: recover frame around the job
			if runner == nil {
				c.Bad("C05.O5", fnKey(c.P, drain, "job recover frame"), c.FnPos(loop), "no invocation of the job found")
			} else {
				ok, _ := c.hasRecoverDefer(runner)
				c.Cond(ok && runner != loop, "C05.O5", fnKey(c.P, drain, "job recover frame"), c.FnPos(runner), "job invoked in its own frame that defers recover()",
					"a panicking job is not contained in a per-job recover frame: it would end the drainer and strand the jobs queued behind it")
			}
		}
	}
	// default Engine.Execute and SyncExecutor
	if ih := c.Fn("C05.O5", "(*nbio.Engine).initHandlers"); ih != nil {
		found := false
		for _, g := range ir.Closures(ih) {
			if len(g.Params) == 1 && g.Params[0].Type().String() == "func()" && g.Signature.Results().Len() == 0 {
				// stored into Engine.Execute?
				if c.closureStoredTo(g, "nbio.Engine.Execute") {
					found = true
					ok, _ := c.hasRecoverDefer(g)
					c.Cond(ok, "C05.O5", "default Engine.Execute", c.FnPos(g), "defers recover()", "the default executor does not contain panics")
				}
			}
		}
		if !found {
			c.Unres("C05.O5", "default Engine.Execute", "closure stored to Engine.Execute not found")
		}
	}
	if se := c.Fn("C05.O5", "nbhttp.SyncExecutor"); se != nil {
		ok, _ := c.hasRecoverDefer(se)
		c.Cond(ok, "C05.O5", "nbhttp.SyncExecutor", c.FnPos(se), "defers recover()", "SyncExecutor does not contain panics")
	}

	// ------------------------------------------------------------------ O6
	if must != nil {
		n := 0
		for _, a := range c.P.FieldAccesses(must, func(k string) bool { return k == fConnClosed }) {
			_ = a
			n++
		}
		c.Cond(n == 0, "C05.O6", fnKey(c.P, must, "no closed test"), c.FnPos(must), "always appends", "MustExecute looks at the closed flag: close handling queued on a closed connection could be dropped")
	}
	if ne := c.Fn("C05.O6", "nbhttp.NewEngine"); ne != nil {
		// the closure handed to (*nbio.Engine).OnClose
		var hook *ssa.Function
		for _, cs := range c.P.CallsNamed(ne, "(*nbio.Engine).OnClose") {
			if mc, ok := cs.Common.Args[len(cs.Common.Args)-1].(*ssa.MakeClosure); ok {
				hook = mc.Fn.(*ssa.Function)
			}
		}
		key := "nbhttp close hook routed through MustExecute"
		if hook == nil {
			c.Unres("C05.O6", key, "closure passed to OnClose not found")
		} else {
			bad := ""
			nMust := 0
			for _, cs := range c.P.Calls(hook, nil) {
				name := c.P.CalleeName(cs.Common)
				if name == "(*nbio.Conn).MustExecute" {
					nMust++
					continue
				}
				bad = "the close hook calls " + name + " outside the MustExecute job at " + c.Pos(cs.In)
			}
			if nMust != 1 && bad == "" {
				bad = fmt.Sprintf("expected exactly one MustExecute in the close hook, found %d", nMust)
			}
			// the inner job does the work
			work := 0
			for _, g := range ir.Closures(hook) {
				for _, cs := range c.P.Calls(g, nil) {
					n := c.P.CalleeName(cs.Common)
					if strings.HasSuffix(n, ".CloseAndClean") || n == "dyn:nbhttp.Engine._onClose" {
						work++
					}
				}
			}
			if work < 2 && bad == "" {
				bad = "CloseAndClean / the user close handler are not inside the MustExecute job"
			}
			c.Cond(bad == "", "C05.O6", key, c.FnPos(hook), "hook body = MustExecute(job); job does CloseAndClean + user handler", bad)
		}
	}
	// NewParser executor arguments on the poller paths
	for _, name := range []string{"(*nbhttp.Engine).AddConnNonTLSNonBlocking", "(*nbhttp.Engine).AddConnTLSNonBlocking", "(*nbhttp.ClientConn).Do"} {
		fn := c.Fn("C05.O6", name)
		if fn == nil {
			continue
		}
		n := 0
		for _, g := range ir.WithClosures(fn) {
			for _, cs := range c.P.CallsNamed(g, "nbhttp.NewParser") {
				n++
				key := c.siteKey(fn, "NewParser executor", n)
				ex := cs.Common.Args[len(cs.Common.Args)-1]
				bound, recv := boundMethod(ex)
				bad := ""
				if bound == nil || c.P.FuncName(bound) != "(*nbio.Conn).Execute" {
					bad = "the parser's executor is " + c.P.Desc(ex) + ", not the connection's own Execute: handlers of one connection could overlap"
				} else {
					// the same connection is registered with AddConn in this function
					reg := false
					for _, ac := range c.P.Calls(g, nil) {
						nm := c.P.CalleeName(ac.Common)
						if nm == "(*nbio.Engine).AddConn" {
							if ir.Resolve(ac.Common.Args[len(ac.Common.Args)-1]) == ir.Resolve(recv) {
								reg = true
							}
						}
					}
					if !reg {
						bad = "the executor belongs to a connection other than the one registered with the engine"
					}
				}
				c.Cond(bad == "", "C05.O6", key, c.Pos(cs.In), "bound Execute of the registered connection", bad)
			}
		}
	}
	wsExecutorStores(c, "C05.O6")
	wsSyncCallScope(c, "C05.O6")
}

func rw(w bool) string {
	if w {
		return "write"
	}
	return "read"
}

// boundMethod recognises a method value x.M (a closure over the synthetic
// bound wrapper) and returns the method and the bound receiver.
func boundMethod(v ssa.Value) (*ssa.Function, ssa.Value) {
	mc, ok := ir.Resolve(v).(*ssa.MakeClosure)
	if !ok {
		return nil, nil
	}
	fn := mc.Fn.(*ssa.Function)
	if !strings.HasSuffix(fn.Name(), "$bound") || len(mc.Bindings) != 1 {
		return nil, nil
	}
	// the wrapper calls the real method
	for _, b := range fn.Blocks {
		for _, in := range b.Instrs {
			if cs, ok := ir.AsCall(in); ok {
				if callee := ir.StaticCallee(cs.Common); callee != nil {
					return callee, mc.Bindings[0]
				}
			}
		}
	}
	return nil, nil
}

// closureStoredTo reports that closure g is stored into the named field.
func (c *Ctx) closureStoredTo(g *ssa.Function, field string) bool {
	par := g.Parent()
	if par == nil {
		return false
	}
	for _, b := range par.Blocks {
		for _, in := range b.Instrs {
			st, ok := in.(*ssa.Store)
			if !ok {
				continue
			}
			switch v := st.Val.(type) {
			case *ssa.MakeClosure:
				if v.Fn != ssa.Value(g) {
					continue
				}
			case *ssa.Function:
				if v != g {
					continue
				}
			default:
				continue
			}
			if fa, ok := st.Addr.(*ssa.FieldAddr); ok && c.P.FieldKey(fa) == field {
				return true
			}
		}
	}
	return false
}

// wsExecutorStores: every store to websocket.Conn.Execute is parser.Execute or the bound
// Execute of an nbio.Conn; the inline executor is not assigned to poller-served connections.
func wsExecutorStores(c *Ctx, ob string) {

	n := 0
	for _, f := range c.pkgFuncs("websocket") {
		for _, st := range c.P.StoresTo(f, "websocket.Conn.Execute") {
			n++
			key := fmt.Sprintf("%s: websocket Execute#%d", c.P.FuncName(ir.Outermost(f)), n)
			v := ir.Resolve(st.Val)
			ok := false
			if c.P.LoadedField(v) == "nbhttp.Parser.Execute" {
				ok = true
			}
			if b, _ := boundMethod(v); b != nil && c.P.FuncName(b) == "(*nbio.Conn).Execute" {
				ok = true
			}
			why := "the WebSocket connection's executor is " + c.P.Desc(v) + ": message callbacks would not be serialised with the connection's jobs"
			if fn, isFn := v.(*ssa.Function); isFn && c.P.FuncName(fn) == "nbhttp.SyncExecutor" {
				// the inline executor bypasses the connection's job list: the close job that the
				// engine queues with MustExecute then runs at once, next to a running message
				// callback.  A connection read by its own goroutine inherits it through its parser.
				why = "the WebSocket connection is given the inline executor at " + c.Pos(st) + " although it is served by the poller: its callbacks bypass the connection's job list, so the close job queued with MustExecute overlaps a running message callback"
			}
			c.Cond(ok, ob, key, c.Pos(st), "inherits a serialising executor", why)
		}
	}
}

// c05NoInlineRun: O7.  Execute returning false means the job was not taken and
// must not run: the connection is closed, but jobs queued before may still be
// running or waiting.  A submitter that calls the refused job itself runs it
// on its own goroutine, overlapping or overtaking them.
func c05NoInlineRun(c *Ctx) {
	isExec := func(name string) bool {
		return name == "(*nbio.Conn).Execute" || name == "dyn:websocket.Conn.Execute" || name == "dyn:nbhttp.Parser.Execute"
	}
	n := 0
	for _, f := range c.libFuncs() {
		fi := c.P.Info(f)
		k := 0
		for _, cs := range c.P.Calls(f, func(name string, _ ir.CallSite) bool { return isExec(name) }) {
			if cs.In.Parent() != f {
				continue
			}
			args := cs.Common.Args
			if len(args) == 0 {
				continue
			}
			job := ir.Resolve(args[len(args)-1])
			n++
			k++
			key := c.siteKey(f, "Execute", k)
			bad := ""
			vis, _ := fi.Reach([]ssa.Instruction{cs.In}, nil)
			for in := range vis {
				oc, ok := ir.AsCall(in)
				if !ok || oc.Common.IsInvoke() {
					continue
				}
				if ir.Resolve(oc.Common.Value) == job {
					bad = "the job handed to Execute at " + c.Pos(cs.In) + " is also called directly at " + c.Pos(in) + ": when Execute refuses it (closed connection) it runs on the submitter's goroutine, next to the jobs of this connection that are still queued or running"
				}
			}
			c.Cond(bad == "", "C05.O7", key, c.Pos(cs.In), "the job value has no direct call after the submission", bad)
		}
	}
}
