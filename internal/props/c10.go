package props

import (
	"fmt"
	"go/types"
	"strings"

	"golang.org/x/tools/go/ssa"

	"verif/internal/eng"
	"verif/internal/ir"
)

func init() {
	register(&Property{
		ID:          "C10",
		Engines:     []string{"cfg", "lockset"},
		Explanation: "HTTP exchanges end to end: ordering, exactly-once and isolation over histories are not statically decidable and rest on C05 (serialisation), C09 (framing) and C11 (buffer ownership). Decided here is the glue specific to C10: the job handed to the connection's executor for each request is handler-then-flush and nothing else, and on the !ok edge the request is released and no handler runs (O1); flushResponse closes on the Close edge only after the flush, immediately on a flush error, renews the keep-alive deadline otherwise, and releases request and response exactly once on every path (O2); the client appends its handler under the mutex before the request is written, pops index 0 under the mutex, and on close invokes every pending handler and clears the list in the same critical section (O3); the TLS and non-TLS listener dispatch have the same IOMod case set and hand each listener to the add-function of the matching kind (O4). The TLS drain loops stop only on a zero count (O6). The answered handler is popped before anything that fails the rest (O8); whole-object reset before Put (O9); RetainHTTPBody travels with every release (O10); the close after a Connection: close response must drain (O7, open finding). Interim 1xx responses are neither delivered nor consume a per-request record (O11).",
		NotCovered:  "everything quantified over histories / concurrency; net/http interoperability",
		Run:         runC10,
	})
}

func runC10(c *Ctx) {
	c.Rule("C10.O1", "E4", "OnComplete: the executor job is ServeHTTP followed by flushResponse and nothing else; !ok edge releases the request and runs no handler", 1)
	c.Rule("C10.O2", "E4,E2", "flushResponse: Close only after flush (or at once on flush error), keep-alive renewal on the other edge, releaseRequest and releaseResponse exactly once on every path with a connection", 2)
	c.Rule("C10.O3", "E1,E4", "ClientConn: handlers/closed/conn guarded by its mutex; Do appends before writing the request; onResponse invokes and pops index 0; close invokes all pending handlers and clears the list", 14)
	c.Rule("C10.O4", "E7d", "startListeners: TLS and non-TLS switches over IOMod have cases {0,1,2}; blocking <-> AddConn*Blocking, non-blocking <-> AddConn*NonBlocking, mixed <-> A blocking with Decrease + B non-blocking; TLS loop uses the TLS variants", 8)
	c.Rule("C10.O8", "E4", "ClientConn.onResponse removes the answered handler from the pending list before anything that can fail the remaining ones (the timeout close runs every pending handler): no teardown call is reachable without passing the pop", 1)
	c.Rule("C10.O9", "E4", "a pooled nbhttp object goes back to its pool only after a whole-object reset (*x = <empty value>): a field-by-field reset that forgets one field (hijacked) poisons a later, unrelated exchange", 3)
	c.Rule("C10.O10", "E5", "every release of a request passes the engine's RetainHTTPBody setting: the body of a retained request is never released by the library, whatever happened to the response", 3)
	c10ClientAndPools(c)
	c.Rule("C10.O7", "E4,E5", "the close the library issues itself after a complete 'Connection: close' response does not cut the response off: the Close it calls drains (reaches flush, or tears down only on the queue-empty edge) instead of releasing the write queue unsent", 1)
	c.Rule("C10.O6", "E4,E6", "the TLS drain loops read the decrypted stream to exhaustion: an edge of a test on AppendAndRead's count that does not come back to AppendAndRead (without a new socket read) is taken only for a count of zero; one socket read can carry several TLS records, each returned by its own AppendAndRead", 2)
	c10TLSDrain(c, "C10.O6", "nbhttp")

	// ------------------------------------------------------------------ O1
	if oc := c.Fn("C10.O1", "(*nbhttp.ServerProcessor).OnComplete"); oc != nil {
		fi := c.P.Info(oc)
		key := fnKey(c.P, oc, "one job per request")
		bad := "the request is not handed to the parser's executor"
		for _, cs := range c.P.Calls(oc, func(n string, _ ir.CallSite) bool { return n == "dyn:nbhttp.Parser.Execute" }) {
			mc, ok := cs.Common.Args[0].(*ssa.MakeClosure)
			if !ok {
				bad = "the job is not a local closure"
				continue
			}
			bad = ""
			job := mc.Fn.(*ssa.Function)
			ji := c.P.Info(job)
			var serve, flush ssa.Instruction
			n := 0
			for _, x := range c.P.Calls(job, nil) {
				n++
				name := c.P.CalleeName(x.Common)
				switch {
				case x.Common.IsInvoke() && x.Common.Method.Name() == "ServeHTTP":
					serve = x.In
				case name == "(*nbhttp.ServerProcessor).flushResponse":
					flush = x.In
				default:
					bad = "the request job also calls " + name
				}
			}
			if serve == nil || flush == nil {
				bad = "the request job does not consist of the handler call and the response flush"
			} else if !ji.Dominates(serve, flush) {
				bad = "the response can be flushed before the handler ran"
			}
			// !ok edge
			ifs := usedAsCond(cs.Value())
			if len(ifs) != 1 {
				bad = "the executor's result is not tested: a request on a closed connection would leak"
			} else {
				vis, _ := fi.ReachFromEdge(ifs[0], edgeOf(ifs[0], cs.Value(), false), nil)
				rel := false
				for in := range vis {
					if c.isCallTo(in, "nbhttp.releaseRequest") {
						rel = true
					}
					if x, ok := ir.AsCall(in); ok && x.Common.IsInvoke() && x.Common.Method.Name() == "ServeHTTP" {
						bad = "the handler runs although the executor refused the job"
					}
				}
				if !rel {
					bad = "the refused request is not released"
				}
			}
		}
		c.Cond(bad == "", "C10.O1", key, c.FnPos(oc), "job = ServeHTTP; flushResponse — !ok releases the request", bad)
	}

	// ------------------------------------------------------------------ O2
	if fr := c.Fn("C10.O2", "(*nbhttp.ServerProcessor).flushResponse"); fr != nil {
		fi := c.P.Info(fr)
		var flush *ssa.Call
		for _, cs := range c.P.CallsNamed(fr, "(*nbhttp.Response).flush") {
			flush, _ = cs.In.(*ssa.Call)
		}
		key := fnKey(c.P, fr, "close decision")
		bad := ""
		if flush == nil {
			bad = "the response is not flushed"
		} else {
			isClose := func(in ssa.Instruction) bool {
				x, ok := ir.AsCall(in)
				return ok && x.Common.IsInvoke() && x.Common.Method.Name() == "Close"
			}
			for _, in := range instrsOf(fr, isClose) {
				if !fi.Dominates(flush, in) {
					bad = "the connection can be closed at " + c.Pos(in) + " before the response was flushed"
				}
				onErr := fi.HasFact(in, func(ft ir.Fact) bool {
					x, isNil, ok := ir.NilTest(ft.Cond, ft.Truth)
					return ok && !isNil && ir.SameValue(x, flush)
				})
				onClose := fi.HasFact(in, func(ft ir.Fact) bool {
					k, set, ok := c.P.BoolFieldTest(ft.Cond, ft.Truth)
					return ok && k == "net/http.Request.Close" && set
				})
				if !onErr && !onClose {
					bad = "the connection is closed at " + c.Pos(in) + " although the request asked for keep-alive and the flush succeeded"
				}
			}
			// flush error closes
			for _, i := range fi.Ifs() {
				for k := 0; k < 2; k++ {
					x, isNil, ok := ir.NilTest(i.Cond, k == 0)
					if !ok || isNil || !ir.SameValue(x, flush) {
						continue
					}
					vis, _ := fi.ReachFromEdge(i, k, isClose)
					for in := range vis {
						if ir.IsExit(in) {
							bad = "a failed flush does not close the connection: the peer would wait for the rest of the response"
						}
					}
				}
			}
		}
		c.Cond(bad == "", "C10.O2", key, c.FnPos(fr), "Close only after flush, on the Close edge or on flush error", bad)

		// O7: the library's own close after a complete response must not cut the response off
		if flush != nil {
			isCloseCall := func(in ssa.Instruction) bool {
				x, ok := ir.AsCall(in)
				return ok && x.Common.IsInvoke() && x.Common.Method.Name() == "Close"
			}
			n := 0
			for _, in := range instrsOf(fr, isCloseCall) {
				onClose := fi.HasFact(in, func(ft ir.Fact) bool {
					k, set, ok := c.P.BoolFieldTest(ft.Cond, ft.Truth)
					return ok && k == "net/http.Request.Close" && set
				})
				if !onClose {
					continue
				}
				n++
				key := c.siteKey(fr, "close after a Connection: close response", n)
				drains, why := c.closeDrains()
				c.Cond(drains, "C10.O7", key, c.Pos(in), why,
					"after a successful flush the connection is closed at "+c.Pos(in)+" with the connection's plain Close, and "+why+": whatever part of the response the socket has not taken yet is dropped with the write queue, so a 'Connection: close' (or HTTP/1.0) client receives a truncated response")
			}
			if n == 0 {
				c.OK("C10.O7", fnKey(c.P, fr, "close after a Connection: close response"), c.FnPos(fr), "no close on the request-asked-for-close edge")
			}
		}

		// release exactly once per path
		key = fnKey(c.P, fr, "request and response released once")
		bad = ""
		paths := 0
		var walk func(b *ssa.BasicBlock, req, res int, haveConn bool, seen map[*ssa.BasicBlock]bool)
		walk = func(b *ssa.BasicBlock, req, res int, haveConn bool, seen map[*ssa.BasicBlock]bool) {
			if seen[b] || bad != "" {
				return
			}
			seen[b] = true
			defer delete(seen, b)
			for _, in := range b.Instrs {
				if c.isCallTo(in, "nbhttp.releaseRequest") {
					req++
				}
				if c.isCallTo(in, "nbhttp.releaseResponse") {
					res++
				}
				if r, ok := in.(*ssa.Return); ok {
					paths++
					if haveConn && (req != 1 || res != 1) {
						bad = fmt.Sprintf("on a path ending at %s the request is released %d time(s) and the response %d time(s)", c.Pos(r), req, res)
					}
					return
				}
			}
			if i, ok := b.Instrs[len(b.Instrs)-1].(*ssa.If); ok {
				for k, s := range b.Succs {
					hc := haveConn
					if x, isNil, ok := ir.NilTest(i.Cond, k == 0); ok && c.P.LoadedField(x) == "nbhttp.Parser.Conn" {
						hc = !isNil
					}
					walk(s, req, res, hc, seen)
				}
				return
			}
			for _, s := range b.Succs {
				walk(s, req, res, haveConn, seen)
			}
		}
		walk(fr.Blocks[0], 0, 0, false, map[*ssa.BasicBlock]bool{})
		if paths == 0 {
			bad = "no path"
		}
		c.Cond(bad == "", "C10.O2", key, c.FnPos(fr), fmt.Sprintf("%d paths, one releaseRequest and one releaseResponse each", paths), bad)
	}

	// ------------------------------------------------------------------ O3
	{
		L := c.Locks()
		const mux = "nbhttp.ClientConn.mux"
		table := []eng.Guard{
			{Field: "nbhttp.ClientConn.handlers", Lock: mux, Reads: true, Writes: true},
			{Field: "nbhttp.ClientConn.closed", Lock: mux, Reads: true, Writes: true},
			{Field: "nbhttp.ClientConn.conn", Lock: mux, Reads: true, Writes: true},
			{Field: "nbhttp.ClientConn.heads", Lock: mux, Reads: true, Writes: true},
		}
		agg := map[string][2]int{}
		for _, s := range eng.CheckGuarded(L, c.pkgFuncs("nbhttp"), table, nil) {
			k := c.P.FuncName(ir.Outermost(s.Fn)) + ": " + s.Access.Field
			v := agg[k]
			if s.Held {
				v[0]++
			} else {
				v[1]++
				c.Bad("C10.O3", fmt.Sprintf("%s: %s %s", c.P.FuncName(s.Fn), rw(s.Access.Write), s.Access.Field), c.Pos(s.Access.In), s.Access.Field+" accessed without ClientConn.mux (held="+L.Held(s.Access.In).String()+")")
			}
			agg[k] = v
		}
		for k, v := range agg {
			if v[1] == 0 {
				c.OK("C10.O3", k+" under the mutex", "", fmt.Sprintf("%d accesses", v[0]))
			}
		}
	}
	if do := c.Fn("C10.O3", "(*nbhttp.ClientConn).Do"); do != nil {
		fi := c.P.Info(do)
		apps := c.appendStores(do, "nbhttp.ClientConn.handlers")
		bad := ""
		if len(apps) != 1 {
			bad = "no single tail append of the response handler"
		} else {
			// every request write (inside the local send closure) happens after the append
			for _, g := range ir.Closures(do) {
				writes := c.P.Calls(g, func(n string, _ ir.CallSite) bool { return n == "(*net/http.Request).Write" })
				if len(writes) == 0 {
					continue
				}
				for _, cs := range c.P.Calls(do, nil) {
					if ir.StaticCallee(cs.Common) == g && !fi.Dominates(apps[0], cs.In) {
						bad = "the request can be written at " + c.Pos(cs.In) + " before its handler is queued: a fast response would be matched to the wrong handler"
					}
				}
			}
		}
		c.Cond(bad == "", "C10.O3", fnKey(c.P, do, "handler queued before the request is written"), c.FnPos(do), "append dominates every send", bad)
	}
	if or := c.Fn("C10.O3", "(*nbhttp.ClientConn).onResponse"); or != nil {
		fi := c.P.Info(or)
		bad := ""
		// the handler invoked is handlers[0]
		inv := 0
		var call ssa.Instruction
		for _, b := range or.Blocks {
			for _, in := range b.Instrs {
				if dynCallThrough(in, func(v ssa.Value) bool { return strings.Contains(c.P.Desc(v), "resHandler.h") }) {
					inv++
					call = in
					cs, _ := ir.AsCall(in)
					// value derives from element 0 of handlers
					ok := false
					if ld, isLoad := ir.IsLoad(ir.Resolve(cs.Common.Value)); isLoad {
						if fa, isFA := ld.(*ssa.FieldAddr); isFA {
							if a, ok2 := ir.Root(fa.X).(*ssa.Alloc); ok2 {
								if s := singleStoreVal(a); s != nil {
									if l2, isL := ir.IsLoad(s); isL {
										if ia, isIA := l2.(*ssa.IndexAddr); isIA && c.P.LoadedField(ia.X) == "nbhttp.ClientConn.handlers" {
											if k, isK := ir.ConstInt(ia.Index); isK && k == 0 {
												ok = true
											}
										}
									}
								}
							}
						}
					}
					if f, isF := ir.Resolve(cs.Common.Value).(*ssa.Field); isF {
						if l2, isL := ir.IsLoad(ir.Resolve(f.X)); isL {
							if ia, isIA := l2.(*ssa.IndexAddr); isIA && c.P.LoadedField(ia.X) == "nbhttp.ClientConn.handlers" {
								if k, isK := ir.ConstInt(ia.Index); isK && k == 0 {
									ok = true
								}
							}
						}
					}
					if !ok {
						bad = "the response is not handed to the oldest pending handler (handlers[0])"
					}
				}
			}
		}
		pop := false
		for _, st := range c.P.StoresTo(or, "nbhttp.ClientConn.handlers") {
			if sl, ok := ir.Resolve(st.Val).(*ssa.Slice); ok && c.P.LoadedField(sl.X) == "nbhttp.ClientConn.handlers" && sl.Low != nil && sl.High == nil {
				if k, isK := ir.ConstInt(sl.Low); isK && k == 1 && call != nil && fi.Dominates(call, st) {
					pop = true
				}
			}
		}
		if inv != 1 {
			bad = fmt.Sprintf("expected one handler invocation per response, found %d", inv)
		} else if !pop {
			bad = "the answered handler is not removed from the head of the list: the next response would go to it again"
		}
		c.Cond(bad == "", "C10.O3", fnKey(c.P, or, "FIFO match"), c.FnPos(or), "invoke handlers[0], then handlers = handlers[1:]", bad)
	}
	if cw := c.Fn("C10.O3", "(*nbhttp.ClientConn).closeWithErrorWithoutLock"); cw != nil {
		fi := c.P.Info(cw)
		bad := ""
		var loopCall, clear ssa.Instruction
		for _, b := range cw.Blocks {
			for _, in := range b.Instrs {
				if dynCallThrough(in, func(v ssa.Value) bool { return strings.Contains(c.P.Desc(v), "resHandler.h") }) && fi.InLoop(in) {
					loopCall = in
				}
			}
		}
		for _, st := range c.P.StoresTo(cw, "nbhttp.ClientConn.handlers") {
			if ir.IsNilConst(st.Val) {
				clear = st
			}
		}
		switch {
		case loopCall == nil:
			bad = "pending handlers are not notified on close"
		case clear == nil:
			bad = "the pending list is not cleared on close: handlers would be invoked again"
		case (!fi.CanReach(loopCall, clear) || fi.CanReach(clear, loopCall)) && c10Snapshot(c, fi, cw, clear):
			// the loop runs over a snapshot of the list taken before the clear: same
			// handlers, each once, cleared unconditionally before the first callback
			if ok, r := c.Locks().SameRegion(fi, "nbhttp.ClientConn.mux", clear, loopCall); !ok {
				bad = "the mutex is released at " + c.Pos(r) + " between clearing and notifying"
			}
			if first := cw.Blocks[0].Instrs[0]; bad == "" {
				if esc := fi.EscapesWithout([]ssa.Instruction{first}, func(in ssa.Instruction) bool { return in == clear }); len(esc) > 0 {
					bad = "a path reaches the return at " + c.Pos(esc[0]) + " without clearing the pending list"
				}
			}
		case !fi.CanReach(loopCall, clear) || fi.CanReach(clear, loopCall):
			bad = "the list is cleared before the pending handlers are notified"
		default:
			if ok, r := c.Locks().SameRegion(fi, "nbhttp.ClientConn.mux", loopCall, clear); !ok {
				bad = "the mutex is released at " + c.Pos(r) + " between notifying and clearing"
			}
			// every path from the notification to the function's exit clears the list
			if esc := fi.EscapesWithout([]ssa.Instruction{loopCall}, func(in ssa.Instruction) bool { return in == clear }); len(esc) > 0 && bad == "" {
				bad = "a path from the notification loop reaches the return at " + c.Pos(esc[0]) + " without clearing the pending list (the clear at " + c.Pos(clear) + " is conditional): a notified handler stays queued and is invoked again with the next response"
			}
			// the error passed is non-nil by construction (io.EOF default)
		}
		c.Cond(bad == "", "C10.O3", fnKey(c.P, cw, "every pending handler once"), c.FnPos(cw), "notify loop then handlers = nil in one critical section", bad)
		// entry lockset: always called with the mutex held
		L := c.Locks()
		c.Cond(L.Entry[cw]["nbhttp.ClientConn.mux"], "C10.O3", fnKey(c.P, cw, "requires the mutex"), c.FnPos(cw), "every call site holds ClientConn.mux", "closeWithErrorWithoutLock is reachable without ClientConn.mux ("+L.EntryWhy[cw]+")")
	}

	// ------------------------------------------------------------------ O4
	if sl := c.Fn("C10.O4", "(*nbhttp.Engine).startListeners"); sl != nil {
		fi := c.P.Info(sl)
		type disp struct {
			tls bool
			mod int64
			add string
			dec string
		}
		var got []disp
		for _, cs := range c.P.CallsNamed(sl, "(*nbhttp.Engine).listen") {
			a := cs.Common.Args
			d := disp{tls: !ir.IsNilConst(a[2]), mod: -1}
			if m, _ := boundMethod(a[3]); m != nil {
				d.add = m.Name()
			}
			if m, _ := boundMethod(a[4]); m != nil {
				d.dec = m.Name()
			}
			var iomod ssa.Value
			for _, ft := range fi.Facts(cs.In) {
				if cmp, ok := ir.DecodeIntCmp(ft.Cond); ok && c.P.LoadedField(cmp.Expr) == "nbhttp.Config.IOMod" {
					iomod = cmp.Expr
				}
			}
			if iomod != nil {
				// each switch reloads the field: collect facts over all loads
				lo, hi := int64(ir.NegInf), int64(ir.PosInf)
				for _, ft := range fi.Facts(cs.In) {
					cmp, ok := ir.DecodeIntCmp(ft.Cond)
					if !ok || c.P.LoadedField(cmp.Expr) != "nbhttp.Config.IOMod" || cmp.NotEq {
						continue
					}
					if ft.Truth {
						lo, hi = cmp.TrueSet.Lo, cmp.TrueSet.Hi
					}
				}
				if lo == hi {
					d.mod = lo
				}
			}
			got = append(got, d)
			key := c.siteKey(sl, "listen", len(got))
			kind := "NonTLS"
			if d.tls {
				kind = "TLS"
			}
			bad := ""
			switch d.mod {
			case 0:
				if d.add != "AddConn"+kind+"NonBlocking" {
					bad = "IOModNonBlocking hands the listener to " + d.add
				}
			case 1:
				if d.add != "AddConn"+kind+"Blocking" {
					bad = "IOModBlocking hands the listener to " + d.add
				}
			case 2:
				switch d.add {
				case "AddConn" + kind + "Blocking":
					if d.dec != "Decrease" {
						bad = "the blocking half of the mixed mode does not release its slot (Decrease) when a connection ends: after MaxBlockingOnline connections everything would go to the poller half"
					}
				case "AddConn" + kind + "NonBlocking":
					if d.dec == "Decrease" {
						bad = "the non-blocking half of the mixed mode decreases the blocking counter"
					}
				default:
					bad = "IOModMixed hands a listener to " + d.add
				}
			default:
				bad = "the dispatch is not under a case of the IOMod switch"
			}
			c.Cond(bad == "", "C10.O4", key, c.Pos(cs.In), fmt.Sprintf("IOMod %d %s -> %s", d.mod, kind, d.add), bad)
		}
		// case sets per family
		for _, tls := range []bool{true, false} {
			mods := map[int64]int{}
			for _, d := range got {
				if d.tls == tls {
					mods[d.mod]++
				}
			}
			kind := "non-TLS"
			if tls {
				kind = "TLS"
			}
			ok := mods[0] == 1 && mods[1] == 1 && mods[2] == 2 && len(mods) == 3
			c.Cond(ok, "C10.O4", "(*nbhttp.Engine).startListeners: "+kind+" case set", c.FnPos(sl), "cases {0,1,2} with 1,1,2 dispatches", fmt.Sprintf("the %s switch dispatches %v (IOMod -> number of listen calls); expected 0:1 1:1 2:2", kind, mods))
		}
	}
}

// singleStoreVal returns the only value stored to a local cell.
func singleStoreVal(a *ssa.Alloc) ssa.Value {
	var v ssa.Value
	n := 0
	if refs := a.Referrers(); refs != nil {
		for _, r := range *refs {
			if st, ok := r.(*ssa.Store); ok && st.Addr == ssa.Value(a) {
				v = st.Val
				n++
			}
		}
	}
	if n == 1 {
		return v
	}
	return nil
}

// c10Snapshot: every indexing of a handler list inside a loop of fn uses a value
// of ClientConn.handlers that was loaded before the clear.
func c10Snapshot(c *Ctx, fi *ir.FnInfo, fn *ssa.Function, clear ssa.Instruction) bool {
	n := 0
	for _, b := range fn.Blocks {
		for _, in := range b.Instrs {
			ia, ok := in.(*ssa.IndexAddr)
			if !ok || !fi.InLoop(in) {
				continue
			}
			ld, ok := ir.Resolve(ia.X).(*ssa.UnOp)
			if !ok || c.P.LoadedField(ld) != "nbhttp.ClientConn.handlers" {
				continue
			}
			n++
			if !fi.Dominates(ld, clear) || fi.CanReach(clear, ld) {
				return false
			}
		}
	}
	return n > 0
}

// c10TLSDrain: O6.  AppendAndRead returns the plaintext of one TLS record per
// call.  A drain loop that stops on a short count leaves the records behind it
// in the TLS layer until the peer sends again: pipelined requests wait, the
// last one forever.
func c10TLSDrain(c *Ctx, ob string, pkg string) {
	for _, f := range c.pkgFuncs(pkg) {
		fi := c.P.Info(f)
		k := 0
		for _, cs := range c.P.Calls(f, func(name string, _ ir.CallSite) bool { return strings.HasSuffix(name, ".AppendAndRead") }) {
			call, ok := cs.In.(*ssa.Call)
			if !ok || !fi.InLoop(call) {
				continue
			}
			k++
			key := c.siteKey(f, "TLS drain loop", k)
			var nread ssa.Value
			for _, r := range *call.Referrers() {
				if e, ok := r.(*ssa.Extract); ok && e.Index == 1 {
					nread = e
				}
			}
			if nread == nil {
				c.Bad(ob, key, c.Pos(call), "the count of AppendAndRead is discarded")
				continue
			}
			refill := func(in ssa.Instruction) bool {
				oc, ok := ir.AsCall(in)
				return ok && strings.HasSuffix(c.P.CalleeName(oc.Common), ".Read")
			}
			bad := ""
			nTests := 0
			for _, i := range fi.Ifs() {
				b, ok := i.Cond.(*ssa.BinOp)
				if !ok {
					continue
				}
				dep := func(v ssa.Value) bool {
					v = ir.Resolve(ir.Unconv(v))
					return v == nread
				}
				if !dep(b.X) && !dep(b.Y) {
					continue
				}
				if !fi.Dominates(call, i) {
					continue
				}
				nTests++
				for e := 0; e < 2; e++ {
					vis, _ := fi.ReachFromEdge(i, e, refill)
					if vis[call] {
						continue
					}
					cnd, t := ir.StripNot(i.Cond, e == 0)
					facts := append(fi.Facts(i), ir.Fact{If: i, Cond: cnd, Truth: t})
					if _, hi := ir.IntervalOf(facts, nread); hi > 0 {
						bad = "the edge of the count test at " + c.Pos(i) + " that stops draining is taken for a positive count: a socket read that carried several TLS records delivers only the first, the rest stays in the TLS layer until more bytes arrive"
					}
				}
			}
			if nTests == 0 && bad == "" {
				bad = "no test of AppendAndRead's count decides when the drain loop stops"
			}
			c.Cond(bad == "", ob, key, c.Pos(call), fmt.Sprintf("%d count test(s); draining stops only on zero", nTests), bad)
		}
	}
}

// closeDrains reports whether the poller connection's Close lets a queued
// backlog go out before the teardown: some function on the static path from
// (*nbio.Conn).Close to the teardown calls flush, or the teardown call sits on
// the queue-empty edge.
func (c *Ctx) closeDrains() (bool, string) {
	cl := c.P.Func("(*nbio.Conn).Close")
	core := c.Core()
	if cl == nil || core.Teardown == nil {
		return false, "the connection's Close / teardown were not resolved"
	}
	seen := map[*ssa.Function]bool{}
	work := []*ssa.Function{cl}
	for len(work) > 0 {
		f := work[len(work)-1]
		work = work[:len(work)-1]
		if seen[f] || len(seen) > 64 {
			continue
		}
		seen[f] = true
		fi := c.P.Info(f)
		for _, cs := range c.P.Calls(f, nil) {
			callee := ir.StaticCallee(cs.Common)
			if callee == nil || !c.P.InModule(callee) {
				continue
			}
			if c.P.FuncName(callee) == fnFlush {
				return true, c.P.FuncName(f) + " flushes before the teardown"
			}
			if callee == core.Teardown {
				if fi.HasFact(cs.In, func(ft ir.Fact) bool { e, ok := c.queueTest(ft); return ok && e }) {
					continue
				}
				return false, c.P.FuncName(f) + " reaches the teardown (" + c.Pos(cs.In) + ") whatever is queued, and the teardown releases the queue entries unsent"
			}
			work = append(work, callee)
		}
	}
	return true, "every teardown call on the way sits on the queue-empty edge"
}

// c10ClientAndPools: O8, O9, O10.
func c10ClientAndPools(c *Ctx) {
	if fn := c.Fn("C10.O8", "(*nbhttp.ClientConn).onResponse"); fn != nil {
		fi := c.P.Info(fn)
		key := fnKey(c.P, fn, "pop before anything that fails the pending handlers")
		isPop := func(in ssa.Instruction) bool {
			st, ok := in.(*ssa.Store)
			if !ok {
				return false
			}
			fa, ok := st.Addr.(*ssa.FieldAddr)
			if !ok || c.P.FieldKey(fa) != "nbhttp.ClientConn.handlers" {
				return false
			}
			_, isSlice := ir.Resolve(st.Val).(*ssa.Slice)
			return isSlice || ir.IsNilConst(st.Val)
		}
		var entry ssa.Instruction
		if len(fn.Blocks) > 0 && len(fn.Blocks[0].Instrs) > 0 {
			entry = fn.Blocks[0].Instrs[0]
		}
		bad := ""
		if entry != nil {
			vis, _ := fi.Reach([]ssa.Instruction{entry}, isPop)
			for in := range vis {
				if cs, ok := ir.AsCall(in); ok {
					n := c.P.CalleeName(cs.Common)
					if strings.HasSuffix(n, ").closeWithErrorWithoutLock") || strings.HasSuffix(n, ").CloseWithError") {
						bad = "the close at " + c.Pos(in) + " can run while the handler that was just answered is still in the pending list: the timeout close invokes every pending handler, so that request's callback runs a second time, with the timeout error"
					}
				}
			}
		}
		c.Cond(bad == "", "C10.O8", key, c.FnPos(fn), "no teardown reachable before the pop", bad)
	}
	// O9
	for _, f := range c.pkgFuncs("nbhttp") {
		fi := c.P.Info(f)
		for _, cs := range c.P.CallsNamed(f, "(*sync.Pool).Put") {
			if len(cs.Common.Args) < 2 {
				continue
			}
			mi, ok := cs.Common.Args[1].(*ssa.MakeInterface)
			if !ok {
				continue
			}
			ptr := ir.Resolve(mi.X)
			pt, isPtr := ptr.Type().Underlying().(*types.Pointer)
			if !isPtr {
				continue
			}
			if _, isStruct := pt.Elem().Underlying().(*types.Struct); !isStruct {
				continue
			}
			key := fmt.Sprintf("%s: Put(%s) after a whole reset", c.P.FuncName(ir.Outermost(f)), types.TypeString(ptr.Type(), func(p *types.Package) string { return p.Name() }))
			reset := false
			for _, b := range f.Blocks {
				for _, in := range b.Instrs {
					st, ok := in.(*ssa.Store)
					if !ok || ir.Resolve(st.Addr) != ptr {
						continue
					}
					if fi.Dominates(st, cs.In) {
						reset = true
					}
				}
			}
			c.Cond(reset, "C10.O9", key, c.Pos(cs.In), "*x = <empty value> dominates the Put",
				"the object is put back at "+c.Pos(cs.In)+" without a whole-object reset (*x = empty): whatever field the reset does not mention (hijacked, chunked, ...) is inherited by the next exchange that draws the object")
		}
	}
	c10RetainSetting(c, "C10.O10")
	c.Rule("C10.O11", "E9", "an interim response (1xx other than 101) is not the pending request's response: ClientProcessor.OnComplete's delivery sites, evaluated on a grid of status codes, are unreachable for 100/102/103/199 and reachable for final codes; OnStatus consumes no per-request record for them", 2)
	c10InterimResponses(c)
}

// c10RetainSetting: every release of a request passes Engine.RetainHTTPBody.
func c10RetainSetting(c *Ctx, ob string) {
	n := 0
	for _, f := range c.pkgFuncs("nbhttp") {
		for _, cs := range c.P.CallsNamed(f, "nbhttp.releaseRequest") {
			n++
			key := fmt.Sprintf("%s: releaseRequest#%d", c.P.FuncName(ir.Outermost(f)), n)
			ok := len(cs.Common.Args) == 2 && strings.HasSuffix(c.P.LoadedField(ir.Resolve(cs.Common.Args[1])), ".RetainHTTPBody")
			c.Cond(ok, ob, key, c.Pos(cs.In), "second argument is Engine.RetainHTTPBody",
				"releaseRequest is called at "+c.Pos(cs.In)+" with "+c.P.Desc(ir.Resolve(cs.Common.Args[len(cs.Common.Args)-1]))+" instead of the engine's RetainHTTPBody: with the setting on, the application owns the body buffers and the library frees and recycles them under it")
		}
	}
}
