package props

import (
	"fmt"
	"go/token"
	"go/types"
	"sort"
	"strings"

	"golang.org/x/tools/go/ssa"

	"verif/internal/eng"
	"verif/internal/ir"
)

func init() {
	register(&Property{
		ID:          "C13",
		Engines:     []string{"cfg", "decide"},
		Explanation: "WebSocket frame validation, structural part: the per-frame decision of validFrame composed with Parse's opcode switch, read off the branch conditions and compared with RFC 6455 §5.2/5.4/5.5 over all 1024 header combinations x compression setting (O1); the control-payload>125 and negative-64-bit-length rejections dominate frame acceptance (O2); a frame whose nextFrame failed reaches the error return before anything is copied (O3); UTF-8 / close-code / close-reason checks dominate the text and close handlers, each failing edge writes a 1002 close and closes, a message of type 0 is closed and never delivered (O4); validCloseCode's partition of all 65 536 codes (O5); every WebSocket read path tests Parse's error and fails the connection (O6); the default ping handler pongs its argument and the default close handler echoes the code (O7). CheckUtf8 is applied only to whole messages in the message handler (O8); validFrame's expecting-continuation input is the connection's own flag, which follows FIN (O9). Per-frame payload variables are assigned again on every way round the loop (O10). The state is kept whichever handlers are installed (O9). Control frames are not counted against the message under assembly (O11); an empty compressed message does not dereference a nil buffer (O12); RSV1 only when negotiated and on the first frame of a data message (O1).",
		NotCovered:  "'accepts everything valid' beyond the frame table; UTF-8 across fragment boundaries as values; segmentation",
		Run:         runC13,
	})
}

func runC13(c *Ctx) {
	c.Rule("C13.O1", "E8", "validFrame ∘ opcode switch rejects every combination RFC 6455 forbids (RSV2/3, RSV1 without compression, opcodes 3-7 and 11-15, fragmented control frames, new data frame while a continuation is expected) and accepts all others with RSV1=0", 1)
	c.Rule("C13.O2", "E4", "in nextFrame the control-payload>125 and 64-bit-length<0 rejections dominate the acceptance point", 2)
	c.Rule("C13.O3", "E4", "Parse: a failed nextFrame reaches the error return before any Malloc/Append/copy", 1)
	c.Rule("C13.O4", "E4", "text handler behind CheckUtf8; close handler behind validCloseCode and CheckUtf8 on the >=2-byte edge; failing edges write a 1002 close and close; opcode 0 closes without delivery", 4)
	c.Rule("C13.O5", "E8", "validCloseCode accepts {1000-1003,1007-1011,3000-4999}, rejects {0-999,1004-1006,1015,1016-2999,>=5000} (1012-1014 unconstrained; 1015, like 1005 and 1006, must not appear in a Close frame)", 1)
	c.Rule("C13.O6", "E3,E7e", "every WebSocket read path tests the error of Parse and fails the connection", 3)
	c.Rule("C13.O8", "E5", "UTF-8 validity is decided on whole messages: the stateless CheckUtf8 is applied only in the message handler (text message, close reason), never to a single frame's payload (a fragment boundary may fall inside a code point)", 1)
	c.Rule("C13.O10", "E4", "what Parse hands to the message, frame and control handlers belongs to the frame just parsed: every variable passed to handleMessage / handleDataFrame / handleProtocolMessage is assigned again (reset) on every way round the frame loop before it is passed again; a payload left over from the previous control frame is never answered twice", 3)
	c.Rule("C13.O11", "E9", "a control frame between fragments is not part of the message: the size pre-check adds the buffered message length only for data opcodes (formula of the addition evaluated on opcodes 0,1,2,8,9,10)", 1)
	c13ControlNotCounted(c)
	c.Rule("C13.O12", "E4", "a compressed message without payload bytes is legal: the inflate step dereferences the message buffer only behind a nil test whose nil edge allocates", 2)
	c13EmptyCompressedMessage(c)
	c13PerFrameOutputs(c)
	c.Rule("C13.O9", "E4", "the expecting-continuation input of validFrame is the connection's own flag, set on the non-FIN data-frame edge and cleared on the FIN edge (a proxy such as 'a partial message is buffered' is false for an empty first fragment); the flag and the per-message type are kept whichever handlers are installed (their stores are not conditional on messageHandler / dataFrameHandler)", 3)
	c.Rule("C13.O7", "E4", "default ping handler: WriteMessage(Pong, []byte(arg)); default close handler: close frame with the received code, empty for 1005", 2)
	c13ExpectFlag(c)
	c13Utf8Scope(c)

	// ------------------------------------------------------------------ O1
	if vf := c.Fn("C13.O1", "(*websocket.Conn).validFrame"); vf != nil {
		key := fnKey(c.P, vf, "frame table")
		accepted, swErr := c.parseOpcodeSwitch()
		d, err := eng.Decide(c.P, vf)
		switch {
		case err != nil:
			c.Unres("C13.O1", key, err.Error())
		case swErr != "":
			c.Bad("C13.O1", fnKey(c.P, vf, "opcode switch of Parse"), "", swErr)
		default:
			rets := d.Returns()
			bad := ""
			cells := 0
			for comp := int64(0); comp < 4 && bad == ""; comp++ {
				for op := int64(0); op < 16 && bad == ""; op++ {
					for bits := int64(0); bits < 32; bits++ {
						fin, r1, r2, r3, exp := bits&1, bits>>1&1, bits>>2&1, bits>>3&1, bits>>4&1
						env := eng.Env{"param#1": op, "param#2": fin, "param#3": r1, "param#4": r2, "param#5": r3, "param#6": exp,
							"websocket.Conn.enableCompression": comp & 1, "websocket.Conn.remoteCompressionEnabled": comp >> 1 & 1}
						// permessage-deflate is in force when the option is on and the peer agreed to it
						deflate := comp == 3
						cells++
						var verdict *bool
						for _, rc := range rets {
							holds, e := d.Eval(rc.Cond, env)
							if e != nil {
								bad = "undecided: " + e.Error()
								break
							}
							if !holds {
								continue
							}
							acc := ir.IsNilConst(ir.RetVals(rc.Ret)[0])
							if verdict != nil && *verdict != acc {
								bad = "two returns apply to the same input"
							}
							verdict = &acc
						}
						if bad != "" {
							break
						}
						if verdict == nil {
							bad = "no return applies"
							break
						}
						got := *verdict && accepted[op]
						// oracle
						control := op >= 8
						forbidden := r2 == 1 || r3 == 1 || (r1 == 1 && (!deflate || (op != 1 && op != 2))) || (op >= 3 && op <= 7) || op >= 11 ||
							(control && fin == 0) || (exp == 1 && (op == 1 || op == 2)) || (exp == 0 && op == 0)
						if forbidden && got {
							bad = fmt.Sprintf("accepts a frame RFC 6455 / RFC 7692 forbids: opcode=%d fin=%d rsv=%d%d%d expectingContinuation=%d compression option=%d negotiated=%d (RSV1 is legal only on the first frame of a data message, and only when permessage-deflate was negotiated)", op, fin, r1, r2, r3, exp, comp&1, comp>>1&1)
						}
						if !forbidden && !got {
							bad = fmt.Sprintf("rejects a valid frame: opcode=%d fin=%d rsv=%d00 expectingContinuation=%d compression option=%d negotiated=%d", op, fin, r1, exp, comp&1, comp>>1&1)
						}
					}
				}
			}
			c.ExhaustiveTbl["frame header combinations"] = cells
			c.Cond(bad == "", "C13.O1", key, c.FnPos(vf), fmt.Sprintf("%d cells agree with the RFC table", cells), bad)
		}
	}

	// ------------------------------------------------------------------ O2
	if nf := c.Fn("C13.O2", "(*websocket.Conn).nextFrame"); nf != nil {
		fi := c.P.Info(nf)
		var accept ssa.Instruction
		for _, cs := range c.P.CallsNamed(nf, "(*websocket.Conn).validFrame") {
			accept = cs.In
		}
		if accept == nil {
			c.Unres("C13.O2", fnKey(c.P, nf, "acceptance point"), "validFrame call not found")
		} else {
			// (a) control payload too big
			bad := "no return of ErrControlMessageTooBig"
			for _, r := range fi.Returns() {
				rv := ir.RetVals(r)
				if c.P.Desc(rv[len(rv)-1]) != "websocket.ErrControlMessageTooBig" {
					continue
				}
				bad = ""
				// the deciding length comparison
				var lenIf *ssa.If
				ops := map[int64]bool{}
				for _, i := range fi.Ifs() {
					cmp, ok := ir.DecodeIntCmp(stripNot(i.Cond))
					if !ok {
						continue
					}
					if cmp.Holds(126) && !cmp.Holds(125) && !cmp.NotEq && fi.EdgeDominates(i, edgeForTruth(i, true), r.Block()) {
						lenIf = i
					}
					if !cmp.NotEq && cmp.TrueSet.Lo == cmp.TrueSet.Hi && i.Block().Succs[edgeForTruth(i, true)] == r.Block() {
						ops[cmp.TrueSet.Lo] = true
					}
				}
				if lenIf == nil {
					bad = "the control-frame rejection is not decided by payload length > 125"
				} else if !(ops[8] && ops[9] && ops[10] && len(ops) == 3) {
					bad = fmt.Sprintf("the >125 rejection applies to opcodes %v, expected {8,9,10}", keysOf(ops))
				} else if !fi.Dominates(lenIf, accept) {
					bad = "the control-frame length test does not dominate frame acceptance"
				}
			}
			c.Cond(bad == "", "C13.O2", fnKey(c.P, nf, "control payload > 125"), c.FnPos(nf), "rejection dominates acceptance for opcodes 8,9,10", bad)
			// (b) 64-bit length with the top bit set
			bad = "no 64-bit length read found"
			for _, cs := range c.P.CallsNamed(nf, "(encoding/binary.bigEndian).Uint64") {
				bad = "the 64-bit length is not tested for a set top bit (negative as int64)"
				v := cs.Value()
				for _, i := range fi.Ifs() {
					cmp, ok := ir.DecodeIntCmp(stripNot(i.Cond))
					if !ok || ir.Resolve(cmp.Expr) != v {
						// int64(v)
						if cv, isCv := cmp.Expr.(*ssa.Convert); !ok || !isCv || cv.X != v {
							continue
						}
					}
					if cmp.Holds(-1) && !cmp.Holds(0) {
						neg := edgeForTruth(i, true)
						vis, _ := fi.ReachFromEdge(i, neg, nil)
						okRet := false
						for in := range vis {
							if r, isR := in.(*ssa.Return); isR {
								if _, kind := c.retErr(fi, r); kind == "nonnil" {
									okRet = true
								} else {
									okRet = false
									break
								}
							}
						}
						if okRet && !vis[accept] {
							bad = ""
						}
					}
				}
			}
			c.Cond(bad == "", "C13.O2", fnKey(c.P, nf, "64-bit length top bit"), c.FnPos(nf), "negative length returns an error before acceptance", bad)
		}
	}

	// ------------------------------------------------------------------ O3
	if body := c.wsParseBody(); body != nil {
		fi := c.P.Info(body)
		key := "(*websocket.Conn).Parse: nothing buffered after a failed nextFrame"
		var call *ssa.Call
		for _, cs := range c.P.CallsNamed(body, "(*websocket.Conn).nextFrame") {
			call, _ = cs.In.(*ssa.Call)
		}
		if call == nil {
			c.Unres("C13.O3", key, "nextFrame call not found")
		} else {
			bad := c.errDiscipline(fi, call, errReaction{
				resume: func(in ssa.Instruction) bool {
					cs, ok := ir.AsCall(in)
					if !ok {
						return false
					}
					n := c.P.CalleeName(cs.Common)
					return strings.HasSuffix(n, ".Malloc") || strings.HasSuffix(n, ".Append") || n == "builtin:copy" || strings.HasSuffix(n, ".readAll")
				},
			})
			c.Cond(bad == "", "C13.O3", key, c.Pos(call), "error returns at once", bad)
		}
	} else {
		c.Unres("C13.O3", "(*websocket.Conn).Parse frame closure", "not found")
	}

	// ------------------------------------------------------------------ O4
	if hm := c.Fn("C13.O4", "(*websocket.Conn).handleWsMessage"); hm != nil {
		c13MessageChecks(c, hm)
	}

	// ------------------------------------------------------------------ O5
	if vc := c.Fn("C13.O5", "websocket.validCloseCode"); vc != nil {
		key := fnKey(c.P, vc, "close-code table")
		d, err := eng.Decide(c.P, vc)
		if err != nil {
			c.Unres("C13.O5", key, err.Error())
		} else {
			rets := d.Returns()
			// candidate points: all in the thorough tier, boundaries of every constant in the quick tier
			var pts []int64
			if c.Tier == "thorough" {
				for v := int64(0); v < 65536; v++ {
					pts = append(pts, v)
				}
			} else {
				set := map[int64]bool{0: true, 65535: true}
				for _, b := range vc.Blocks {
					for _, in := range b.Instrs {
						var ops []*ssa.Value
						for _, o := range in.Operands(ops) {
							if k, ok := ir.ConstInt(*o); ok {
								for _, x := range []int64{k - 1, k, k + 1} {
									if x >= 0 && x < 65536 {
										set[x] = true
									}
								}
							}
						}
					}
				}
				for _, x := range []int64{999, 1000, 1003, 1004, 1006, 1007, 1011, 1012, 1015, 1016, 2999, 3000, 4999, 5000} {
					set[x] = true
				}
				for k := range set {
					pts = append(pts, k)
				}
				sort.Slice(pts, func(i, j int) bool { return pts[i] < pts[j] })
			}
			bad := ""
			for _, v := range pts {
				env := eng.Env{"param#0": v}
				var got *bool
				for _, rc := range rets {
					holds, e := d.Eval(rc.Cond, env)
					if e != nil {
						bad = "undecided: " + e.Error()
						break
					}
					if !holds {
						continue
					}
					val, e := d.EvalInt(ir.RetVals(rc.Ret)[0], env)
					if e != nil {
						bad = "undecided: " + e.Error()
						break
					}
					b := val != 0
					got = &b
				}
				if bad != "" {
					break
				}
				if got == nil {
					bad = fmt.Sprintf("no return applies to code %d", v)
					break
				}
				mustAccept := v >= 1000 && v <= 1003 || v >= 1007 && v <= 1011 || v >= 3000 && v <= 4999
				mustReject := v <= 999 || v >= 1004 && v <= 1006 || v == 1015 || v >= 1016 && v <= 2999 || v >= 5000
				if mustAccept && !*got {
					bad = fmt.Sprintf("close code %d is rejected but RFC 6455 §7.4 allows it", v)
					break
				}
				if mustReject && *got {
					bad = fmt.Sprintf("close code %d is accepted but RFC 6455 §7.4 forbids it on the wire", v)
					break
				}
			}
			c.ExhaustiveTbl["close codes evaluated"] = len(pts)
			c.Cond(bad == "", "C13.O5", key, c.FnPos(vc), fmt.Sprintf("%d codes agree with the RFC table", len(pts)), bad)
		}
	}

	// ------------------------------------------------------------------ O6
	if n := c.parseCallSites("C13.O6", "websocket"); n < 3 {
		c.Unres("C13.O6", "websocket parse call sites", fmt.Sprintf("found %d", n))
	}

	// ------------------------------------------------------------------ O7
	if nu := c.Fn("C13.O7", "websocket.NewUpgrader"); nu != nil {
		var ping, cls *ssa.Function
		for _, g := range ir.Closures(nu) {
			if g.Parent() != nu {
				continue
			}
			if c.closureStoredTo(g, "websocket.commonFields.pingMessageHandler") {
				ping = g
			}
			if c.closureStoredTo(g, "websocket.commonFields.closeMessageHandler") {
				cls = g
			}
		}
		if ping == nil {
			c.Unres("C13.O7", "default ping handler", "not found")
		} else {
			bad := "the default ping handler does not write a pong"
			for _, cs := range c.P.CallsNamed(ping, "(*websocket.Conn).WriteMessage") {
				if k, ok := ir.ConstInt(cs.Common.Args[1]); !ok || k != 10 {
					bad = "the default ping handler answers with a message type other than Pong"
					continue
				}
				if ir.Resolve(cs.Common.Args[2]) != ssa.Value(ping.Params[1]) {
					bad = "the pong does not carry the ping's payload"
					continue
				}
				bad = ""
			}
			c.Cond(bad == "", "C13.O7", "default ping handler", c.FnPos(ping), "WriteMessage(Pong, []byte(payload))", bad)
		}
		if cls == nil {
			c.Unres("C13.O7", "default close handler", "not found")
		} else {
			fi := c.P.Info(cls)
			bad := ""
			n := 0
			for _, cs := range c.P.CallsNamed(cls, "(*websocket.Conn).WriteMessage") {
				n++
				if k, ok := ir.ConstInt(cs.Common.Args[1]); !ok || k != 8 {
					bad = "the default close handler answers with a message type other than Close"
				}
				lo, hi := fi.IntervalAt(cs.In, cls.Params[1])
				if lo == 1005 && hi == 1005 {
					if !ir.IsNilConst(cs.Common.Args[2]) {
						bad = "for 1005 (no status) the answer is not an empty close frame"
					}
				} else {
					// the code written is the received one
					okCode := false
					for _, pc := range c.P.CallsNamed(cls, "(encoding/binary.bigEndian).PutUint16") {
						if ir.Resolve(pc.Common.Args[2]) == ssa.Value(cls.Params[1]) && fi.Dominates(pc.In, cs.In) {
							okCode = true
						}
					}
					if !okCode {
						bad = "the close answer does not carry the received code"
					}
				}
			}
			if n != 2 && bad == "" {
				bad = fmt.Sprintf("expected the 1005 and the echo answer, found %d writes", n)
			}
			c.Cond(bad == "", "C13.O7", "default close handler", c.FnPos(cls), "echoes the code; empty frame for 1005", bad)
		}
	}
}

// edgeForTruth returns the successor index on which the un-negated condition
// has the given truth.
func edgeForTruth(i *ssa.If, truth bool) int {
	_, t := ir.StripNot(i.Cond, true)
	if t == truth {
		return 0
	}
	return 1
}

func keysOf(m map[int64]bool) []int64 {
	var out []int64
	for k := range m {
		out = append(out, k)
	}
	sort.Slice(out, func(i, j int) bool { return out[i] < out[j] })
	return out
}

// wsParseBody returns the closure of websocket.Conn.Parse that handles one
// frame (the one calling nextFrame).
func (c *Ctx) wsParseBody() *ssa.Function {
	p := c.P.Func("(*websocket.Conn).Parse")
	if p == nil {
		return nil
	}
	for _, g := range ir.Closures(p) {
		if len(c.P.CallsNamed(g, "(*websocket.Conn).nextFrame")) > 0 {
			return g
		}
	}
	return nil
}

// parseOpcodeSwitch extracts the opcodes that the frame closure of Parse
// accepts (cases of its opcode switch); the default must set an error.
func (c *Ctx) parseOpcodeSwitch() (map[int64]bool, string) {
	body := c.wsParseBody()
	if body == nil {
		return nil, "frame closure of Parse not found"
	}
	fi := c.P.Info(body)
	acc := map[int64]bool{}
	var last *ssa.If
	for _, i := range fi.Ifs() {
		cmp, ok := ir.DecodeIntCmp(i.Cond)
		if !ok || cmp.NotEq || cmp.TrueSet.Lo != cmp.TrueSet.Hi {
			continue
		}
		// the tested value is the opcode cell
		ld, ok := ir.Unconv(cmp.Expr).(*ssa.UnOp)
		if !ok || !strings.Contains(c.P.Desc(ld.X), "opcode") && !strings.Contains(ld.X.Name(), "opcode") {
			continue
		}
		if i.Block().Comment != "switch.next" && i.Block().Comment != "if.done" && !strings.HasPrefix(i.Block().Comment, "switch") {
			continue
		}
		acc[cmp.TrueSet.Lo] = true
		last = i
	}
	if last == nil {
		return nil, "opcode switch not found in Parse"
	}
	// default edge: stores a non-nil error and returns
	vis, _ := fi.ReachFromEdge(last, 1, nil)
	setsErr := false
	for in := range vis {
		if st, ok := in.(*ssa.Store); ok && c.isNonNilErrorValue(st.Val) {
			setsErr = true
		}
		if cs, ok := ir.AsCall(in); ok {
			n := c.P.CalleeName(cs.Common)
			if strings.HasSuffix(n, ".Malloc") || strings.HasSuffix(n, ".Append") {
				return acc, "the default case of the opcode switch buffers data"
			}
		}
	}
	if !setsErr {
		return acc, "the default case of the opcode switch does not fail the frame"
	}
	return acc, ""
}

// c13MessageChecks: O4.
func c13MessageChecks(c *Ctx, hm *ssa.Function) {
	fi := c.P.Info(hm)
	opcode := hm.Params[1]
	caseEdge := func(k int64) (*ssa.If, int) {
		for _, i := range fi.Ifs() {
			cmp, ok := ir.DecodeIntCmp(i.Cond)
			if ok && !cmp.NotEq && cmp.TrueSet.Lo == k && cmp.TrueSet.Hi == k && ir.Resolve(cmp.Expr) == ssa.Value(opcode) {
				return i, 0
			}
		}
		return nil, 0
	}
	isHandler := func(name string) func(in ssa.Instruction) bool {
		return func(in ssa.Instruction) bool {
			cs, ok := ir.AsCall(in)
			return ok && c.P.CalleeName(cs.Common) == "dyn:websocket.commonFields."+name
		}
	}
	isAnyHandler := func(in ssa.Instruction) bool {
		cs, ok := ir.AsCall(in)
		return ok && strings.HasPrefix(c.P.CalleeName(cs.Common), "dyn:websocket.commonFields.")
	}
	utf8True := func(i *ssa.If, k int) bool {
		cnd, truth := ir.StripNot(i.Cond, k == 0)
		call, ok := cnd.(*ssa.Call)
		return ok && c.P.CalleeName(&call.Call) == "dyn:nbhttp.Engine.CheckUtf8" && truth
	}
	codeTrue := func(i *ssa.If, k int) bool {
		cnd, truth := ir.StripNot(i.Cond, k == 0)
		call, ok := cnd.(*ssa.Call)
		return ok && c.P.CalleeName(&call.Call) == "websocket.validCloseCode" && truth
	}
	nilData := func(i *ssa.If, k int) bool {
		x, isNil, ok := ir.NilTest(i.Cond, k == 0)
		return ok && isNil && ir.SameValue(x, hm.Params[2])
	}
	reachable := func(i *ssa.If, k int, target func(ssa.Instruction) bool, skip func(*ssa.If, int) bool) ssa.Instruction {
		// walk from edge (i,k)
		seen := map[ssa.Instruction]bool{}
		var work []ssa.Instruction
		if s := i.Block().Succs[k]; len(s.Instrs) > 0 {
			work = append(work, s.Instrs[0])
		}
		for len(work) > 0 {
			in := work[len(work)-1]
			work = work[:len(work)-1]
			if seen[in] {
				continue
			}
			seen[in] = true
			if target(in) {
				return in
			}
			if x, ok := in.(*ssa.If); ok {
				for kk, s := range x.Block().Succs {
					if skip != nil && skip(x, kk) || len(s.Instrs) == 0 {
						continue
					}
					work = append(work, s.Instrs[0])
				}
				continue
			}
			work = append(work, ir.Succ(in)...)
		}
		return nil
	}
	// (a) text
	if i, k := caseEdge(1); i == nil {
		c.Unres("C13.O4", fnKey(c.P, hm, "text: UTF-8 before delivery"), "case TextMessage not found")
	} else {
		at := reachable(i, k, isHandler("messageHandler"), func(x *ssa.If, kk int) bool { return utf8True(x, kk) || nilData(x, kk) })
		bad := ""
		if at != nil {
			bad = "the text message handler at " + c.Pos(at) + " is reachable without a successful UTF-8 check: invalid text would be delivered"
		}
		if reachable(i, k, isHandler("messageHandler"), nil) == nil {
			bad = "text messages are never delivered"
		}
		c.Cond(bad == "", "C13.O4", fnKey(c.P, hm, "text: UTF-8 before delivery"), c.Pos(i), "handler only behind CheckUtf8==true (or nil payload)", bad)
	}
	// (b) close
	if i, k := caseEdge(8); i == nil {
		c.Unres("C13.O4", fnKey(c.P, hm, "close: code and reason before the handler"), "case CloseMessage not found")
	} else {
		bad := ""
		// find the >=2 edge
		var two *ssa.If
		for _, x := range fi.Ifs() {
			cmp, ok := ir.DecodeIntCmp(stripNot(x.Cond))
			if !ok {
				continue
			}
			if _, isLen := ir.IsLenOf(ir.Resolve(cmp.Expr)); isLen && cmp.Holds(2) && !cmp.Holds(1) && !cmp.NotEq {
				two = x
			}
		}
		if two == nil {
			bad = "no len(payload) >= 2 test in the close case"
		} else {
			e := edgeForTruth(two, true)
			if at := reachable(two, e, isHandler("closeMessageHandler"), codeTrue); at != nil {
				bad = "the close handler is reachable with a status code that validCloseCode did not accept"
			}
			if at := reachable(two, e, isHandler("closeMessageHandler"), utf8True); at != nil {
				bad = "the close handler is reachable with a reason that was not checked for UTF-8"
			}
			if reachable(two, e, isHandler("closeMessageHandler"), nil) == nil {
				bad = "a valid close frame never reaches the close handler"
			}
		}
		_ = k
		c.Cond(bad == "", "C13.O4", fnKey(c.P, hm, "close: code and reason before the handler"), c.Pos(i), "handler only behind validCloseCode and CheckUtf8", bad)
	}
	// (c) failing edges write a 1002 close and close the connection
	{
		bad := ""
		n := 0
		for _, x := range fi.Ifs() {
			for kk := 0; kk < 2; kk++ {
				cnd, truth := ir.StripNot(x.Cond, kk == 0)
				call, ok := cnd.(*ssa.Call)
				if !ok || truth {
					continue
				}
				name := c.P.CalleeName(&call.Call)
				if name != "dyn:nbhttp.Engine.CheckUtf8" && name != "websocket.validCloseCode" {
					continue
				}
				n++
				vis, _ := fi.ReachFromEdge(x, kk, nil)
				w1002, wClose, closed, delivered := false, false, false, false
				for in := range vis {
					cs, ok := ir.AsCall(in)
					if !ok {
						continue
					}
					switch c.P.CalleeName(cs.Common) {
					case "(encoding/binary.bigEndian).PutUint16":
						if v, ok := ir.ConstInt(cs.Common.Args[2]); ok && v == 1002 {
							w1002 = true
						}
					case "(*websocket.Conn).WriteMessage":
						if v, ok := ir.ConstInt(cs.Common.Args[1]); ok && v == 8 {
							wClose = true
						}
					case "(*websocket.Conn).Close":
						closed = true
					}
					if isAnyHandler(in) {
						delivered = true
					}
				}
				if !w1002 || !wClose || !closed || delivered {
					bad = fmt.Sprintf("the failing edge of %s at %s: writes 1002=%v, close frame=%v, closes=%v, delivers=%v", strings.TrimPrefix(name, "dyn:"), c.Pos(x), w1002, wClose, closed, delivered)
				}
			}
		}
		c.Cond(bad == "" && n == 3, "C13.O4", fnKey(c.P, hm, "failing edges answer 1002 and close"), c.FnPos(hm), "3 failing edges", bad+fmt.Sprintf(" (edges=%d)", n))
	}
	// (d) opcode 0
	if i, k := caseEdge(0); i == nil {
		c.Unres("C13.O4", fnKey(c.P, hm, "stray continuation closed"), "case FragmentMessage not found")
	} else {
		bad := ""
		if reachable(i, k, isAnyHandler, nil) != nil {
			bad = "a message whose type is still 0 (continuation without start) reaches a handler"
		}
		vis, _ := fi.ReachFromEdge(i, k, func(in ssa.Instruction) bool { return c.isCallTo(in, "(*websocket.Conn).Close") })
		for in := range vis {
			if ir.IsExit(in) {
				bad = "a message whose type is still 0 does not close the connection"
			}
		}
		c.Cond(bad == "", "C13.O4", fnKey(c.P, hm, "stray continuation closed"), c.Pos(i), "no delivery; Close on every path", bad)
	}
}

// c13Utf8Scope: O8.
func c13Utf8Scope(c *Ctx) {
	callers := map[string]int{}
	for _, f := range c.pkgFuncs("websocket") {
		for _, cs := range c.P.Calls(f, func(name string, _ ir.CallSite) bool { return name == "dyn:nbhttp.Engine.CheckUtf8" }) {
			_ = cs
			callers[c.P.FuncName(ir.Outermost(f))]++
		}
	}
	var extra []string
	for name := range callers {
		if name != "(*websocket.Conn).handleWsMessage" {
			extra = append(extra, name)
		}
	}
	sort.Strings(extra)
	bad := ""
	if len(extra) > 0 {
		bad = fmt.Sprintf("CheckUtf8 is applied in %v, i.e. to part of a message: a valid text message whose fragments split a multi-byte code point would be rejected", extra)
	} else if callers["(*websocket.Conn).handleWsMessage"] < 2 {
		bad = "the whole-message UTF-8 checks (text, close reason) were not found in handleWsMessage"
	}
	c.Cond(bad == "", "C13.O8", "callers of Engine.CheckUtf8", "", fmt.Sprintf("%v", callers), bad)
}

// c13ExpectFlag: O9.
func c13ExpectFlag(c *Ctx) {
	const fExp = "websocket.Conn.expectingFragments"
	if nf := c.Fn("C13.O9", "(*websocket.Conn).nextFrame"); nf != nil {
		bad := "validFrame is not called"
		for _, cs := range c.P.CallsNamed(nf, "(*websocket.Conn).validFrame") {
			bad = ""
			last := cs.Common.Args[len(cs.Common.Args)-1]
			if c.P.LoadedField(ir.Resolve(last)) != fExp {
				bad = "validFrame's expecting-continuation argument is " + c.P.Desc(last) + ", not the connection's expectingFragments flag"
			}
		}
		c.Cond(bad == "", "C13.O9", fnKey(c.P, nf, "validFrame reads the flag"), c.FnPos(nf), "last argument = Conn.expectingFragments", bad)
	}
	if parse := c.Fn("C13.O9", "(*websocket.Conn).Parse"); parse != nil {
		nT, nF := 0, 0
		bad := ""
		for _, f := range ir.WithClosures(parse) {
			fi := c.P.Info(f)
			for _, st := range c.P.StoresTo(f, fExp) {
				k, ok := ir.ConstBool(st.Val)
				if !ok {
					bad = "the flag is assigned a computed value at " + c.Pos(st)
					continue
				}
				// the FIN bit: a bool value named fin tested on the dominating edge
				finFact := func(want bool) bool {
					return fi.HasFact(st, func(ft ir.Fact) bool {
						cnd, truth := ir.StripNot(ft.Cond, ft.Truth)
						return strings.Contains(c.P.Desc(cnd), "fin") && truth == want || isFinValue(cnd) && truth == want
					})
				}
				if k {
					nT++
					if !finFact(false) {
						bad = "expectingFragments = true at " + c.Pos(st) + " is not on the non-FIN edge"
					}
				} else {
					nF++
					if !finFact(true) {
						bad = "expectingFragments = false at " + c.Pos(st) + " is not on the FIN edge"
					}
				}
			}
		}
		if (nT == 0 || nF == 0) && bad == "" {
			bad = fmt.Sprintf("expected the flag to be set on non-FIN and cleared on FIN (found %d / %d stores)", nT, nF)
		}
		c.Cond(bad == "", "C13.O9", fnKey(c.P, parse, "flag follows FIN"), c.FnPos(parse), fmt.Sprintf("%d set on !fin, %d clear on fin", nT, nF), bad)

		// kept whichever handlers are installed
		bad2 := ""
		for _, f := range ir.WithClosures(parse) {
			fi := c.P.Info(f)
			for _, fld := range []string{fExp, "websocket.Conn.msgType"} {
				for _, st := range c.P.StoresTo(f, fld) {
					if fld != fExp {
						if n, ok := ir.ConstInt(st.Val); !ok || n != 0 {
							continue // only the reset of the per-message type
						}
					}
					if fi.HasFact(st, func(ft ir.Fact) bool {
						x, _, ok := ir.NilTest(ft.Cond, ft.Truth)
						if !ok {
							return false
						}
						k := c.P.LoadedField(x)
						return strings.HasSuffix(k, ".messageHandler") || strings.HasSuffix(k, ".dataFrameHandler")
					}) {
						bad2 = fld + " is maintained at " + c.Pos(st) + " only when a particular handler is installed: a connection that uses the other handler never resets its per-message state, so continuation frames are not validated (a new data frame inside a fragmented message, a continuation without a start are accepted) and every message after the first is reported with the first one's type"
					}
				}
			}
		}
		c.Cond(bad2 == "", "C13.O9", fnKey(c.P, parse, "state kept whichever handlers are installed"), c.FnPos(parse), "stores not conditional on a handler being set", bad2)
	}
}

// isFinValue: the value is the fin result of nextFrame (5th result) possibly via a local.
func isFinValue(v ssa.Value) bool {
	if ex, ok := ir.Resolve(v).(*ssa.Extract); ok {
		if call, ok := ex.Tuple.(*ssa.Call); ok {
			if f := ir.StaticCallee(&call.Call); f != nil && f.Name() == "nextFrame" {
				return ex.Index == 4
			}
		}
	}
	return false
}

// c13PerFrameOutputs: O10.
func c13PerFrameOutputs(c *Ctx) {
	parse := c.Fn("C13.O10", "(*websocket.Conn).Parse")
	if parse == nil {
		return
	}
	fi := c.P.Info(parse)
	n := 0
	for _, cs := range c.P.Calls(parse, func(name string, _ ir.CallSite) bool {
		return name == "(*websocket.Conn).handleMessage" || name == "(*websocket.Conn).handleDataFrame" || name == "(*websocket.Conn).handleProtocolMessage"
	}) {
		if !fi.InLoop(cs.In) {
			continue
		}
		for ai, a := range cs.Common.Args {
			ld, isLoad := ir.Unconv(a).(*ssa.UnOp)
			if !isLoad || ld.Op != token.MUL {
				continue
			}
			cell, isCell := ld.X.(*ssa.Alloc)
			if !isCell {
				continue
			}
			if cell.Type().Underlying().(*types.Pointer).Elem().String() != "*[]byte" {
				continue // only the payload pointers
			}
			n++
			key := fmt.Sprintf("%s: %s arg#%d", c.P.FuncName(parse), c.P.CalleeName(cs.Common), ai)
			vis, _ := fi.Reach([]ssa.Instruction{cs.In}, func(in ssa.Instruction) bool {
				st, ok := in.(*ssa.Store)
				return ok && st.Addr == ssa.Value(cell)
			})
			c.Cond(!vis[cs.In], "C13.O10", key, c.Pos(cs.In), "assigned again on every way round the loop",
				"the payload passed at "+c.Pos(cs.In)+" can still be the previous frame's on the next way round the loop (no assignment to the variable in between; the parsing step assigns it only for a non-empty payload): an empty control frame is answered with the payload of the one before it, and a released buffer is released again")
		}
	}
	if n == 0 {
		c.Unres("C13.O10", fnKey(c.P, parse, "per-frame outputs"), "no payload variable found at the dispatch sites")
	}
}
