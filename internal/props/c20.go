package props

import (
	"fmt"
	"go/token"
	"strings"

	"golang.org/x/tools/go/ssa"

	"verif/internal/eng"
	"verif/internal/ir"
)

func init() {
	register(&Property{
		ID:          "C20",
		Engines:     []string{"cfg", "typestate"},
		Explanation: "Allocator contracts: contents and non-aliasing over all operation sequences are value-level and not decided. Decided: every return of each Malloc yields a slice whose length is the size argument (O1); inside the allocators a block is read before it is released and never returned or used afterwards, and Append/Realloc copy the old contents to offset 0 and the new bytes to offset len(old) (O2); pool hygiene — a pooling Free puts back only buffers of positive capacity within its bounds, the pooled allocator re-slices a pooled buffer only after growing it to the size, the aligned allocator indexes its class table only for sizes within the table and each class allocates exactly its class size (O3); no allocator keeps the pointer it returns anywhere but the sync.Pool on Free (O4). The aligned allocator appends only in place (O5). The aligned Free filter pools only exact class sizes, evaluated over all capacities (O6). Realloc returns the requested length on every path (O1).",
		NotCovered:  "content preservation and non-overlap for all sequences and sizes; that every capacity the aligned allocator hands out is a class size (an inductive, value-level invariant); concurrent use (delegated to sync.Pool); the TraceDebugger wrapper, which records pointers by design",
		Run:         runC20,
	})
}

var allocImpls = []string{"*mempool.MemPool", "*mempool.AlignedAllocator", "*mempool.stdAllocator"}

func runC20(c *Ctx) {
	c.Rule("C20.O1", "E4", "every non-nil return of each Malloc(size) and Realloc(_, size) has length size: the last store to the returned slice is make([]byte,size) or x[:size] (or the buffer is a Malloc(size) of the same allocator)", 6)
	c.Rule("C20.O2", "E2,E4", "inside mempool: no use / return / second release of a block after its release; Append and Realloc copy to offsets 0 and len(old)", 4)
	c.Rule("C20.O3", "E4", "pooling Free: Put only behind cap>0 and the upper bound; MemPool.Malloc grows to size before [:size]; aligned class table indexed only within bounds; each class's New makes exactly the class size", 5)
	c.Rule("C20.O6", "E8", "the aligned allocator files a released buffer under a size class only when its capacity is exactly a class size (a power of two within the class range): decided by evaluating Free's filter over every capacity from 0 to beyond the largest class; Malloc re-slices a pooled buffer up to its class size", 1)
	c20AlignedFreeFilter(c)
	c.Rule("C20.O5", "E4", "the aligned allocator never lets the runtime choose a capacity: builtin append on a handed-out buffer only behind cap-len >= len(more) (in place); growth goes through Malloc of a class size", 1)
	c.Rule("C20.O4", "E5", "sync.Pool.Put only in Free; no allocator stores a buffer pointer or slice into a field, global or map", 2)

	// ------------------------------------------------------------------ O1
	for _, impl := range allocImpls {
		fn := c.Fn("C20.O1", "("+impl+").Malloc")
		if fn == nil {
			continue
		}
		fi := c.P.Info(fn)
		size := fn.Params[1]
		bad := ""
		n := 0
		for _, r := range fi.Returns() {
			v := ir.RetVals(r)[0]
			if ir.IsNilConst(v) {
				// only for a negative size
				if lo, hi := fi.IntervalAt(r, size); !(hi < 0) {
					bad = fmt.Sprintf("Malloc returns nil for sizes in [%d,%d]", lo, hi)
				}
				continue
			}
			n++
			// the last store through the returned pointer on every path to the return
			stores, bare := lastStoresBefore(r, v)
			if bare {
				bad = "a path reaches the return at " + c.Pos(r) + " without giving the buffer its length"
			}
			for _, last := range stores {
				okLen := false
				switch x := ir.Resolve(last.Val).(type) {
				case *ssa.MakeSlice:
					okLen = ir.Resolve(x.Len) == ssa.Value(size)
				case *ssa.Slice:
					okLen = x.High != nil && ir.Resolve(x.High) == ssa.Value(size) && (x.Low == nil || isZero(x.Low))
				}
				if !okLen {
					bad = "the buffer returned at " + c.Pos(r) + " has the length of " + c.P.Desc(last.Val) + " (stored at " + c.Pos(last) + "), not the requested size"
				}
			}
		}
		if n == 0 && bad == "" {
			bad = "no return of a buffer"
		}
		c.Cond(bad == "", "C20.O1", fnKey(c.P, fn, "length == size"), c.FnPos(fn), fmt.Sprintf("%d returning path(s)", n), bad)
	}

	// ------------------------------------------------------------------ O1 (Realloc): the returned buffer has the requested length
	for _, impl := range allocImpls {
		fn := c.Fn("C20.O1", "("+impl+").Realloc")
		if fn == nil {
			continue
		}
		fi := c.P.Info(fn)
		size := fn.Params[2]
		bad := ""
		n := 0
		for _, r := range fi.Returns() {
			v := ir.Resolve(ir.RetVals(r)[0])
			if ir.IsNilConst(v) {
				continue
			}
			n++
			// the result of a Malloc(size) of the same family
			if call, ok := v.(*ssa.Call); ok && strings.HasSuffix(c.P.CalleeName(&call.Call), ".Malloc") {
				args := call.Call.Args
				if len(args) > 0 && ir.Resolve(args[len(args)-1]) == ssa.Value(size) {
					continue
				}
			}
			stores, bare := lastStoresBefore(r, v)
			if bare && len(stores) == 0 {
				bad = "a path reaches the return at " + c.Pos(r) + " without giving the buffer the requested length"
			}
			for _, last := range stores {
				okLen := false
				switch x := ir.Resolve(last.Val).(type) {
				case *ssa.MakeSlice:
					okLen = ir.Resolve(x.Len) == ssa.Value(size)
				case *ssa.Slice:
					okLen = x.High != nil && ir.Resolve(x.High) == ssa.Value(size) && (x.Low == nil || isZero(x.Low))
				case *ssa.Call:
					// Malloc(size) result dereferenced
				}
				if ld, isLoad := ir.IsLoad(ir.Resolve(last.Val)); isLoad {
					if call, ok := ir.Resolve(ld).(*ssa.Call); ok && strings.HasSuffix(c.P.CalleeName(&call.Call), ".Malloc") {
						args := call.Call.Args
						okLen = len(args) > 0 && ir.Resolve(args[len(args)-1]) == ssa.Value(size)
					}
				}
				if !okLen {
					bad = "the buffer returned at " + c.Pos(r) + " has the length of " + c.P.Desc(last.Val) + " (stored at " + c.Pos(last) + "), not the requested size: Realloc(n) must return length n whatever the old length and capacity were"
				}
			}
		}
		if n == 0 && bad == "" {
			bad = "no return of a buffer"
		}
		c.Cond(bad == "", "C20.O1", fnKey(c.P, fn, "length == size"), c.FnPos(fn), fmt.Sprintf("%d returning path(s)", n), bad)
	}

	// ------------------------------------------------------------------ O2 typestate inside mempool
	{
		p := c.P
		cfg := eng.TSConfig{
			P: p,
			FreeArg: func(cs ir.CallSite) ssa.Value {
				n := p.CalleeName(cs.Common)
				if strings.HasPrefix(n, "(*mempool.") && strings.HasSuffix(n, ").Free") && len(cs.Common.Args) > 1 {
					return cs.Common.Args[1]
				}
				if n == "(*sync.Pool).Put" {
					// handing the block to the pool ends its life for this allocator
					return nil
				}
				return nil
			},
			ConsumeArg: func(cs ir.CallSite) ssa.Value { return nil },
			IsMalloc: func(cs ir.CallSite) bool {
				n := p.CalleeName(cs.Common)
				return strings.HasPrefix(n, "(*mempool.") && strings.HasSuffix(n, ").Malloc")
			},
			ExecutorClosure: func(cs ir.CallSite) *ssa.Function { return nil },
		}
		ts := eng.NewTypestate(cfg)
		n := 0
		for _, f := range c.pkgFuncs("mempool") {
			if f.Parent() != nil || strings.Contains(c.P.FuncName(f), "TraceDebugger") {
				continue
			}
			ts.AnalyzeRoot(f)
			n++
		}
		vs := ts.Violations()
		if len(vs) == 0 {
			c.OK("C20.O2", "mempool: blocks read before release, never used or returned afterwards", "", fmt.Sprintf("%d functions, %d release events", n, ts.Frees))
		}
		for i, v := range vs {
			c.Bad("C20.O2", fmt.Sprintf("%s: %s#%d", c.P.FuncName(ir.Outermost(v.Fn)), v.Kind, i+1), c.Pos(v.In), v.Detail)
		}
	}
	// copy offsets
	for _, name := range []string{"(*mempool.AlignedAllocator).Append", "(*mempool.AlignedAllocator).Realloc", "(*mempool.MemPool).Realloc"} {
		fn := c.Fn("C20.O2", name)
		if fn == nil {
			continue
		}
		old := fn.Params[1]
		bad := ""
		nOld, nMore := 0, 0
		for _, cs := range c.P.CallsNamed(fn, "builtin:copy") {
			dst, src := ir.Resolve(cs.Common.Args[0]), ir.Resolve(cs.Common.Args[1])
			srcOld := false
			if a, isLoad := ir.IsLoad(src); isLoad && ir.Resolve(a) == ssa.Value(old) {
				srcOld = true
			}
			if srcOld {
				nOld++
				// destination is the whole new block (offset 0)
				if _, isSl := dst.(*ssa.Slice); isSl {
					bad = "the old contents are not copied to offset 0 of the new block"
				}
				// ... which already has its final length: copy moves min(len(dst), len(src)) bytes
				if da, isLoad := ir.IsLoad(dst); isLoad {
					stores, bare := lastStoresBefore(cs.In, ir.Resolve(da))
					okLen := !bare || isFreshOfSize(c, ir.Resolve(da), fn)
					for _, st := range stores {
						switch x := ir.Resolve(st.Val).(type) {
						case *ssa.Slice:
							if x.High == nil || !isSizeLike(fn, x.High) {
								okLen = false
							}
						case *ssa.MakeSlice:
							if !isSizeLike(fn, x.Len) {
								okLen = false
							}
						default:
							okLen = false
						}
					}
					if len(stores) == 0 && !isFreshOfSize(c, ir.Resolve(da), fn) {
						okLen = false
					}
					if !okLen {
						bad = "the old contents are copied at " + c.Pos(cs.In) + " into a block that does not have its final length yet: copy is limited by the destination's current (stale, pooled) length and the tail of the contents is lost"
					}
				}
				continue
			}
			nMore++
			sl, isSl := dst.(*ssa.Slice)
			okOff := false
			if isSl && sl.Low != nil && sl.High == nil {
				if x, isLen := ir.IsLenOf(ir.Resolve(sl.Low)); isLen {
					if a, isLoad := ir.IsLoad(ir.Resolve(x)); isLoad && ir.Resolve(a) == ssa.Value(old) {
						okOff = true
					}
				}
			}
			if !okOff {
				bad = "the appended bytes are not copied to offset len(old) of the new block"
			}
		}
		if nOld != 1 {
			bad = fmt.Sprintf("expected one copy of the old contents, found %d", nOld)
		}
		if strings.HasSuffix(name, ".Append") && nMore != 1 && bad == "" {
			bad = fmt.Sprintf("expected one copy of the appended bytes, found %d", nMore)
		}
		c.Cond(bad == "", "C20.O2", fnKey(c.P, fn, "copy offsets"), c.FnPos(fn), "old -> offset 0, more -> offset len(old)", bad)
	}

	// ------------------------------------------------------------------ O3
	for _, impl := range []string{"*mempool.MemPool", "*mempool.AlignedAllocator"} {
		fn := c.Fn("C20.O3", "("+impl+").Free")
		if fn == nil {
			continue
		}
		fi := c.P.Info(fn)
		pb := fn.Params[1]
		bad := "Free never pools"
		for _, cs := range c.P.CallsNamed(fn, "(*sync.Pool).Put") {
			bad = ""
			capOf := func(v ssa.Value) bool {
				x, isCap := ir.IsCapOf(ir.Resolve(v))
				if !isCap {
					return false
				}
				a, isLoad := ir.IsLoad(ir.Resolve(x))
				return isLoad && ir.Resolve(a) == ssa.Value(pb)
			}
			var capVal ssa.Value
			for _, ft := range fi.Facts(cs.In) {
				if cmp, ok := ir.DecodeIntCmp(ft.Cond); ok && capOf(cmp.Expr) {
					capVal = cmp.Expr
				}
				if b, ok := ft.Cond.(*ssa.BinOp); ok && capOf(b.X) {
					capVal = b.X
				}
			}
			lo := int64(ir.NegInf)
			if capVal != nil {
				lo, _ = fi.IntervalAt(cs.In, capVal)
			}
			upper := fi.HasFact(cs.In, func(ft ir.Fact) bool {
				b, ok := ft.Cond.(*ssa.BinOp)
				return ok && b.Op == token.GTR && capOf(b.X) && !ft.Truth
			})
			switch {
			case lo < 1:
				bad = "a buffer of capacity 0 can be put into the pool: the next Malloc from that class re-slices it beyond its capacity and panics (the pooled allocator rejects cap == 0)"
			case !upper:
				bad = "buffers above the pooling bound are pooled"
			}
		}
		c.Cond(bad == "", "C20.O3", fnKey(c.P, fn, "pools only sound buffers"), c.FnPos(fn), "Put behind cap > 0 and cap <= bound", bad)
	}
	if fn := c.Fn("C20.O3", "(*mempool.MemPool).Malloc"); fn != nil {
		fi := c.P.Info(fn)
		size := fn.Params[1]
		bad := "no growth of a too-small pooled buffer"
		for _, b := range fn.Blocks {
			for _, in := range b.Instrs {
				mk, ok := in.(*ssa.MakeSlice)
				if !ok {
					continue
				}
				d, isSub := ir.Resolve(mk.Len).(*ssa.BinOp)
				if !isSub || d.Op != token.SUB || ir.Resolve(d.X) != ssa.Value(size) {
					continue
				}
				// size - cap under cap < size, appended to buf[:cap]
				n := ir.Resolve(d.Y)
				if _, isCap := ir.IsCapOf(n); !isCap {
					bad = "the pooled buffer is grown by size - " + c.P.Desc(n) + ", not by size - cap"
					continue
				}
				if !fi.HasFact(mk, func(ft ir.Fact) bool {
					bo, ok := ft.Cond.(*ssa.BinOp)
					return ok && ft.Truth && bo.Op == token.LSS && ir.Resolve(bo.X) == n && ir.Resolve(bo.Y) == ssa.Value(size)
				}) {
					bad = "the growth is not on the cap < size edge"
					continue
				}
				bad = ""
			}
		}
		c.Cond(bad == "", "C20.O3", fnKey(c.P, fn, "grow before re-slice"), c.FnPos(fn), "cap < size -> append(buf[:cap], make(size-cap)...)", bad)
	}
	for _, name := range []string{"(*mempool.AlignedAllocator).Malloc", "(*mempool.AlignedAllocator).Free"} {
		fn := c.Fn("C20.O3", name)
		if fn == nil {
			continue
		}
		fi := c.P.Info(fn)
		max := c.pkgConstInt("mempool", "maxAlignedBufferSize")
		bad := "the class table is not used"
		for _, b := range fn.Blocks {
			for _, in := range b.Instrs {
				ia, ok := in.(*ssa.IndexAddr)
				if !ok {
					continue
				}
				g, isG := ia.X.(*ssa.Global)
				if !isG || g.Name() != "alignedIndexes" {
					continue
				}
				bad = ""
				lo, hi := fi.IntervalAt(ia, ia.Index)
				inBounds := hi <= max
				if strings.HasSuffix(name, ".Malloc") && lo < 0 {
					inBounds = false
				}
				if !inBounds {
					bad = fmt.Sprintf("alignedIndexes is indexed with a size in [%d,%d]; the table covers [0,%d]", lo, hi, max)
				}
			}
		}
		c.Cond(bad == "", "C20.O3", fnKey(c.P, fn, "class table within bounds"), c.FnPos(fn), fmt.Sprintf("index <= %d", max), bad)
	}
	if in := c.Fn("C20.O3", "mempool.init#1"); in != nil {
		// each class's New makes exactly the size recorded for the class
		bad := "no class constructor"
		for _, g := range ir.Closures(in) {
			for _, b := range g.Blocks {
				for _, x := range b.Instrs {
					mk, ok := x.(*ssa.MakeSlice)
					if !ok || mk.Type().String() != "[]byte" {
						continue
					}
					bad = ""
					made := ir.Resolve(mk.Len)
					// the same value is stored into poolSizes[i]
					same := false
					for _, pb := range in.Blocks {
						for _, y := range pb.Instrs {
							st, ok := y.(*ssa.Store)
							if !ok {
								continue
							}
							if ia, ok := st.Addr.(*ssa.IndexAddr); ok {
								if a, ok := ir.Root(ia.X).(*ssa.Alloc); ok && a.Comment == "poolSizes" {
									rec := c.P.Desc(st.Val)
									if ir.Resolve(st.Val) == made || rec == c.P.Desc(made) {
										same = true
									}
									// a larger block than recorded keeps every re-slice in bounds
									if bo, ok := made.(*ssa.BinOp); ok && c.P.Desc(bo.X) == rec {
										if k, isK := ir.ConstInt(bo.Y); isK && k > 0 && (bo.Op == token.ADD || bo.Op == token.MUL || bo.Op == token.SHL) {
											same = true
										}
									}
								}
							}
						}
					}
					if !same {
						bad = "a size class allocates " + c.P.Desc(made) + " bytes, which is not the size recorded for the class: Free would file the block under another class"
					}
				}
			}
		}
		c.Cond(bad == "", "C20.O3", "mempool.init: class New makes the class size", c.FnPos(in), "make([]byte, size) with the size recorded in poolSizes[i]", bad)
	} else {
		c.Unres("C20.O3", "mempool.init", "package initialiser not found")
	}

	// ------------------------------------------------------------------ O5
	{
		bad := ""
		n := 0
		for _, f := range c.pkgFuncs("mempool") {
			name := c.P.FuncName(f)
			if !strings.HasPrefix(name, "(*mempool.AlignedAllocator).") {
				continue
			}
			fi := c.P.Info(f)
			for _, cs := range c.P.CallsNamed(f, "builtin:append") {
				n++
				// in place iff dominated by cap(x)-len(x) >= len(more) on the true edge
				ok := fi.HasFact(cs.In, func(ft ir.Fact) bool {
					// len(more) <= cap(x) - len(x), in any spelling
					lx, ly, _, isLT := lessThanFact(ft)
					if !isLT {
						return false
					}
					if _, isLen := ir.IsLenOf(ir.Resolve(lx)); !isLen {
						return false
					}
					d, isD := ir.Resolve(ly).(*ssa.BinOp)
					if !isD || d.Op != token.SUB {
						return false
					}
					_, isCap := ir.IsCapOf(ir.Resolve(d.X))
					_, isLen := ir.IsLenOf(ir.Resolve(d.Y))
					return isCap && isLen
				})
				if !ok {
					bad = name + " appends at " + c.Pos(cs.In) + " without knowing that the bytes fit the capacity: the runtime then picks a capacity that is a multiple of 32 but not a class size, Free files the buffer under a larger class, and a later Malloc re-slices it beyond its capacity"
				}
			}
		}
		c.Cond(bad == "", "C20.O5", "AlignedAllocator: no runtime-chosen capacities", "", fmt.Sprintf("%d append site(s), all in place", n), bad)
	}

	// ------------------------------------------------------------------ O4
	{
		puts := map[string]bool{}
		for _, f := range c.pkgFuncs("mempool") {
			if strings.Contains(c.P.FuncName(f), "TraceDebugger") {
				continue
			}
			for _, cs := range c.P.CallsNamed(f, "(*sync.Pool).Put") {
				_ = cs
				puts[c.P.FuncName(ir.Outermost(f))] = true
			}
		}
		want := "(*mempool.AlignedAllocator).Free,(*mempool.MemPool).Free"
		got := strings.Join(sortedKeys(puts), ",")
		c.Cond(got == want, "C20.O4", "callers of sync.Pool.Put", "", got, "buffers are put into a pool by ["+got+"], expected only the two Free methods: a buffer pooled while its user still holds it would be shared")
		bad := ""
		n := 0
		for _, f := range c.pkgFuncs("mempool") {
			name := c.P.FuncName(f)
			if strings.Contains(name, "TraceDebugger") || strings.HasPrefix(name, "mempool.init") {
				continue
			}
			for _, b := range f.Blocks {
				for _, in := range b.Instrs {
					n++
					var val ssa.Value
					var where string
					switch x := in.(type) {
					case *ssa.Store:
						switch a := x.Addr.(type) {
						case *ssa.FieldAddr:
							val, where = x.Val, c.P.FieldKey(a)
						case *ssa.Global:
							val, where = x.Val, a.Name()
						}
					case *ssa.MapUpdate:
						val, where = x.Value, "a map"
					}
					if val == nil {
						continue
					}
					t := val.Type().String()
					if t == "*[]byte" || t == "[]byte" {
						bad = name + " stores a buffer into " + where + " at " + c.Pos(in) + ": the allocator would retain memory it handed out"
					}
				}
			}
		}
		c.Cond(bad == "", "C20.O4", "mempool: no retention of handed-out buffers", "", fmt.Sprintf("%d instructions scanned", n), bad)
	}
}

// lastStoresBefore walks backwards from the instruction and collects, per path,
// the nearest store through addr; bare reports a path that reaches the
// definition of addr (or the function entry) without any.
func lastStoresBefore(at ssa.Instruction, addr ssa.Value) (stores []*ssa.Store, bare bool) {
	seen := map[*ssa.BasicBlock]bool{}
	have := map[*ssa.Store]bool{}
	var walk func(b *ssa.BasicBlock, from int)
	walk = func(b *ssa.BasicBlock, from int) {
		for i := from; i >= 0; i-- {
			in := b.Instrs[i]
			if st, ok := in.(*ssa.Store); ok && st.Addr == addr {
				if !have[st] {
					have[st] = true
					stores = append(stores, st)
				}
				return
			}
			if v, ok := in.(ssa.Value); ok && v == addr {
				bare = true
				return
			}
		}
		if len(b.Preds) == 0 {
			bare = true
			return
		}
		for _, p := range b.Preds {
			if !seen[p] {
				seen[p] = true
				walk(p, len(p.Instrs)-1)
			}
		}
	}
	b := at.Block()
	idx := len(b.Instrs) - 1
	for i, in := range b.Instrs {
		if in == at {
			idx = i - 1
		}
	}
	walk(b, idx)
	return
}

// isSizeLike: v is the function's size argument or len(old)+len(more).
func isSizeLike(fn *ssa.Function, v ssa.Value) bool {
	r := ir.Resolve(v)
	for _, p := range fn.Params {
		if r == ssa.Value(p) && p.Type().String() == "int" {
			return true
		}
	}
	if b, ok := r.(*ssa.BinOp); ok && b.Op == token.ADD {
		_, l1 := ir.IsLenOf(ir.Resolve(b.X))
		_, l2 := ir.IsLenOf(ir.Resolve(b.Y))
		return l1 && l2
	}
	return false
}

// isFreshOfSize: the pointer is the result of this allocator's Malloc(size-like).
func isFreshOfSize(c *Ctx, ptr ssa.Value, fn *ssa.Function) bool {
	call, ok := ptr.(*ssa.Call)
	if !ok {
		return false
	}
	name := c.P.CalleeName(&call.Call)
	if !strings.HasSuffix(name, ").Malloc") {
		return false
	}
	return isSizeLike(fn, call.Call.Args[len(call.Call.Args)-1])
}

// c20AlignedFreeFilter: O6.  alignedIndexes maps a size to the smallest class
// that holds it, and Malloc(n) re-slices a buffer of class(n) to n.  A buffer
// whose capacity is not itself a class size, filed under class(cap) >= cap, is
// later handed out for a request larger than its capacity.
func c20AlignedFreeFilter(c *Ctx) {
	fn := c.Fn("C20.O6", "(*mempool.AlignedAllocator).Free")
	if fn == nil {
		return
	}
	key := fnKey(c.P, fn, "only class-size capacities are pooled")
	d, err := eng.Decide(c.P, fn)
	if err != nil {
		c.Unres("C20.O6", key, err.Error())
		return
	}
	var put ssa.Instruction
	for _, cs := range c.P.CallsNamed(fn, "(*sync.Pool).Put") {
		put = cs.In
	}
	if put == nil {
		c.OK("C20.O6", key, c.FnPos(fn), "Free pools nothing")
		return
	}
	f := d.Block[put.Block()]
	leaves := d.Leaves(f)
	leaf := ""
	var others []string
	for _, l := range sortedKeys(leaves) {
		if strings.Contains(l, "cap(") && leaf == "" {
			leaf = l
		} else {
			others = append(others, l)
		}
	}
	if leaf == "" || len(others) > 3 {
		c.Unres("C20.O6", key, fmt.Sprintf("the filter depends on %v; expected the buffer's capacity (and at most a few flags)", sortedKeys(leaves)))
		return
	}
	min := c.pkgConstInt("mempool", "minAlignedBufferSize")
	max := c.pkgConstInt("mempool", "maxAlignedBufferSize")
	if min <= 0 || max < min {
		c.Unres("C20.O6", key, "class range constants not resolved")
		return
	}
	witness := ""
	n := 0
	for size := int64(0); size <= max+2*min; size++ {
		// other inputs of the filter (a nil guard, a flag) are tried both ways
		for bits := 0; bits < 1<<uint(len(others)); bits++ {
			n++
			env := eng.Env{leaf: size}
			for i, o := range others {
				env[o] = int64(bits >> uint(i) & 1)
			}
			got, err := d.Eval(f, env)
			if err != nil {
				c.Unres("C20.O6", key, err.Error())
				return
			}
			want := size >= min && size <= max && size&(size-1) == 0
			if got && !want && witness == "" {
				witness = fmt.Sprintf("a buffer of capacity %d is put into the pools although %d is not a class size: it is filed under the next larger class and a later Malloc of a size between %d and that class re-slices it beyond its capacity (panic), or hands out fewer bytes than the class promises", size, size, size+1)
			}
		}
	}
	c.ExhaustiveTbl["aligned Free filter"] = n
	c.Cond(witness == "", "C20.O6", key, c.FnPos(fn), fmt.Sprintf("filter evaluated on %d capacities: pooled => power of two in [%d,%d]", n, min, max), witness)
}
