package props

import (
	"fmt"
	"go/ast"
	"go/constant"
	"go/token"
	"go/types"
	"strings"

	"golang.org/x/tools/go/packages"
	"golang.org/x/tools/go/ssa"

	"verif/internal/ir"
)

func init() {
	register(&Property{
		ID:          "C07",
		Engines:     []string{"cfg"},
		Explanation: "Agreement with net/http is a differential property over generated messages and has no static oracle as a whole; six clauses are table / decision / sibling agreement and are decided against net/http's source as loaded for this build (never linked or run): the token alphabets of nbhttp and the WebSocket handshake parser equal httpguts.isTokenTable on all 256 bytes (O1); chunk sizes are parsed with radix 16 and Content-Length with radix 10, both with bit size <= 63 (O2); chunked framing removes Content-Length, trailers are parsed only when chunked, and the trailer names Transfer-Encoding / Trailer / Content-Length are rejected (O3); the connection-persistence decision of ServerProcessor.OnComplete equals net/http's shouldClose: major<1 -> close; 1.0 -> hasClose || !keepAlive; else hasClose (O4); every header / trailer value is captured on the CR edge only, so the four value states agree with net/http's line-end extent (O5); both trailer value states check the delivered name off the declared set (O6). Header value lists own their capacity (O11); pooled objects are not recycled from exported methods of their type (O12). All Connection lines are read (O13); names come from http.CanonicalHeaderKey (O14). HEAD responses end at the head: method record from Do to the no-body decision, consumed in order (O17); a method is any token, reported as sent (O18).",
		NotCovered:  "everything else in the statement: header multimap, body bytes, optional whitespace around values (excluded by the property), message boundaries",
		Run:         runC07,
	})
}

// boolTable evaluates a [N]bool composite literal variable of a loaded package.
func boolTable(pk *packages.Package, name string) (map[int64]bool, int, error) {
	if pk == nil {
		return nil, 0, fmt.Errorf("package not loaded")
	}
	for _, f := range pk.Syntax {
		for _, d := range f.Decls {
			gd, ok := d.(*ast.GenDecl)
			if !ok || gd.Tok != token.VAR {
				continue
			}
			for _, sp := range gd.Specs {
				vs := sp.(*ast.ValueSpec)
				for i, n := range vs.Names {
					if n.Name != name || i >= len(vs.Values) {
						continue
					}
					cl, ok := vs.Values[i].(*ast.CompositeLit)
					if !ok {
						return nil, 0, fmt.Errorf("%s is not a composite literal", name)
					}
					out := map[int64]bool{}
					for _, e := range cl.Elts {
						kv, ok := e.(*ast.KeyValueExpr)
						if !ok {
							return nil, 0, fmt.Errorf("%s has positional elements", name)
						}
						kt, vt := pk.TypesInfo.Types[kv.Key], pk.TypesInfo.Types[kv.Value]
						if kt.Value == nil || vt.Value == nil {
							return nil, 0, fmt.Errorf("%s has a non-constant element", name)
						}
						k, _ := constant.Int64Val(constant.ToInt(kt.Value))
						out[k] = constant.BoolVal(vt.Value)
					}
					return out, len(cl.Elts), nil
				}
			}
		}
	}
	return nil, 0, fmt.Errorf("variable %s not found", name)
}

func runC07(c *Ctx) {
	c.Rule("C07.O1", "E9", "nbhttp.tokenCharMap and websocket.isTokenOctet equal httpguts.isTokenTable on all 256 byte values", 2)
	c.Rule("C07.O2", "E9", "chunk size: ParseInt(_, 16, <=63); Content-Length: ParseInt(_, 10, <=63)", 2)
	c.Rule("C07.O3", "E4", "chunked=true implies delete(Content-Length); parseTrailer returns at once unless chunked; trailer names Transfer-Encoding, Trailer, Content-Length are rejected in both the single and the comma-separated form", 3)
	c.Rule("C07.O5", "E4,E7", "every capture of a header value, trailer value or reason phrase (store of string(data[start:i]) to Parser.headerValue / Parser.status) is on the c == CR edge: the value states agree with net/http's line-end extent", 1)
	c.Rule("C07.O8", "E9", "the transition relation read off Parse contains the grammar's transitions for empty elements of well-formed messages: empty reason phrase, empty header value, empty trailer value, no body, no trailers", 1)
	c.Rule("C07.O6", "E7", "both trailer value states check the delivered name off the declared set before OnTrailerHeader", 1)
	c.Rule("C07.O7", "E4", "message-boundary hygiene: the framing decision (parseTransferEncoding, parseContentLength, parseTrailer, in this order) dominates every entry into the end-of-head state; parseContentLength assigns the length on every successful path; handleMessage resets chunked, header and trailer", 3)
	c.Rule("C07.O9", "E4", "token accumulators (proto, status, headerKey, headerValue) are cleared after they were delivered and before the next state is entered: they are filled only while empty, so a value left behind would be delivered again for the next message", 6)
	c.Rule("C07.O10", "E5", "strings handed to the processor are copies: Parse makes no unsafe conversion of the read buffer (the buffer is reused for the next read while handlers still hold the strings)", 1)
	c.Rule("C07.O11", "E2-escape", "a value list stored into a header multimap owns its spare capacity: it is the append to the key's own list, a fresh slice, or a slice capped at its length; never a window of a block shared with other keys (the append for a repeated name would overwrite a neighbour's value)", 1)
	c07HeaderLists(c)
	c.Rule("C07.O12", "E5", "a pooled nbhttp object (request, response, body reader) is recycled only by the library's own release path: no sync.Pool.Put of it is reachable from an exported method of its type, which the application may call while the library still holds the object and will release it again", 3)
	c07PoolRecyclers(c)
	c.Rule("C07.O13", "E5", "multi-line fields are decided over all their lines: the request's close decision does not read Connection through Header.Get (first line only), and every line is split into its comma-separated options", 2)
	c.Rule("C07.O14", "E5", "header and trailer names are canonicalised by net/http's own function: every non-empty value stored into Parser.headerKey is the direct result of http.CanonicalHeaderKey (a private fast path with a different word rule gives different map keys)", 4)
	c07NamesAndLines(c)
	c.Rule("C07.O15", "E4", "a 1xx, 204 or 304 response has no body whatever its framing fields say (a 304 may carry the Content-Length of the entity it stands for): the end-of-head state enters a body state only behind the !noBody test, noBody is computed from the status code where the code is parsed, and handleMessage resets it", 3)
	c07NoBodyStatuses(c)
	c.Rule("C07.O16", "E4", "all four forms of a request target reach OnURL (origin-, asterisk-, absolute- and authority-form; net/http accepts them all): the start of the target in statePathBefore is not restricted to '/' and '*'; and the request's Host is the target's host when the target names one, the Host field otherwise", 2)
	c07TargetForms(c)
	c.Rule("C07.O17", "E5,E4", "the answer to a HEAD request ends at its head: the client records the request's method when it queues the request, the record reaches the parser's no-body decision, and the records are consumed in request order", 3)
	c07HeadResponses(c)
	c.Rule("C07.O18", "E4", "a request method is any token and is reported as sent: the two method states decide by isToken alone, and OnMethod receives the bytes of the request line unconverted", 3)
	c07MethodIsAToken(c)
	c.Rule("C07.O4", "E8", "request.Close: major<1 -> true; 1.0 -> hasClose || !keepAlive; else hasClose, with hasClose / keepAlive set by the Connection values \"close\" / \"keep-alive\"", 1)

	// ------------------------------------------------------------------ O1
	{
		var ref *packages.Package
		for path, pk := range c.P.AllPkgs {
			if strings.HasSuffix(path, "golang.org/x/net/http/httpguts") {
				ref = pk
			}
		}
		want, nref, err := boolTable(ref, "isTokenTable")
		if err != nil {
			c.Unres("C07.O1", "httpguts.isTokenTable", "reference table not available: "+err.Error())
		} else {
			for _, t := range []struct{ pkg, name string }{{"nbhttp", "tokenCharMap"}, {"websocket", "isTokenOctet"}} {
				var pk *packages.Package
				for _, x := range c.P.Pkgs {
					if x.Name == t.pkg {
						pk = x
					}
				}
				got, n, err := boolTable(pk, t.name)
				key := t.pkg + "." + t.name + " == httpguts.isTokenTable"
				if err != nil {
					c.Unres("C07.O1", key, err.Error())
					continue
				}
				bad := ""
				for b := int64(0); b < 256; b++ {
					if got[b] != want[b] {
						bad = fmt.Sprintf("byte %#02x (%q): %s says token=%v, net/http says %v", b, rune(b), t.name, got[b], want[b])
						break
					}
				}
				c.ExhaustiveTbl[t.name+" bytes compared"] = 256
				c.Cond(bad == "", "C07.O1", key, "", fmt.Sprintf("256 bytes agree (%d / %d literal entries)", n, nref), bad)
			}
		}
	}

	// ------------------------------------------------------------------ O2
	for _, t := range []struct {
		fn    string
		radix int64
		what  string
	}{{"nbhttp.parseAndValidateChunkSize", 16, "chunk size"}, {"(*nbhttp.Parser).parseContentLength", 10, "Content-Length"}} {
		fn := c.Fn("C07.O2", t.fn)
		if fn == nil {
			continue
		}
		bad := "no ParseInt"
		for _, cs := range c.P.CallsNamed(fn, "strconv.ParseInt") {
			bad = ""
			r, _ := ir.ConstInt(cs.Common.Args[1])
			bits, _ := ir.ConstInt(cs.Common.Args[2])
			if r != t.radix {
				bad = fmt.Sprintf("%s is parsed with radix %d, RFC 7230 / net/http use %d", t.what, r, t.radix)
			} else if bits > 63 || bits <= 0 {
				bad = fmt.Sprintf("%s is parsed with bit size %d (must be 1..63 so that the value is a non-negative int64)", t.what, bits)
			}
		}
		c.Cond(bad == "", "C07.O2", fnKey(c.P, fn, t.what+" radix"), c.FnPos(fn), fmt.Sprintf("radix %d, <= 63 bits", t.radix), bad)
	}

	// ------------------------------------------------------------------ O3
	if te := c.Fn("C07.O3", "(*nbhttp.Parser).parseTransferEncoding"); te != nil {
		fi := c.P.Info(te)
		bad := "chunked is never chosen"
		for _, st := range c.P.StoresTo(te, "nbhttp.Parser.chunked") {
			if !isStoreTrue(st, c.P, "nbhttp.Parser.chunked") {
				continue
			}
			bad = "choosing chunked framing does not remove Content-Length: net/http lets chunked override Content-Length"
			for _, cs := range c.P.CallsNamed(te, "builtin:delete") {
				if s, ok := constString(cs.Common.Args[1]); ok && s == "Content-Length" {
					if fi.Dominates(cs.In, st) || fi.Dominates(st, cs.In) {
						bad = ""
					}
				}
			}
		}
		c.Cond(bad == "", "C07.O3", fnKey(c.P, te, "chunked overrides Content-Length"), c.FnPos(te), "delete(Content-Length) with chunked=true", bad)
	}
	if pt := c.Fn("C07.O3", "(*nbhttp.Parser).parseTrailer"); pt != nil {
		fi := c.P.Info(pt)
		// starts with the chunked test
		bad := ""
		i, isIf := pt.Blocks[0].Instrs[len(pt.Blocks[0].Instrs)-1].(*ssa.If)
		k, _, okB := "", false, false
		if isIf {
			k, _, okB = c.P.BoolFieldTest(i.Cond, true)
		}
		if !isIf || !okB || k != "nbhttp.Parser.chunked" {
			bad = "parseTrailer does not start with the chunked test: trailers would be expected after a Content-Length body"
		} else {
			vis, _ := fi.ReachFromEdge(i, edgeForTruth(i, false), nil)
			for in := range vis {
				if st, ok := in.(*ssa.Store); ok {
					if fa, ok := st.Addr.(*ssa.FieldAddr); ok && c.P.FieldKey(fa) == "nbhttp.Parser.trailer" {
						bad = "trailers are declared although the message is not chunked"
					}
				}
			}
		}
		c.Cond(bad == "", "C07.O3", fnKey(c.P, pt, "trailers only when chunked"), c.FnPos(pt), "!chunked returns at once", bad)
		// rejected names: groups of string comparisons leading to an error return
		groups := 0
		bad = ""
		byTarget := map[*ssa.BasicBlock]map[string]bool{}
		for _, x := range fi.Ifs() {
			b, ok := x.Cond.(*ssa.BinOp)
			if !ok || b.Op != token.EQL {
				continue
			}
			s, isS := constString(b.Y)
			if !isS {
				continue
			}
			tgt := x.Block().Succs[0]
			if byTarget[tgt] == nil {
				byTarget[tgt] = map[string]bool{}
			}
			byTarget[tgt][s] = true
		}
		for tgt, names := range byTarget {
			// the target returns an error
			isErr := false
			for _, in := range tgt.Instrs {
				if r, ok := in.(*ssa.Return); ok {
					if _, kind := c.retErr(fi, r); kind == "nonnil" {
						isErr = true
					}
				}
			}
			if !isErr {
				continue
			}
			groups++
			for _, w := range []string{"Transfer-Encoding", "Trailer", "Content-Length"} {
				if !names[w] {
					bad = "a declared trailer named " + w + " is not rejected (net/http's fixTrailer rejects it)"
				}
			}
		}
		if groups != 2 && bad == "" {
			bad = fmt.Sprintf("expected the rejection in both the single-name and the comma-separated form, found %d", groups)
		}
		c.Cond(bad == "", "C07.O3", fnKey(c.P, pt, "forbidden trailer names"), c.FnPos(pt), "Transfer-Encoding, Trailer, Content-Length rejected in both forms", bad)
	}

	// ------------------------------------------------------------------ O4
	if oc := c.Fn("C07.O4", "(*nbhttp.ServerProcessor).OnComplete"); oc != nil {
		c07ShouldClose(c, oc)
	}

	// ------------------------------------------------------------------ O5, O6
	if parse := c.Fn("C07.O5", "(*nbhttp.Parser).Parse"); parse != nil {
		fi := c.P.Info(parse)
		isCR := func(ft ir.Fact) bool {
			b, ok := ft.Cond.(*ssa.BinOp)
			if !ok || b.Op != token.EQL || !ft.Truth {
				return false
			}
			k, isK := ir.ConstInt(b.Y)
			return isK && k == '\r' && b.X.Type().String() == "byte"
		}
		n := 0
		bad := ""
		for _, b := range parse.Blocks {
			for _, in := range b.Instrs {
				st, ok := in.(*ssa.Store)
				if !ok {
					continue
				}
				fa, ok := st.Addr.(*ssa.FieldAddr)
				if !ok || (c.P.FieldKey(fa) != "nbhttp.Parser.headerValue" && c.P.FieldKey(fa) != "nbhttp.Parser.status") {
					continue
				}
				if _, isConst := st.Val.(*ssa.Const); isConst {
					continue
				}
				n++
				if !fi.HasFact(st, isCR) {
					bad = "a header / trailer value or reason phrase is cut at " + c.Pos(st) + " on a byte other than CR: net/http takes the field value up to the line end (inner spaces belong to the value)"
				}
			}
		}
		if n < 5 && bad == "" {
			bad = fmt.Sprintf("expected the value capture in the four value states and the status state, found %d", n)
		}
		c.Cond(bad == "", "C07.O5", fnKey(c.P, parse, "field value ends at CR only"), c.FnPos(parse), fmt.Sprintf("%d captures, all on the c == CR edge", n), bad)

		n = 0
		bad = ""
		for _, cs := range c.P.CallsNamed(parse, "invoke:nbhttp.Processor.OnTrailerHeader") {
			n++
			ok := false
			for _, d := range c.P.CallsNamed(parse, "builtin:delete") {
				if a, isLoad := ir.IsLoad(ir.Resolve(d.Common.Args[0])); isLoad {
					if fa, isFA := a.(*ssa.FieldAddr); isFA && c.P.FieldKey(fa) == "nbhttp.Parser.trailer" && fi.Dominates(d.In, cs.In) {
						ok = true
					}
				}
			}
			if !ok {
				bad = "the trailer line delivered at " + c.Pos(cs.In) + " is not checked off the declared set (delete(p.trailer, key)): a declared trailer that arrives this way makes the message fail with ErrTrailerExpected although net/http accepts it"
			}
		}
		if n < 2 && bad == "" {
			bad = fmt.Sprintf("expected OnTrailerHeader in both trailer value states, found %d", n)
		}
		c.Cond(bad == "", "C07.O6", fnKey(c.P, parse, "every delivered trailer is checked off"), c.FnPos(parse), fmt.Sprintf("%d delivery sites dominated by delete(p.trailer, key)", n), bad)
	}
	// ------------------------------------------------------------------ O7
	if parse := c.Fn("C07.O7", "(*nbhttp.Parser).Parse"); parse != nil {
		fi := c.P.Info(parse)
		over := c.stateConsts()["stateHeaderOverLF"]
		n := 0
		bad := ""
		for _, cs := range c.P.CallsNamed(parse, "(*nbhttp.Parser).nextState") {
			if k, ok := ir.ConstInt(cs.Common.Args[1]); !ok || k != over {
				continue
			}
			n++
			var prev ssa.Instruction
			for _, name := range []string{"parseTransferEncoding", "parseContentLength", "parseTrailer"} {
				var found ssa.Instruction
				for _, d := range c.P.CallsNamed(parse, "(*nbhttp.Parser)."+name) {
					if fi.Dominates(d.In, cs.In) && (prev == nil || fi.Dominates(prev, d.In)) {
						found = d.In
					}
				}
				if found == nil {
					bad = "the head can end at " + c.Pos(cs.In) + " without " + name + " having run (in order): the message is framed with what the previous message left in the parser"
					break
				}
				prev = found
			}
		}
		if n == 0 {
			bad = "no transition into the end-of-head state found"
		}
		c.Cond(bad == "", "C07.O7", fnKey(c.P, parse, "framing decided for every message"), c.FnPos(parse), fmt.Sprintf("%d end-of-head transition(s) dominated by TE, CL, Trailer in order", n), bad)
	}
	if pcl := c.Fn("C07.O7", "(*nbhttp.Parser).parseContentLength"); pcl != nil {
		fi := c.P.Info(pcl)
		isStore := func(in ssa.Instruction) bool {
			st, ok := in.(*ssa.Store)
			if !ok {
				return false
			}
			fa, ok := st.Addr.(*ssa.FieldAddr)
			return ok && c.P.FieldKey(fa) == "nbhttp.Parser.contentLength"
		}
		bad := ""
		first := pcl.Blocks[0].Instrs[0]
		vis, _ := fi.Reach([]ssa.Instruction{first}, isStore)
		nret := 0
		for _, r := range fi.Returns() {
			if !ir.IsNilConst(ir.RetVals(r)[0]) {
				continue
			}
			nret++
			if vis[r] && !isStore(first) {
				bad = "parseContentLength can succeed (return at " + c.Pos(r) + ") without assigning Parser.contentLength: the previous message's length frames this one"
			}
		}
		if nret == 0 {
			bad = "no successful return found"
		}
		c.Cond(bad == "", "C07.O7", fnKey(c.P, pcl, "length assigned on every successful path"), c.FnPos(pcl), fmt.Sprintf("%d successful return(s)", nret), bad)
	}
	if hm := c.Fn("C07.O7", "(*nbhttp.Parser).handleMessage"); hm != nil {
		reset := map[string]bool{}
		for _, b := range hm.Blocks {
			for _, in := range b.Instrs {
				st, ok := in.(*ssa.Store)
				if !ok {
					continue
				}
				fa, ok := st.Addr.(*ssa.FieldAddr)
				if !ok || b != hm.Blocks[0] {
					continue
				}
				if k, isK := st.Val.(*ssa.Const); isK && (k.IsNil() || (k.Value != nil && k.Value.String() == "false")) {
					reset[c.P.FieldKey(fa)] = true
				}
			}
		}
		var missing []string
		for _, f := range []string{"nbhttp.Parser.chunked", "nbhttp.Parser.header", "nbhttp.Parser.trailer"} {
			if !reset[f] {
				missing = append(missing, f)
			}
		}
		c.Cond(len(missing) == 0, "C07.O7", fnKey(c.P, hm, "per-message state reset"), c.FnPos(hm), "chunked=false, header=nil, trailer=nil unconditionally", fmt.Sprintf("handleMessage does not reset %v: the next message on the connection inherits it", missing))
	}
	if parse := c.Fn("C07.O8", "(*nbhttp.Parser).Parse"); parse != nil {
		got := c.stateTransitions(parse)
		var missing []string
		for _, t := range []string{
			"stateStatusBefore -> stateStatusLF",
			"stateHeaderValueBefore -> stateHeaderValueLF",
			"stateBodyTrailerHeaderValueBefore -> stateBodyTrailerHeaderValueLF",
			"stateHeaderOverLF -> (message complete)",
			"stateBodyChunkSizeLF -> stateTailCR",
		} {
			if !got[t] {
				missing = append(missing, t)
			}
		}
		c.Cond(len(missing) == 0, "C07.O8", fnKey(c.P, parse, "empty elements of well-formed messages"), c.FnPos(parse), "5 required transitions present",
			fmt.Sprintf("Parse has no transition %v: a well-formed message with that element empty (which net/http accepts) is not framed the way net/http frames it", missing))
	}
	if parse := c.Fn("C07.O9", "(*nbhttp.Parser).Parse"); parse != nil {
		fi := c.P.Info(parse)
		acc := map[string]bool{"nbhttp.Parser.proto": true, "nbhttp.Parser.status": true, "nbhttp.Parser.headerKey": true, "nbhttp.Parser.headerValue": true}
		n := 0
		for _, cs := range c.P.Calls(parse, func(name string, _ ir.CallSite) bool { return strings.HasPrefix(name, "invoke:nbhttp.Processor.On") }) {
			if cs.In.Parent() != parse {
				continue
			}
			for _, a := range cs.Common.Args {
				f := c.P.LoadedField(ir.Resolve(a))
				if !acc[f] {
					continue
				}
				n++
				key := fmt.Sprintf("%s: %s after %s#%d", c.P.FuncName(parse), f, strings.TrimPrefix(c.P.CalleeName(cs.Common), "invoke:nbhttp.Processor."), n)
				isClear := func(in ssa.Instruction) bool {
					st, ok := in.(*ssa.Store)
					if !ok {
						return false
					}
					fa, ok := st.Addr.(*ssa.FieldAddr)
					if !ok || c.P.FieldKey(fa) != f {
						return false
					}
					k, isK := st.Val.(*ssa.Const)
					return isK && k.Value != nil && k.Value.String() == `""`
				}
				vis, _ := fi.Reach([]ssa.Instruction{cs.In}, isClear)
				bad := ""
				for in := range vis {
					if c.isCallTo(in, "(*nbhttp.Parser).nextState", "(*nbhttp.Parser).handleMessage") {
						bad = f + " is delivered at " + c.Pos(cs.In) + " and the next state is entered at " + c.Pos(in) + " without clearing it: the accumulator is filled only while empty, so the next message on the connection is delivered with this message's value"
					}
				}
				c.Cond(bad == "", "C07.O9", key, c.Pos(cs.In), "cleared before the next state", bad)
			}
		}
		if n == 0 {
			c.Unres("C07.O9", "accumulator deliveries", "none found")
		}
		// O10: no unsafe conversions in Parse's own body
		bad := ""
		for _, b := range parse.Blocks {
			for _, in := range b.Instrs {
				if cv, ok := in.(*ssa.Convert); ok {
					if cv.Type().String() == "unsafe.Pointer" || cv.X.Type().String() == "unsafe.Pointer" {
						bad = "Parse converts through unsafe.Pointer at " + c.Pos(in) + ": a zero-copy view of the read buffer handed to the processor changes under the handler when the buffer is reused for the next read"
					}
				}
			}
		}
		c.Cond(bad == "", "C07.O10", fnKey(c.P, parse, "no zero-copy strings"), c.FnPos(parse), "no unsafe conversion in the parse loop", bad)
	}
}

// c07ShouldClose: the three stores to request.Close.
func c07ShouldClose(c *Ctx, oc *ssa.Function) {
	fi := c.P.Info(oc)
	key := fnKey(c.P, oc, "connection persistence == net/http shouldClose")
	const fClose = "net/http.Request.Close"
	// identify hasClose / keepAlive: bool phis whose `true` edge comes from the block entered on == "close" / "keep-alive"
	flagOf := func(v ssa.Value) string {
		seen := map[ssa.Value]bool{}
		var rec func(x ssa.Value) string
		rec = func(x ssa.Value) string {
			x = ir.Resolve(x)
			if seen[x] {
				return ""
			}
			seen[x] = true
			phi, ok := x.(*ssa.Phi)
			if !ok {
				return ""
			}
			res := ""
			for i, e := range phi.Edges {
				if b, isB := ir.ConstBool(e); isB && b {
					pred := phi.Block().Preds[i]
					for _, ft := range fi.FactsOnEdge(pred, phi.Block()) {
						if bo, ok := ft.Cond.(*ssa.BinOp); ok && bo.Op == token.EQL && ft.Truth {
							if s, isS := constString(bo.Y); isS {
								res = s
							}
						}
					}
					continue
				}
				if _, isB := ir.ConstBool(e); isB {
					continue
				}
				if r := rec(e); r != "" {
					res = r
				}
			}
			return res
		}
		return rec(v)
	}
	stores := c.P.StoresTo(oc, fClose)
	if len(stores) != 3 {
		c.Bad("C07.O4", key, c.FnPos(oc), fmt.Sprintf("expected three assignments of request.Close (major<1, HTTP/1.0, other), found %d", len(stores)))
		return
	}
	bad := ""
	seen := map[string]bool{}
	for _, st := range stores {
		majLo, majHi := fi.IntervalAt(st, loadOfField(c, oc, st, "net/http.Request.ProtoMajor"))
		_ = majLo
		switch {
		case majHi != ir.PosInf && majHi < 1:
			seen["old"] = true
			if b, ok := ir.ConstBool(st.Val); !ok || !b {
				bad = "for HTTP major < 1 the connection is not closed"
			}
		default:
			// 1.0 or other: inspect the value
			v := ir.Resolve(st.Val)
			if f := flagOf(v); f == "close" {
				// plain hasClose: must not be on the (major==1 && minor==0) edge
				is10 := fi.HasFact(st, func(ft ir.Fact) bool {
					cmp, ok := ir.DecodeIntCmp(ft.Cond)
					return ok && c.P.LoadedField(cmp.Expr) == "net/http.Request.ProtoMinor" && cmp.Holds(0) == ft.Truth && !cmp.NotEq && ft.Truth
				})
				if is10 {
					bad = "for HTTP/1.0 the decision ignores keep-alive (net/http: hasClose || !keepAlive)"
				}
				seen["other"] = true
				continue
			}
			// hasClose || !keepAlive : phi [true (from `if hasClose`), !keepAlive]
			phi, ok := v.(*ssa.Phi)
			okShape := false
			if ok && len(phi.Edges) == 2 {
				var sawTrue, sawNotKA bool
				for i, e := range phi.Edges {
					if b, isB := ir.ConstBool(e); isB && b {
						// this edge is taken when hasClose is true
						pred := phi.Block().Preds[i]
						if x, isIf := pred.Instrs[len(pred.Instrs)-1].(*ssa.If); isIf && flagOf(x.Cond) == "close" {
							sawTrue = true
						}
						continue
					}
					if u, isU := ir.Resolve(e).(*ssa.UnOp); isU && u.Op == token.NOT && flagOf(u.X) == "keep-alive" {
						sawNotKA = true
					}
				}
				okShape = sawTrue && sawNotKA
			}
			if !okShape {
				bad = "request.Close is assigned " + c.P.Desc(st.Val) + ", which is neither hasClose nor hasClose || !keepAlive"
				continue
			}
			is10 := fi.HasFact(st, func(ft ir.Fact) bool {
				cmp, ok := ir.DecodeIntCmp(ft.Cond)
				return ok && c.P.LoadedField(cmp.Expr) == "net/http.Request.ProtoMinor" && !cmp.NotEq && cmp.Holds(0) && ft.Truth
			}) && fi.HasFact(st, func(ft ir.Fact) bool {
				cmp, ok := ir.DecodeIntCmp(ft.Cond)
				return ok && c.P.LoadedField(cmp.Expr) == "net/http.Request.ProtoMajor" && !cmp.NotEq && cmp.Holds(1) && cmp.TrueSet.Lo == 1 && cmp.TrueSet.Hi == 1 && ft.Truth
			})
			if !is10 {
				bad = "hasClose || !keepAlive is applied outside HTTP/1.0 (net/http: only for major==1 && minor==0)"
			}
			seen["1.0"] = true
		}
	}
	if bad == "" && !(seen["old"] && seen["1.0"] && seen["other"]) {
		bad = fmt.Sprintf("the three cases of shouldClose are not all present: %v", seen)
	}
	c.ExhaustiveTbl["shouldClose cases"] = 3
	c.Cond(bad == "", "C07.O4", key, c.FnPos(oc), "major<1 -> true; 1.0 -> hasClose || !keepAlive; else hasClose", bad)
}

// loadOfField finds a load of the field that dominates `at` (used to read an
// interval for a field value that is loaded once and compared).
func loadOfField(c *Ctx, fn *ssa.Function, at ssa.Instruction, field string) ssa.Value {
	fi := c.P.Info(fn)
	for _, ft := range fi.Facts(at) {
		if cmp, ok := ir.DecodeIntCmp(ft.Cond); ok && c.P.LoadedField(cmp.Expr) == field {
			return cmp.Expr
		}
	}
	return nil
}

// c07HeaderLists: O11.  net/http's multimap gives every key its own value
// list.  A list that is a 2-index window of a shared block still has the
// block's capacity behind it, so the append for a repeated header name writes
// into the slot that was handed to another key.
func c07HeaderLists(c *Ctx) {
	n := 0
	for _, f := range c.pkgFuncs("nbhttp") {
		k := 0
		for _, b := range f.Blocks {
			for _, in := range b.Instrs {
				mu, ok := in.(*ssa.MapUpdate)
				if !ok {
					continue
				}
				mt, ok := mu.Map.Type().Underlying().(*types.Map)
				if !ok || mt.Elem().Underlying().String() != "[]string" {
					continue
				}
				n++
				k++
				key := fmt.Sprintf("%s: header list store#%d", c.P.FuncName(f), k)
				bad := ""
				var walk func(v ssa.Value, depth int)
				seen := map[ssa.Value]bool{}
				walk = func(v ssa.Value, depth int) {
					if seen[v] || depth > 6 {
						return
					}
					seen[v] = true
					switch x := v.(type) {
					case *ssa.Phi:
						for _, e := range x.Edges {
							walk(e, depth+1)
						}
					case *ssa.Slice:
						if x.Max != nil {
							return
						}
						if _, fresh := ir.Root(x.X).(*ssa.Alloc); fresh {
							return
						}
						if _, mk := x.X.(*ssa.MakeSlice); mk {
							return
						}
						bad = "the list stored at " + c.Pos(in) + " is a window (" + c.P.Desc(x) + ") of a longer slice without a capacity limit: the append for a repeated header name writes into storage that belongs to another key"
					case *ssa.ChangeType:
						walk(x.X, depth+1)
					}
				}
				walk(mu.Value, 0)
				c.Cond(bad == "", "C07.O11", key, c.Pos(in), "append result, fresh slice or capped slice", bad)
			}
		}
	}
}

// c07PoolRecyclers: O12.  The request keeps pointing to its body reader (and
// the connection to its response) until the library releases them after the
// handler.  If a method the handler may call (Body.Close) already puts the
// object back, another connection's parser gets it while the first request
// still refers to it, and the later library release wipes the other request's
// body.
func c07PoolRecyclers(c *Ctx) {
	scope := c.pkgFuncs("nbhttp")
	n := 0
	for _, f := range scope {
		for _, cs := range c.P.CallsNamed(f, "(*sync.Pool).Put") {
			if len(cs.Common.Args) < 2 {
				continue
			}
			mi, ok := cs.Common.Args[1].(*ssa.MakeInterface)
			if !ok {
				continue
			}
			t := mi.X.Type()
			n++
			key := fmt.Sprintf("%s: Put(%s)", c.P.FuncName(ir.Outermost(f)), types.TypeString(t, func(p *types.Package) string { return p.Name() }))
			reach := c.reachers(map[*ssa.Function]bool{ir.Outermost(f): true}, scope)
			bad := ""
			ms := c.P.SSA.MethodSets.MethodSet(t)
			for i := 0; i < ms.Len(); i++ {
				sel := ms.At(i)
				if !sel.Obj().Exported() {
					continue
				}
				m := c.P.SSA.MethodValue(sel)
				if m == nil || !c.P.InModule(m) {
					continue
				}
				if reach[m] {
					bad = "the exported method " + c.P.FuncName(m) + " reaches the pool Put at " + c.Pos(cs.In) + ": the application can recycle the object while the library still refers to it (and releases it again after the handler), so another connection receives an object that is wiped under it"
				}
			}
			c.Cond(bad == "", "C07.O12", key, c.Pos(cs.In), "not reachable from an exported method of the pooled type", bad)
		}
	}
}

// c07NamesAndLines: O13, O14.
func c07NamesAndLines(c *Ctx) {
	if oc := c.Fn("C07.O13", "(*nbhttp.ServerProcessor).OnComplete"); oc != nil {
		bad := ""
		for _, cs := range c.P.Calls(oc, func(name string, _ ir.CallSite) bool { return strings.HasSuffix(name, "Header).Get") }) {
			if k, ok := constString(cs.Common.Args[len(cs.Common.Args)-1]); ok && strings.EqualFold(k, "Connection") {
				bad = "the close decision reads Connection with Header.Get at " + c.Pos(cs.In) + ", which returns the first field line only: a close (or keep-alive) option on a later Connection line is ignored, unlike net/http"
			}
		}
		c.Cond(bad == "", "C07.O13", fnKey(c.P, oc, "all Connection lines"), c.FnPos(oc), "Connection is not read through Header.Get", bad)
		// each line is a list: the compared option comes out of strings.Split(line, ",")
		split := false
		for _, cs := range c.P.CallsNamed(oc, "strings.ToLower") {
			dep := map[ssa.Value]bool{}
			for _, sp := range c.P.CallsNamed(oc, "strings.Split") {
				if sep, ok := constString(sp.Common.Args[1]); ok && sep == "," {
					for v := range c.dependsOn(oc, sp.Value()) {
						dep[v] = true
					}
				}
			}
			arg := cs.Common.Args[0]
			for i := 0; i < 3; i++ {
				if call, ok := ir.Resolve(arg).(*ssa.Call); ok && strings.HasPrefix(c.P.CalleeName(&call.Call), "strings.Trim") {
					arg = call.Call.Args[0]
				}
			}
			if dep[arg] || dep[ir.Resolve(arg)] {
				split = true
			}
		}
		c.Cond(split, "C07.O13", fnKey(c.P, oc, "Connection options split on commas"), c.FnPos(oc), "the option compared with close / keep-alive is an element of strings.Split(line, \",\")",
			"the close decision compares whole Connection field lines with \"close\" / \"keep-alive\": 'Connection: close, TE' keeps the connection open and 'Connection: keep-alive, TE' (HTTP/1.0) closes it, unlike net/http, which reads the field as a comma-separated list")
	}
	if parse := c.Fn("C07.O14", "(*nbhttp.Parser).Parse"); parse != nil {
		n := 0
		for _, f := range ir.WithClosures(parse) {
			for _, st := range c.P.StoresTo(f, "nbhttp.Parser.headerKey") {
				if s, ok := constString(st.Val); ok && s == "" {
					continue
				}
				n++
				key := fmt.Sprintf("%s: headerKey store#%d", c.P.FuncName(parse), n)
				call, isCall := ir.Resolve(st.Val).(*ssa.Call)
				ok := isCall && (c.P.CalleeName(&call.Call) == "net/http.CanonicalHeaderKey" || c.P.CalleeName(&call.Call) == "net/textproto.CanonicalMIMEHeaderKey")
				c.Cond(ok, "C07.O14", key, c.Pos(st), "http.CanonicalHeaderKey(...)",
					"the header name stored at "+c.Pos(st)+" is "+c.P.Desc(ir.Resolve(st.Val))+", not the direct result of http.CanonicalHeaderKey: names that net/http canonicalises differently (a capital after '_', '.', ...) end up under another map key, and a declared trailer of that name is never matched")
			}
		}
	}
}

// c07NoBodyStatuses: O15.
func c07NoBodyStatuses(c *Ctx) {
	const fNoBody = "nbhttp.Parser.noBody"
	parse := c.Fn("C07.O15", "(*nbhttp.Parser).Parse")
	if parse == nil {
		return
	}
	byName := c.stateConsts()
	consts := map[int64]string{}
	for name, k := range byName {
		consts[k] = name
	}
	fi := c.P.Info(parse)
	// entries into the two body states from the end-of-head state
	n := 0
	bad := ""
	for _, cs := range c.P.CallsNamed(parse, "(*nbhttp.Parser).nextState") {
		k, ok := ir.ConstInt(cs.Common.Args[1])
		if !ok {
			continue
		}
		name := consts[k]
		if name != "stateBodyContentLength" && name != "stateBodyChunkSizeBefore" {
			continue
		}
		// only the entries from the end-of-head state
		if eb := c.stateCases(parse)[byName["stateHeaderOverLF"]]; eb == nil || len(eb.Instrs) == 0 || !fi.Dominates(eb.Instrs[0], cs.In) {
			continue
		}
		n++
		if !fi.HasFact(cs.In, func(ft ir.Fact) bool {
			f, set, ok := c.P.BoolFieldTest(ft.Cond, ft.Truth)
			return ok && f == fNoBody && !set
		}) {
			bad = "the parser enters " + name + " at " + c.Pos(cs.In) + " without knowing that the message may carry a body: a 304 response with a Content-Length (well-formed: the length of the entity it stands for) swallows the first bytes of the next response as its body"
		}
	}
	c.Cond(bad == "" && n > 0, "C07.O15", fnKey(c.P, parse, "body states behind !noBody"), c.FnPos(parse), fmt.Sprintf("%d entries into a body state, each behind !noBody", n), bad)
	// computed from the status code
	fromCode := false
	for _, st := range c.P.StoresTo(parse, fNoBody) {
		dep := map[ssa.Value]bool{}
		for _, cs := range c.P.CallsNamed(parse, "strconv.Atoi") {
			for v := range c.dependsOn(parse, cs.Value()) {
				dep[v] = true
			}
		}
		if dep[st.Val] || dep[ir.Resolve(st.Val)] {
			fromCode = true
		}
	}
	c.Cond(fromCode, "C07.O15", fnKey(c.P, parse, "noBody computed from the status code"), c.FnPos(parse), "store of an expression over the parsed code", "Parser.noBody is not computed from the parsed status code")
	if hm := c.Fn("C07.O15", "(*nbhttp.Parser).handleMessage"); hm != nil {
		reset := false
		for _, st := range c.P.StoresTo(hm, fNoBody) {
			if b, ok := ir.ConstBool(st.Val); ok && !b {
				reset = true
			}
		}
		c.Cond(reset, "C07.O15", fnKey(c.P, hm, "noBody reset per message"), c.FnPos(hm), "noBody = false", "handleMessage does not reset Parser.noBody: the next response on the connection inherits it and loses its body")
	}
}

// c07TargetForms: O16.
func c07TargetForms(c *Ctx) {
	if parse := c.Fn("C07.O16", "(*nbhttp.Parser).Parse"); parse != nil {
		fi := c.P.Info(parse)
		byName := c.stateConsts()
		eb := c.stateCases(parse)[byName["statePathBefore"]]
		bad := "no entry into statePath from statePathBefore"
		for _, cs := range c.P.CallsNamed(parse, "(*nbhttp.Parser).nextState") {
			k, ok := ir.ConstInt(cs.Common.Args[1])
			if !ok || k != byName["statePath"] || eb == nil || len(eb.Instrs) == 0 || !fi.Dominates(eb.Instrs[0], cs.In) {
				continue
			}
			if bad == "no entry into statePath from statePathBefore" {
				bad = ""
			}
			isStartByte := func(ft ir.Fact) bool {
				cmp, ok := ir.DecodeIntCmp(ft.Cond)
				if !ok || cmp.NotEq || !ft.Truth || cmp.TrueSet.Lo != cmp.TrueSet.Hi {
					return false
				}
				return cmp.TrueSet.Lo == '/' || cmp.TrueSet.Lo == '*'
			}
			// every way from the case's entry to the call carries c == '/' or c == '*'
			restricted := true
			target := cs.In.Block()
			var dfs func(b *ssa.BasicBlock, has bool, depth int, seen map[*ssa.BasicBlock]bool)
			dfs = func(b *ssa.BasicBlock, has bool, depth int, seen map[*ssa.BasicBlock]bool) {
				if b == target {
					if !has {
						restricted = false
					}
					return
				}
				if depth > 16 || seen[b] {
					return
				}
				seen[b] = true
				defer delete(seen, b)
				for _, su := range b.Succs {
					h := has
					if i, ok := b.Instrs[len(b.Instrs)-1].(*ssa.If); ok && b.Succs[0] != b.Succs[1] {
						k := 0
						if b.Succs[1] == su {
							k = 1
						}
						cnd, t := ir.StripNot(i.Cond, k == 0)
						if isStartByte(ir.Fact{If: i, Cond: cnd, Truth: t}) {
							h = true
						}
						// `c == '/' || c == '*'` written as one condition: a phi of its disjuncts
						if phi, isPhi := cnd.(*ssa.Phi); isPhi && t && phi.Comment == "||" {
							all := len(phi.Edges) > 0
							for ei, e := range phi.Edges {
								dc := e
								if kb, isK := ir.ConstBool(e); isK && kb {
									pb := phi.Block().Preds[ei]
									if pi, ok := pb.Instrs[len(pb.Instrs)-1].(*ssa.If); ok {
										dc = pi.Cond
									}
								}
								if !isStartByte(ir.Fact{Cond: dc, Truth: true}) {
									all = false
								}
							}
							if all {
								h = true
							}
						}
					}
					dfs(su, h, depth+1, seen)
				}
			}
			dfs(eb, false, 0, map[*ssa.BasicBlock]bool{})
			if restricted {
				bad = "the request target may only start with '/' or '*' (" + c.Pos(cs.In) + "): an absolute-form target (GET http://host/path, what a proxy receives) and the authority-form of CONNECT are rejected as invalid, although net/http accepts them"
			}
		}
		c.Cond(bad == "", "C07.O16", fnKey(c.P, parse, "target start not restricted"), c.FnPos(parse), "any visible byte starts the target", bad)
	}
	if oc := c.Fn("C07.O16", "(*nbhttp.ServerProcessor).OnComplete"); oc != nil {
		fi := c.P.Info(oc)
		onEmpty, onSet := false, false
		for _, st := range c.P.StoresTo(oc, "net/http.Request.Host") {
			for _, ft := range fi.Facts(st) {
				b, ok := ft.Cond.(*ssa.BinOp)
				if !ok || (b.Op != token.EQL && b.Op != token.NEQ) {
					continue
				}
				if s, isS := constString(b.Y); !isS || s != "" || c.P.LoadedField(ir.Resolve(b.X)) != "net/url.URL.Host" {
					continue
				}
				if (b.Op == token.EQL) == ft.Truth {
					onEmpty = true
				} else {
					onSet = true
				}
			}
		}
		c.Cond(onEmpty && onSet, "C07.O16", fnKey(c.P, oc, "Host on both edges of URL.Host"), c.FnPos(oc), "Request.Host assigned when the target has a host and when it has none",
			"Request.Host is assigned only when the target has no host: for an absolute-form or authority-form target it stays empty, where net/http sets it to the target's host")
	}
}
