package props

import (
	"fmt"
	"go/constant"
	"go/token"
	"go/types"
	"os"
	"sort"
	"strings"

	"golang.org/x/tools/go/ssa"

	"verif/internal/ir"
)

func init() {
	register(&Property{
		ID:          "C08",
		Engines:     []string{"cfg"},
		Explanation: "HTTP parser robustness, structural part: every call of a parse entry point tests the returned error and its failure edge closes the connection or leaves the read loop into the closing defer (O1); the carry-buffer append is unreachable without passing the read-limit test, and the body reader's accounting and allocations without passing the body-size test on len(data)+left (O2); every ParseInt/Atoi failure in the parser reaches a non-nil error return, the stored lengths are dominated by the <0 and >MaxInt rejections, chunked is set only for exactly one Transfer-Encoding value equal to chunked (O3); every declared parser state has a case in Parse's state switch (O4); in the ten CR/LF states the only alternatives are the expected byte or a non-nil error return (O5); Parse and the data handlers defer a recover() frame, Parse's also releases the mutex (O6); error returns in the parse loop are not preceded by a processor callback after the detecting comparison and stateClose short-circuits at entry (O7). The transition relation read off Parse equals the frozen grammar table (O8). Chunk-size line grammar on all 256 bytes (O10); Content-Length digits only, repeats agree, empty refused (O11); an error is final (O12).",
		NotCovered:  "absence of panics as such (index safety of the state machine is value-level; only containment is decided), termination/progress of the loop index, allocator traffic",
		Run:         runC08,
	})
}

const fnParse = "(*nbhttp.Parser).Parse"

// parseEntryCall recognises a call of a parse entry point.
func (c *Ctx) parseEntryCall(cs ir.CallSite) bool {
	if cs.Kind != "call" {
		return false
	}
	n := c.P.CalleeName(cs.Common)
	switch n {
	case "invoke:nbhttp.ParserCloser.Parse", "(*nbhttp.Parser).Parse", "(*websocket.Conn).Parse":
		return true
	}
	return false
}

// closesConn recognises calls that close / fail the connection.
func (c *Ctx) closesConn(in ssa.Instruction) bool {
	cs, ok := ir.AsCall(in)
	if !ok || cs.Kind != "call" {
		return false
	}
	n := c.P.CalleeName(cs.Common)
	for _, suf := range []string{".CloseWithError", ".Close", ".CloseAndClean", ".closeWithError"} {
		if strings.HasSuffix(n, suf) {
			return true
		}
	}
	return false
}

// parseErrReaction is the accepted reaction to a parse error at a read path.
func (c *Ctx) parseErrReaction(fn *ssa.Function) errReaction {
	// does fn defer a closure that closes / cleans the connection?
	closingDefer := false
	for _, cs := range c.P.Calls(fn, nil) {
		if cs.Kind != "defer" {
			continue
		}
		if callee := ir.StaticCallee(cs.Common); callee != nil {
			for _, g := range ir.WithClosures(callee) {
				for _, b := range g.Blocks {
					for _, in := range b.Instrs {
						if c.closesConn(in) {
							closingDefer = true
						}
					}
				}
			}
		}
	}
	return errReaction{
		react: c.closesConn,
		returnOK: func(fi *ir.FnInfo, r *ssa.Return, errv ssa.Value) (bool, string) {
			if closingDefer {
				return true, ""
			}
			rv := ir.RetVals(r)
			if len(rv) > 0 && ir.SameValue(rv[len(rv)-1], errv) {
				return true, "" // propagated to the caller
			}
			return false, "the failure edge returns at " + c.Pos(r) + " without closing the connection (no closing defer either): a malformed message leaves the connection open"
		},
		resume: func(in ssa.Instruction) bool {
			cs, ok := ir.AsCall(in)
			if !ok {
				return false
			}
			if c.parseEntryCall(cs) {
				return true
			}
			n := c.P.CalleeName(cs.Common)
			return strings.HasSuffix(n, ".Read") || strings.HasSuffix(n, ".AppendAndRead")
		},
	}
}

// parseCallSites evaluates the error discipline at every parse entry call in
// the given package; shared by C08.O1 (nbhttp) and C13.O6 (websocket).
func (c *Ctx) parseCallSites(ob string, pkg string) int {
	total := 0
	for _, f := range c.pkgFuncs(pkg) {
		fi := c.P.Info(f)
		n := 0
		for _, cs := range c.P.Calls(f, nil) {
			if !c.parseEntryCall(cs) {
				continue
			}
			n++
			total++
			key := c.siteKey(f, "Parse", n)
			if strings.HasPrefix(c.P.FuncName(f), "(*websocket.Upgrader).Upgrade$") {
				// closures are numbered by position; name them by what they read instead
				if len(c.P.Calls(f, func(nm string, _ ir.CallSite) bool { return strings.HasSuffix(nm, ".AppendAndRead") })) > 0 {
					key = "(*websocket.Upgrader).Upgrade: transferred-TLS OnData: Parse"
				} else {
					key = "(*websocket.Upgrader).Upgrade: transferred-TCP OnData: Parse"
				}
			}
			bad := c.errDiscipline(fi, cs.In.(*ssa.Call), c.parseErrReaction(f))
			c.Cond(bad == "", ob, key, c.Pos(cs.In), "error tested; failure edge closes / leaves the loop into the closing defer / propagates", bad)
		}
	}
	return total
}

func runC08(c *Ctx) {
	c.Rule("C08.O1", "E3,E7e", "each call of a parse entry point in nbhttp tests the returned error; the failure edge closes the connection, propagates the error, or leaves the read loop into a closing defer", 5)
	c.Rule("C08.O2", "E4", "the carry-buffer append in Parse is unreachable without the read-limit test (or ReadLimit<=0); BodyReader.append's accounting and allocations are unreachable without the body-size test on len(data)+left (or the limit<=0)", 2)
	c.Rule("C08.O3", "E3,E4", "ParseInt/Atoi failures reach a non-nil error return; stored lengths dominated by <0 and >MaxInt rejections; chunked only for a single Transfer-Encoding value equal to \"chunked\"", 6)
	c.Rule("C08.O4", "exhaustiveness", "every state constant of state.go has a case in the state switch of Parse", 1)
	c.Rule("C08.O5", "E4", "the ten CR/LF states: expected byte or a non-nil error return", 10)
	c.Rule("C08.O6", "E4", "Parse defers a closure that recovers and unlocks; DataHandler and TLSDataHandler defer recover()", 3)
	c.Rule("C08.O8", "E9", "the parser's transition relation (state case -> nextState target, read off Parse) equals the grammar's table: no state that examines a framing byte can be bypassed", 1)
	c.Rule("C08.O9", "E7", "both CR exits of the header-value states record Transfer-Encoding / Trailer / Content-Length into the framing header set before OnHeader: a framing header with an empty value is still seen by the framing decision", 2)
	c.Rule("C08.O10", "E9", "the chunk-size line is hex digits, optional blanks, then the end of the line or ';' and an extension: every path of the stateBodyChunkSize case, evaluated for all 256 bytes before and after the size is complete, refuses any other byte and accepts these", 1)
	c08ChunkSizeLine(c)
	c.Rule("C08.O11", "E4", "Content-Length is digits only (a sign is excluded before ParseInt) and every repeated value is compared with the first; the message has no length only when the field is absent (an empty value is refused)", 3)
	c08ContentLengthStrict(c)
	c.Rule("C08.O12", "E4", "an error is final: Parse's deferred closure records a non-nil result in a Parser field and the entry of Parse returns it before anything is parsed, joined or reported", 1)
	c08ErrorsAreFinal(c)
	c.Rule("C08.O7", "E4", "no processor callback between an error's detecting comparison and its return; stateClose short-circuits at entry", 2)

	// ------------------------------------------------------------------ O1
	if n := c.parseCallSites("C08.O1", "nbhttp"); n < 5 {
		c.Unres("C08.O1", "parse call sites", fmt.Sprintf("found %d", n))
	}

	parse := c.Fn("C08.O2", fnParse)

	// ------------------------------------------------------------------ O2
	if parse != nil {
		c08LimitBefore(c, parse, "C08.O2", "nbhttp.Config.ReadLimit", func(in ssa.Instruction) bool {
			cs, ok := ir.AsCall(in)
			return ok && c.P.CalleeName(cs.Common) == "mempool.Append" && c.P.LoadedField(cs.Common.Args[0]) == "nbhttp.Parser.bytesCached"
		}, "carry-buffer append", func(sum ssa.Value) bool {
			// offset + len(data)
			b, ok := ir.Resolve(sum).(*ssa.BinOp)
			if !ok || b.Op != token.ADD {
				return false
			}
			pd := paramOfType(parse, "[]byte")
			for _, p := range [][2]ssa.Value{{b.X, b.Y}, {b.Y, b.X}} {
				if x, isLen := ir.IsLenOf(ir.Resolve(p[0])); isLen && ir.Resolve(x) == ssa.Value(pd) {
					// the other operand is the cached length
					return c.isCachedLen(p[1])
				}
			}
			return false
		})
	}
	if ap := c.Fn("C08.O2", "(*nbhttp.BodyReader).append"); ap != nil {
		pd := paramOfType(ap, "[]byte")
		c08LimitBefore(c, ap, "C08.O2", "nbhttp.Config.MaxHTTPBodySize", func(in ssa.Instruction) bool {
			if cs, ok := ir.AsCall(in); ok && cs.Common.IsInvoke() && cs.Common.Method.Name() == "Malloc" {
				return true
			}
			if st, ok := in.(*ssa.Store); ok {
				if fa, ok := st.Addr.(*ssa.FieldAddr); ok && c.P.FieldKey(fa) == "nbhttp.BodyReader.left" {
					return true
				}
			}
			return false
		}, "body accounting / allocation", func(sum ssa.Value) bool {
			b, ok := ir.Resolve(sum).(*ssa.BinOp)
			if !ok || b.Op != token.ADD {
				return false
			}
			for _, p := range [][2]ssa.Value{{b.X, b.Y}, {b.Y, b.X}} {
				if x, isLen := ir.IsLenOf(ir.Resolve(p[0])); isLen && ir.Resolve(x) == ssa.Value(pd) {
					return c.P.LoadedField(ir.Resolve(p[1])) == "nbhttp.BodyReader.left"
				}
			}
			return false
		})
	}

	// ------------------------------------------------------------------ O3
	{
		n := 0
		for _, f := range c.pkgFuncs("nbhttp") {
			if !strings.HasSuffix(c.P.Pos(f.Pos()), "") || !strings.Contains(c.P.Pos(f.Pos()), "nbhttp/parser.go") {
				continue
			}
			fi := c.P.Info(f)
			k := 0
			for _, cs := range c.P.Calls(f, nil) {
				name := c.P.CalleeName(cs.Common)
				if cs.Kind != "call" || (name != "strconv.ParseInt" && name != "strconv.Atoi" && name != "nbhttp.parseAndValidateChunkSize") {
					continue
				}
				n++
				k++
				key := fmt.Sprintf("%s: %s#%d", c.P.FuncName(f), name, k)
				bad := c.errDiscipline(fi, cs.In.(*ssa.Call), errReaction{
					returnOK: func(fi *ir.FnInfo, r *ssa.Return, errv ssa.Value) (bool, string) {
						if _, kind := c.retErr(fi, r); kind == "nonnil" {
							return true, ""
						}
						rv := ir.RetVals(r)
						if ir.SameValue(rv[len(rv)-1], errv) {
							return true, ""
						}
						return false, "the conversion failure reaches the return at " + c.Pos(r) + " without an error: a malformed length would be guessed"
					},
					resume: func(in ssa.Instruction) bool {
						st, ok := in.(*ssa.Store)
						if !ok {
							return false
						}
						fa, ok := st.Addr.(*ssa.FieldAddr)
						return ok && strings.HasPrefix(c.P.FieldKey(fa), "nbhttp.Parser.")
					},
				})
				c.Cond(bad == "", "C08.O3", key, c.Pos(cs.In), "failure reaches a non-nil error return", bad)
			}
		}
		if n < 6 {
			c.Unres("C08.O3", "numeric conversions in parser.go", fmt.Sprintf("found %d, expected >= 6", n))
		}
		// range checks
		for _, name := range []string{"nbhttp.parseAndValidateChunkSize", "(*nbhttp.Parser).parseContentLength"} {
			fn := c.Fn("C08.O3", name)
			if fn == nil {
				continue
			}
			fi := c.P.Info(fn)
			var parsed ssa.Value
			for _, cs := range c.P.CallsNamed(fn, "strconv.ParseInt") {
				if refs := cs.Value().Referrers(); refs != nil {
					for _, r := range *refs {
						if e, ok := r.(*ssa.Extract); ok && e.Index == 0 {
							parsed = e
						}
					}
				}
				// bit size <= 63 so that the int64 result is never negative by wrap
				if bits, ok := ir.ConstInt(cs.Common.Args[2]); !ok || bits > 63 {
					c.Bad("C08.O3", fnKey(c.P, fn, "bit size"), c.Pos(cs.In), "ParseInt is called with a bit size above 63")
				}
			}
			key := fnKey(c.P, fn, "range checks")
			if parsed == nil {
				c.Unres("C08.O3", key, "ParseInt result not found")
				continue
			}
			// uses of int(parsed): stored / returned only under !(v<0) and !(v>MaxInt)
			bad := ""
			uses := 0
			if refs := parsed.Referrers(); refs != nil {
				for _, r := range *refs {
					cv, ok := r.(*ssa.Convert)
					if !ok {
						continue
					}
					crefs := cv.Referrers()
					if crefs == nil {
						continue
					}
					for _, u := range *crefs {
						if _, dbg := u.(*ssa.DebugRef); dbg {
							continue
						}
						uses++
						neg := fi.HasFact(u, func(ft ir.Fact) bool {
							cmp, ok := ir.DecodeIntCmp(ft.Cond)
							return ok && ir.Resolve(cmp.Expr) == parsed && cmp.Holds(-1) != ft.Truth && cmp.Holds(0) == ft.Truth
						})
						big := fi.HasFact(u, func(ft ir.Fact) bool {
							b, ok := ft.Cond.(*ssa.BinOp)
							if !ok || ft.Truth {
								return false
							}
							maxInt := c.pkgConstInt("nbhttp", "MaxInt")
							isMax := func(v ssa.Value) bool { k, ok := ir.ConstInt(v); return ok && k == maxInt }
							return b.Op == token.GTR && ir.Resolve(b.X) == parsed && isMax(b.Y) ||
								b.Op == token.LSS && ir.Resolve(b.Y) == parsed && isMax(b.X)
						})
						if !neg || !big {
							bad = fmt.Sprintf("the parsed length is used at %s without the <0 (%v) and >MaxInt (%v) rejections", c.Pos(u), neg, big)
						}
					}
				}
			}
			if uses == 0 {
				bad = "the parsed length is never converted / used"
			}
			c.Cond(bad == "", "C08.O3", key, c.FnPos(fn), "int(v) used only under v>=0 and v<=MaxInt", bad)
		}
		if te := c.Fn("C08.O3", "(*nbhttp.Parser).parseTransferEncoding"); te != nil {
			fi := c.P.Info(te)
			bad := "chunked is never set"
			for _, st := range c.P.StoresTo(te, "nbhttp.Parser.chunked") {
				if !isStoreTrue(st, c.P, "nbhttp.Parser.chunked") {
					continue
				}
				bad = ""
				one := fi.HasFact(st, func(ft ir.Fact) bool {
					cmp, ok := ir.DecodeIntCmp(ft.Cond)
					if !ok {
						return false
					}
					if _, isLen := ir.IsLenOf(ir.Resolve(cmp.Expr)); !isLen {
						return false
					}
					return cmp.Holds(1) == ft.Truth && cmp.Holds(0) != ft.Truth && cmp.Holds(2) != ft.Truth
				})
				isChunked := fi.HasFact(st, func(ft ir.Fact) bool {
					b, ok := ft.Cond.(*ssa.BinOp)
					if !ok || (b.Op != token.EQL && b.Op != token.NEQ) {
						return false
					}
					k, ok := b.Y.(*ssa.Const)
					if !ok || k.Value == nil || k.Value.Kind() != constant.String || constant.StringVal(k.Value) != "chunked" {
						return false
					}
					return (b.Op == token.EQL) == ft.Truth
				})
				if !one {
					bad = "chunked framing is accepted without requiring exactly one Transfer-Encoding value"
				} else if !isChunked {
					bad = "chunked framing is accepted for a Transfer-Encoding other than \"chunked\""
				}
			}
			c.Cond(bad == "", "C08.O3", fnKey(c.P, te, "single chunked encoding"), c.FnPos(te), "len(raw)==1 and value==\"chunked\" dominate chunked=true", bad)
		}
	}

	// ------------------------------------------------------------------ O4 / O5
	if parse != nil {
		cases := c.stateCases(parse)
		consts := c.stateConsts()
		c08Transitions(c, parse)
		c08FramingRecorded(c, parse)
		var missing []string
		for name, k := range consts {
			if _, ok := cases[k]; !ok {
				missing = append(missing, name)
			}
		}
		sort.Strings(missing)
		c.Cond(len(missing) == 0 && len(consts) >= 30, "C08.O4", fnKey(c.P, parse, "state switch exhaustive"), c.FnPos(parse), fmt.Sprintf("%d states, all handled", len(consts)),
			fmt.Sprintf("state(s) without a case in Parse: %v (input in such a state is silently swallowed)", missing))

		fi := c.P.Info(parse)
		type delim struct {
			state string
			ch    int64
		}
		for _, d := range []delim{
			{"stateStatusLF", '\n'}, {"stateProtoLF", '\n'}, {"stateHeaderValueLF", '\n'}, {"stateHeaderOverLF", '\n'},
			{"stateBodyChunkSizeLF", '\n'}, {"stateBodyChunkDataCR", '\r'}, {"stateBodyChunkDataLF", '\n'},
			{"stateBodyTrailerHeaderValueLF", '\n'}, {"stateTailCR", '\r'}, {"stateTailLF", '\n'},
		} {
			key := fnKey(c.P, parse, "strict "+d.state)
			k, ok := consts[d.state]
			body := cases[k]
			if !ok || body == nil {
				c.Unres("C08.O5", key, "state / case not found")
				continue
			}
			i, isIf := body.Instrs[len(body.Instrs)-1].(*ssa.If)
			bad := ""
			if !isIf {
				bad = "the case does not test the current byte"
			} else {
				cmp, ok := ir.DecodeIntCmp(stripNot(i.Cond))
				if !ok || !c.isCurrentByte(cmp.Expr) || !(cmp.Holds(d.ch) && !cmp.Holds(d.ch+1) && !cmp.Holds(d.ch-1) && !cmp.NotEq || cmp.NotEq && !cmp.Holds(d.ch)) {
					bad = "the case does not compare the current byte with the expected delimiter"
				} else {
					// the edge on which the byte differs
					_, t := ir.StripNot(i.Cond, true)
					eqOnTrue := (!cmp.NotEq) == t
					wrong := 1
					if !eqOnTrue {
						wrong = 0
					}
					vis, _ := fi.ReachFromEdge(i, wrong, nil)
					nRet := 0
					for in := range vis {
						switch x := in.(type) {
						case *ssa.Return:
							nRet++
							if _, kind := c.retErr(fi, x); kind != "nonnil" {
								bad = "an unexpected byte in " + d.state + " reaches the return at " + c.Pos(x) + " without an error"
							}
						case *ssa.If:
							bad = "an unexpected byte in " + d.state + " is not rejected at once (further branching at " + c.Pos(x) + ")"
						}
					}
					if nRet == 0 && bad == "" {
						bad = "an unexpected byte in " + d.state + " does not reach an error return"
					}
				}
			}
			c.Cond(bad == "", "C08.O5", key, c.Pos(body.Instrs[0]), "expected byte or error", bad)
		}
	}

	// ------------------------------------------------------------------ O6
	if parse != nil {
		bad := "no deferred closure"
		for _, cs := range c.P.Calls(parse, nil) {
			if cs.Kind != "defer" {
				continue
			}
			callee := ir.StaticCallee(cs.Common)
			if callee == nil {
				continue
			}
			rec := len(c.P.CallsNamed(callee, "builtin:recover")) == 1
			unl := false
			for _, x := range c.P.CallsNamed(callee, "(*sync.Mutex).Unlock") {
				if fa, ok := ir.Root(x.Common.Args[0]).(*ssa.FieldAddr); ok && c.P.FieldKey(fa) == "nbhttp.Parser.mux" {
					unl = true
				}
			}
			if rec && unl {
				bad = ""
				// it must be registered before any parsing work: dominated only by the Lock
				if !c.P.Info(parse).Dominates(cs.In, parse.Blocks[0].Instrs[len(parse.Blocks[0].Instrs)-1]) {
					bad = "the recover/unlock frame is not registered in the entry block"
				}
			} else if bad != "" {
				bad = fmt.Sprintf("the deferred closure recovers=%v unlocks=%v: a panic in a callback would escape or leave the parser locked", rec, unl)
			}
		}
		c.Cond(bad == "", "C08.O6", fnKey(c.P, parse, "recover + unlock deferred"), c.FnPos(parse), "deferred in the entry block", bad)
	}
	for _, name := range []string{"(*nbhttp.Engine).DataHandler", "(*nbhttp.Engine).TLSDataHandler"} {
		if fn := c.Fn("C08.O6", name); fn != nil {
			ok, d := c.hasRecoverDefer(fn)
			first := ok && d.Block() == fn.Blocks[0]
			c.Cond(first, "C08.O6", fnKey(c.P, fn, "recover deferred"), c.FnPos(fn), "deferred in the entry block", "the data handler does not defer recover(): a panicking handler would take the poller goroutine down")
		}
	}

	// ------------------------------------------------------------------ O7
	if parse != nil {
		fi := c.P.Info(parse)
		bad := ""
		n := 0
		for _, r := range fi.Returns() {
			if _, kind := c.retErr(fi, r); kind != "nonnil" {
				continue
			}
			n++
			// walk back through unique predecessors to the deciding branch
			b := r.Block()
			for hops := 0; hops < 6; hops++ {
				for _, in := range b.Instrs {
					if cs, ok := ir.AsCall(in); ok && cs.Common.IsInvoke() && c.P.TypeName(cs.Common.Value.Type()) == "nbhttp.Processor" {
						// a callback in the returning block itself: it must produce the error
						if b == r.Block() || hops > 0 {
							rv := ir.RetVals(r)
							if !ir.SameValue(rv[len(rv)-1], cs.Value()) {
								bad = "processor callback " + cs.Common.Method.Name() + " at " + c.Pos(in) + " runs on an error path before the return at " + c.Pos(r)
							}
						}
					}
				}
				if len(b.Preds) != 1 {
					break
				}
				p := b.Preds[0]
				if _, isIf := p.Instrs[len(p.Instrs)-1].(*ssa.If); isIf {
					break
				}
				b = p
			}
		}
		c.Cond(bad == "" && n >= 30, "C08.O7", fnKey(c.P, parse, "nothing after an error"), c.FnPos(parse), fmt.Sprintf("%d error returns are direct", n), bad+fmt.Sprintf(" (error returns=%d)", n))
		// stateClose short-circuit at entry
		ok := false
		if i, isIf := parse.Blocks[0].Instrs[len(parse.Blocks[0].Instrs)-1].(*ssa.If); isIf {
			cmp, isCmp := ir.DecodeIntCmp(stripNot(i.Cond))
			if isCmp && c.P.LoadedField(cmp.Expr) == "nbhttp.Parser.state" && cmp.Holds(0) && !cmp.NotEq {
				vis, _ := fi.ReachFromEdge(i, 0, nil)
				ok = true
				for in := range vis {
					if r, isR := in.(*ssa.Return); isR {
						if _, kind := c.retErr(fi, r); kind != "nonnil" {
							ok = false
						}
					}
					if cs, isC := ir.AsCall(in); isC && cs.Common.IsInvoke() {
						ok = false
					}
				}
			}
		}
		c.Cond(ok, "C08.O7", fnKey(c.P, parse, "stateClose short-circuits"), c.FnPos(parse), "first test after the lock; returns an error without callbacks", "Parse does not short-circuit on stateClose at entry: a closed parser could report further events")
	}
}

// isCachedLen: v is the phi(0, len(*p.bytesCached)) computed at entry.
func (c *Ctx) isCachedLen(v ssa.Value) bool {
	v = ir.Resolve(v)
	phi, ok := v.(*ssa.Phi)
	if !ok {
		x, isLen := ir.IsLenOf(v)
		if !isLen {
			return false
		}
		a, isLoad := ir.IsLoad(ir.Resolve(x))
		return isLoad && c.P.LoadedField(a) == "nbhttp.Parser.bytesCached"
	}
	sawLen := false
	for _, e := range phi.Edges {
		if k, isK := ir.ConstInt(e); isK && k == 0 {
			continue
		}
		x, isLen := ir.IsLenOf(ir.Resolve(e))
		if !isLen {
			return false
		}
		a, isLoad := ir.IsLoad(ir.Resolve(x))
		if !isLoad || c.P.LoadedField(a) != "nbhttp.Parser.bytesCached" {
			return false
		}
		sawLen = true
	}
	return sawLen
}

// c08LimitBefore: the guarded instructions are unreachable from the entry
// once the "within the limit" edge of the exceed-comparison and the
// "limit disabled" edge of the limit>0 test are removed.
func c08LimitBefore(c *Ctx, fn *ssa.Function, ob, limitField string, guarded func(ssa.Instruction) bool, what string, sumOK func(ssa.Value) bool, extraSkip ...func(i *ssa.If, k int, exceed *ssa.If) bool) {
	fi := c.P.Info(fn)
	key := fnKey(c.P, fn, what+" behind "+limitField)
	var exceed, positive *ssa.If
	for _, i := range fi.Ifs() {
		b, ok := stripNot(i.Cond).(*ssa.BinOp)
		if !ok {
			continue
		}
		if cmp, isCmp := ir.DecodeIntCmp(b); isCmp && c.P.LoadedField(ir.Resolve(cmp.Expr)) == limitField {
			if cmp.Holds(1) && !cmp.Holds(0) {
				positive = i
			}
			continue
		}
		for _, p := range [][2]ssa.Value{{b.X, b.Y}, {b.Y, b.X}} {
			if c.P.LoadedField(ir.Resolve(p[1])) == limitField && sumOK(p[0]) {
				exceed = i
			}
		}
	}
	if exceed == nil {
		c.Bad(ob, key, c.FnPos(fn), "no comparison of (retained + incoming) with "+limitField+" found")
		return
	}
	// which edge of `exceed` means "exceeds"?
	b := stripNot(exceed.Cond).(*ssa.BinOp)
	limitOnRight := c.P.LoadedField(ir.Resolve(b.Y)) == limitField
	exceedsWhenTrue := (b.Op == token.GTR || b.Op == token.GEQ) == limitOnRight
	if _, t := ir.StripNot(exceed.Cond, true); !t {
		exceedsWhenTrue = !exceedsWhenTrue
	}
	if b.Op != token.GTR && b.Op != token.LSS && b.Op != token.GEQ && b.Op != token.LEQ {
		c.Bad(ob, key, c.Pos(exceed), "the limit comparison is not an order comparison")
		return
	}
	withinEdge := 1
	if !exceedsWhenTrue {
		withinEdge = 0
	}
	skip := func(i *ssa.If, k int) bool {
		if i == exceed && k == withinEdge {
			return true
		}
		if i == positive {
			// the "limit disabled" edge
			cmp, _ := ir.DecodeIntCmp(stripNot(i.Cond))
			_, t := ir.StripNot(i.Cond, k == 0)
			posOnEdge := cmp.Holds(1) == t
			return !posOnEdge
		}
		for _, f := range extraSkip {
			if f(i, k, exceed) {
				return true
			}
		}
		return false
	}
	vis, _ := fi.ReachOpt([]ssa.Instruction{fn.Blocks[0].Instrs[0]}, nil, skip)
	n := 0
	bad := ""
	for _, bl := range fn.Blocks {
		for _, in := range bl.Instrs {
			if !guarded(in) {
				continue
			}
			n++
			if vis[in] {
				bad = what + " at " + c.Pos(in) + " is reachable without passing the " + limitField + " test: input beyond the limit would be retained"
			}
		}
	}
	// the exceed edge must return an error
	visE, _ := fi.ReachFromEdge(exceed, 1-withinEdge, nil)
	for in := range visE {
		if r, ok := in.(*ssa.Return); ok {
			if _, kind := c.retErr(fi, r); kind != "nonnil" {
				bad = "exceeding " + limitField + " does not return an error"
			}
		}
		if guarded(in) {
			bad = what + " happens on the exceeds-the-limit edge"
		}
	}
	if n == 0 {
		c.Unres(ob, key, "no guarded instruction found")
		return
	}
	c.Cond(bad == "", ob, key, c.Pos(exceed), fmt.Sprintf("%d guarded instruction(s) behind the limit test", n), bad)
}

// stateConsts lists the parser state constants by name.
func (c *Ctx) stateConsts() map[string]int64 {
	out := map[string]int64{}
	for _, pk := range c.P.Pkgs {
		if pk.Name != "nbhttp" {
			continue
		}
		sc := pk.Types.Scope()
		for _, name := range sc.Names() {
			k, ok := sc.Lookup(name).(*types.Const)
			if !ok || !strings.HasPrefix(name, "state") {
				continue
			}
			if b, ok := k.Type().Underlying().(*types.Basic); !ok || b.Kind() != types.Int8 {
				continue
			}
			if n, exact := constant.Int64Val(k.Val()); exact {
				out[name] = n
			}
		}
	}
	return out
}

// stateCases maps state values to the case-body block of Parse's state switch.
func (c *Ctx) stateCases(parse *ssa.Function) map[int64]*ssa.BasicBlock {
	out := map[int64]*ssa.BasicBlock{}
	for _, i := range c.P.Info(parse).Ifs() {
		if i.Block() == parse.Blocks[0] {
			continue
		}
		cmp, ok := ir.DecodeIntCmp(i.Cond)
		if !ok || cmp.NotEq || cmp.TrueSet.Lo != cmp.TrueSet.Hi || c.P.LoadedField(cmp.Expr) != "nbhttp.Parser.state" {
			continue
		}
		if i.Block().Comment == "" {
			continue
		}
		out[cmp.TrueSet.Lo] = i.Block().Succs[0]
	}
	return out
}

// isCurrentByte: v is the loop's current byte data[i] (possibly via the local c).
func (c *Ctx) isCurrentByte(v ssa.Value) bool {
	v = ir.Resolve(v)
	a, ok := ir.IsLoad(v)
	if !ok {
		return false
	}
	_, isIdx := a.(*ssa.IndexAddr)
	return isIdx
}

// pkgConstInt looks up an integer constant of a module package.
func (c *Ctx) pkgConstInt(pkg, name string) int64 {
	for _, pk := range c.P.Pkgs {
		if pk.Name != pkg {
			continue
		}
		if k, ok := pk.Types.Scope().Lookup(name).(*types.Const); ok {
			if n, exact := constant.Int64Val(k.Val()); exact {
				return n
			}
		}
	}
	return -1
}

// stateTransitions extracts the parser's transition relation: for every call of
// nextState(K) (and every direct store of a constant to Parser.state) inside Parse,
// the state cases whose body dominates the call.  Calls outside every case are
// attributed to "*".
func (c *Ctx) stateTransitions(parse *ssa.Function) map[string]bool {
	consts := c.stateConsts()
	name := map[int64]string{}
	for n, k := range consts {
		name[k] = n
	}
	cases := c.stateCases(parse)
	fi := c.P.Info(parse)
	out := map[string]bool{}
	add := func(in ssa.Instruction, to ssa.Value) {
		toName := "?"
		if to == nil {
			toName = "(message complete)"
		} else if k, ok := ir.ConstInt(to); ok {
			toName = name[k]
		}
		from := "*"
		for v, b := range cases {
			if len(b.Instrs) > 0 && fi.Dominates(b.Instrs[0], in) {
				from = name[v]
			}
		}
		out[from+" -> "+toName] = true
	}
	for _, cs := range c.P.CallsNamed(parse, "(*nbhttp.Parser).nextState") {
		add(cs.In, cs.Common.Args[1])
	}
	for _, cs := range c.P.CallsNamed(parse, "(*nbhttp.Parser).handleMessage") {
		add(cs.In, nil)
	}
	for _, b := range parse.Blocks {
		for _, in := range b.Instrs {
			if st, ok := in.(*ssa.Store); ok {
				if fa, ok := st.Addr.(*ssa.FieldAddr); ok && c.P.FieldKey(fa) == "nbhttp.Parser.state" {
					add(in, st.Val)
				}
			}
		}
	}
	return out
}

// c08Grammar is the transition relation of the HTTP/1.x state machine as
// confirmed by reading Parse against RFC 7230 (request line / status line,
// header lines, Content-Length body, chunked body with extensions and trailers).
var c08Grammar = []string{
	"stateBodyChunkData -> stateBodyChunkDataCR",
	"stateBodyChunkDataCR -> stateBodyChunkDataLF",
	"stateBodyChunkDataLF -> stateBodyChunkSizeBefore",
	"stateBodyChunkSize -> stateBodyChunkSizeLF",
	"stateBodyChunkSizeBefore -> stateBodyChunkSize",
	"stateBodyChunkSizeLF -> stateBodyChunkData",
	"stateBodyChunkSizeLF -> stateBodyTrailerHeaderKeyBefore",
	"stateBodyChunkSizeLF -> stateTailCR",
	"stateBodyContentLength -> (message complete)",
	"stateBodyTrailerHeaderKey -> stateBodyTrailerHeaderValueBefore",
	"stateBodyTrailerHeaderKeyBefore -> stateBodyTrailerHeaderKey",
	"stateBodyTrailerHeaderKeyBefore -> stateTailLF",
	"stateBodyTrailerHeaderValue -> stateBodyTrailerHeaderValueLF",
	"stateBodyTrailerHeaderValueBefore -> stateBodyTrailerHeaderValue",
	"stateBodyTrailerHeaderValueBefore -> stateBodyTrailerHeaderValueLF",
	"stateBodyTrailerHeaderValueLF -> stateBodyTrailerHeaderKeyBefore",
	"stateClientProto -> stateStatusCodeBefore",
	"stateClientProtoBefore -> stateClientProto",
	"stateHeaderKey -> stateHeaderValueBefore",
	"stateHeaderKeyBefore -> stateHeaderKey",
	"stateHeaderKeyBefore -> stateHeaderOverLF",
	"stateHeaderOverLF -> (message complete)",
	"stateHeaderOverLF -> stateBodyChunkSizeBefore",
	"stateHeaderOverLF -> stateBodyContentLength",
	"stateHeaderValue -> stateHeaderValueLF",
	"stateHeaderValueBefore -> stateHeaderValue",
	"stateHeaderValueBefore -> stateHeaderValueLF",
	"stateHeaderValueLF -> stateHeaderKeyBefore",
	"stateMethod -> statePathBefore",
	"stateMethodBefore -> stateMethod",
	"statePath -> stateProtoBefore",
	"statePathBefore -> statePath",
	"stateProto -> stateProtoLF",
	"stateProtoBefore -> stateProto",
	"stateProtoLF -> stateHeaderKeyBefore",
	"stateStatus -> stateStatusLF",
	"stateStatusBefore -> stateStatus",
	"stateStatusBefore -> stateStatusLF",
	"stateStatusCode -> stateStatusBefore",
	"stateStatusCodeBefore -> stateStatusCode",
	"stateStatusLF -> stateHeaderKeyBefore",
	"stateTailCR -> stateTailLF",
	"stateTailLF -> (message complete)",
}

func c08Transitions(c *Ctx, parse *ssa.Function) {
	got := c.stateTransitions(parse)
	if os.Getenv("NBV_DUMP_TRANSITIONS") != "" {
		for _, t := range sortedKeys(got) {
			fmt.Printf("\t%q,\n", t)
		}
	}
	want := map[string]bool{}
	for _, t := range c08Grammar {
		want[t] = true
	}
	var extra, missing []string
	for t := range got {
		if !want[t] {
			extra = append(extra, t)
		}
	}
	for t := range want {
		if !got[t] {
			missing = append(missing, t)
		}
	}
	sort.Strings(extra)
	sort.Strings(missing)
	bad := ""
	if len(extra) > 0 {
		bad = fmt.Sprintf("transition(s) outside the grammar: %v (a state that checks a framing byte can be bypassed, or input is accepted in a state the grammar does not reach)", extra)
	}
	if len(missing) > 0 {
		bad += fmt.Sprintf(" transition(s) of the grammar that Parse no longer makes: %v", missing)
	}
	c.Cond(bad == "", "C08.O8", fnKey(c.P, parse, "transition relation"), c.FnPos(parse), fmt.Sprintf("%d transitions, all in the grammar table", len(got)), strings.TrimSpace(bad))
}

// c08FramingRecorded: O9.  Every OnHeader delivery is preceded, in the same pass over the
// byte, by the conditional p.header.Add(key, value) of the framing headers.
func c08FramingRecorded(c *Ctx, parse *ssa.Function) {
	fi := c.P.Info(parse)
	var adds []ssa.Instruction
	for _, cs := range c.P.CallsNamed(parse, "(net/http.Header).Add") {
		if c.P.LoadedField(ir.Resolve(cs.Common.Args[0])) == "nbhttp.Parser.header" && cs.In.Parent() == parse {
			adds = append(adds, cs.In)
		}
	}
	n := 0
	for _, cs := range c.P.CallsNamed(parse, "invoke:nbhttp.Processor.OnHeader") {
		if cs.In.Parent() != parse {
			continue
		}
		n++
		key := fmt.Sprintf("%s: framing headers recorded before OnHeader#%d", c.P.FuncName(parse), n)
		ok := false
		for _, a := range adds {
			// a reaches this OnHeader without going round the byte loop
			vis, _ := fi.Reach([]ssa.Instruction{a}, func(in ssa.Instruction) bool {
				return in != cs.In && c.isCallTo(in, "invoke:nbhttp.Processor.OnHeader", "(*nbhttp.Parser).nextState")
			})
			if vis[cs.In] {
				ok = true
			}
		}
		c.Cond(ok, "C08.O9", key, c.Pos(cs.In), "p.header.Add(key, value) for TE / Trailer / CL precedes the delivery", "the header delivered at "+c.Pos(cs.In)+" is not recorded into the framing header set first: a Transfer-Encoding, Trailer or Content-Length line that ends in this state (an empty value) is invisible to the framing decision, so 'Transfer-Encoding:' plus a Content-Length is framed by the length")
	}
	if n < 2 {
		c.Unres("C08.O9", "OnHeader sites", fmt.Sprintf("found %d, expected the two header-value states", n))
	}
}
