package props

import (
	"fmt"
	"go/token"
	"go/types"
	"strings"

	"golang.org/x/tools/go/ssa"

	"verif/internal/eng"
	"verif/internal/ir"
)

func init() {
	register(&Property{
		ID:          "C15",
		Engines:     []string{"cfg", "decide"},
		Explanation: "WebSocket size limits, structural part: in nextFrame the too-large test on len(message)+declared length dominates frame acceptance and its true edge returns ErrMessageTooLarge (O1); in readAll every extension of the inflated result is followed by a limit test on the new length before the buffer can be returned, and growth happens only behind isMessageTooLarge(len+1)==false (O2); WriteMessage rejects control payloads above 125 before any writeFrame (O3); the append to the input cache is unreachable without the read-limit test (O4); the too-large and control-too-big errors pass WriteClose(1009) before Parse returns them (O5); isMessageTooLarge(n) is exactly limit>0 && n>limit (O6). Wrapped errors keep their identity (O9); a fresh commonFields carries the limit (O10).",
		NotCovered:  "peak allocator bytes, the actual inflated sizes, boundary arithmetic (limit-1/limit/limit+1) as values",
		Run:         runC15,
	})
}

func runC15(c *Ctx) {
	c.Rule("C15.O1", "E4", "nextFrame: isMessageTooLarge(len(message)+declared length) dominates acceptance; true edge returns ErrMessageTooLarge", 1)
	c.Rule("C15.O2", "E4", "readAll: after each extension by the read count a limit test on the new length precedes any return of the buffer; Append only behind isMessageTooLarge(len+1)==false", 2)
	c.Rule("C15.O3", "E4", "WriteMessage and WriteFrame (the exported writers that reach writeFrame): len(data)>125 for opcodes 8,9,10 returns ErrControlMessageTooBig and dominates every writeFrame", 2)
	c.Rule("C15.O4", "E4", "Parse: the append to the input cache is unreachable without the ReadLimit test", 1)
	c.Rule("C15.O5", "E4", "Parse: errors ErrMessageTooLarge and ErrControlMessageTooBig pass WriteClose(1009, ...) before the return", 1)
	c.Rule("C15.O6", "E8", "isMessageTooLarge(n) == (MessageLengthLimit > 0 && n > MessageLengthLimit)", 1)
	c.Rule("C15.O7", "E5", "inside the package control frames are sent through WriteMessage or WriteFrame, the exported writers that refuse payloads over 125 bytes (C15.O3): no call of the raw writeFrame with a constant control opcode elsewhere", 1)
	c.Rule("C15.O9", "E5", "an error that is wrapped on the WebSocket read path keeps its identity: every fmt.Errorf in the websocket package that takes an error argument wraps it with %w, so the errors.Is tests that choose the 1009 answer still recognise ErrMessageTooLarge", 1)
	c.Rule("C15.O10", "E5", "a websocket.commonFields value is never rebuilt field by field: a function that fills a fresh commonFields sets MessageLengthLimit (a copy that leaves it out runs with 0, which means unlimited)", 1)
	c15Round5(c)
	c.Rule("C15.O8", "E6", "the pre-check's sum (assembled so far + declared length) cannot wrap: the declared length is a peer-chosen 63-bit value, so the sum is tested for < 0 (or the length bounded) before it is compared with the limit", 1)
	c15SumNoWrap(c)
	c15ControlSenders(c)

	const limit = "websocket.commonFields.MessageLengthLimit"

	// ------------------------------------------------------------------ O1
	if nf := c.Fn("C15.O1", "(*websocket.Conn).nextFrame"); nf != nil {
		fi := c.P.Info(nf)
		key := fnKey(c.P, nf, "declared-length pre-check")
		var accept ssa.Instruction
		for _, cs := range c.P.CallsNamed(nf, "(*websocket.Conn).validFrame") {
			accept = cs.In
		}
		bad := "no isMessageTooLarge pre-check"
		for _, cs := range c.P.CallsNamed(nf, "(*websocket.Conn).isMessageTooLarge") {
			bad = ""
			// argument: (0 | len(*c.message)) + int(bodyLen)
			b, ok := ir.Resolve(cs.Common.Args[1]).(*ssa.BinOp)
			if !ok || b.Op != token.ADD {
				bad = "the pre-check does not add the declared length to the bytes already buffered for this message"
				break
			}
			isMsgLen := func(v ssa.Value) bool {
				v = ir.Resolve(v)
				lenOfMsg := func(x ssa.Value) bool {
					y, isLen := ir.IsLenOf(ir.Resolve(x))
					if !isLen {
						return false
					}
					a, isLoad := ir.IsLoad(ir.Resolve(y))
					return isLoad && c.P.LoadedField(a) == "websocket.Conn.message"
				}
				if phi, ok := v.(*ssa.Phi); ok {
					saw := false
					for _, e := range phi.Edges {
						if k, isK := ir.ConstInt(e); isK && k == 0 {
							continue
						}
						if !lenOfMsg(e) {
							return false
						}
						saw = true
					}
					return saw
				}
				return lenOfMsg(v)
			}
			if !(isMsgLen(b.X) || isMsgLen(b.Y)) {
				bad = "the pre-check ignores the bytes already buffered for this message: fragments could add up beyond the limit"
				break
			}
			ifs := usedAsCond(cs.Value())
			if len(ifs) != 1 {
				bad = "the pre-check's result is not branched on"
				break
			}
			if accept == nil || !fi.Dominates(ifs[0], accept) {
				bad = "the pre-check does not dominate frame acceptance"
				break
			}
			vis, _ := fi.ReachFromEdge(ifs[0], edgeOf(ifs[0], cs.Value(), true), nil)
			for in := range vis {
				if in == accept {
					bad = "a too-large frame is still accepted"
				}
				if r, isR := in.(*ssa.Return); isR {
					rv := ir.RetVals(r)
					if c.P.Desc(rv[len(rv)-1]) != "websocket.ErrMessageTooLarge" {
						bad = "the too-large edge does not return ErrMessageTooLarge"
					}
				}
			}
		}
		c.Cond(bad == "", "C15.O1", key, c.FnPos(nf), "pre-check on buffered+declared dominates acceptance", bad)
	}

	// ------------------------------------------------------------------ O2
	if ra := c.Fn("C15.O2", "(*websocket.Conn).readAll"); ra != nil {
		fi := c.P.Info(ra)
		// the read count(s)
		var n ssa.Value
		counts := map[ssa.Value]bool{}
		for _, cs := range c.P.Calls(ra, nil) {
			if cs.Common.IsInvoke() && cs.Common.Method.Name() == "Read" {
				if refs := cs.Value().Referrers(); refs != nil {
					for _, r := range *refs {
						if e, ok := r.(*ssa.Extract); ok && e.Index == 0 {
							n = e
							counts[e] = true
						}
					}
				}
			}
		}
		key := fnKey(c.P, ra, "limit test after each extension")
		if n == nil {
			c.Unres("C15.O2", key, "reader call not found")
		} else {
			bad := "no extension of the result by the read count found"
			isLimitTest := func(in ssa.Instruction) bool { return c.isCallTo(in, "(*websocket.Conn).isMessageTooLarge") }
			for _, b := range ra.Blocks {
				for _, in := range b.Instrs {
					st, ok := in.(*ssa.Store)
					if !ok {
						continue
					}
					sl, ok := ir.Resolve(st.Val).(*ssa.Slice)
					if !ok || sl.High == nil {
						continue
					}
					hb, ok := ir.Resolve(sl.High).(*ssa.BinOp)
					if !ok || hb.Op != token.ADD || !(counts[ir.Resolve(hb.X)] || counts[ir.Resolve(hb.Y)]) {
						continue
					}
					bad = ""
					vis, _ := fi.Reach([]ssa.Instruction{st}, isLimitTest)
					for x := range vis {
						if r, isR := x.(*ssa.Return); isR {
							if !ir.IsNilConst(ir.RetVals(r)[0]) {
								bad = "after the result grew by the read count at " + c.Pos(st) + " it can be returned at " + c.Pos(r) + " without a limit test on its new length: a small compressed frame could inflate beyond the message limit and still be delivered"
							}
						}
					}
				}
			}
			// every limit test's true edge drops the buffer
			for _, cs := range c.P.CallsNamed(ra, "(*websocket.Conn).isMessageTooLarge") {
				for _, i := range usedAsCond(cs.Value()) {
					vis, _ := fi.ReachFromEdge(i, edgeOf(i, cs.Value(), true), nil)
					for x := range vis {
						if r, isR := x.(*ssa.Return); isR {
							if !ir.IsNilConst(ir.RetVals(r)[0]) {
								// 'one more byte would be too much' is not 'too much': the buffer may be
								// returned after a further read, made behind this test, delivered nothing
								probedEmpty := fi.HasFact(r, func(ft ir.Fact) bool {
									cmp, ok := ir.DecodeIntCmp(ft.Cond)
									if !ok || cmp.Holds(1) == ft.Truth || cmp.Holds(0) != ft.Truth {
										return false
									}
									e, ok := ir.Resolve(cmp.Expr).(*ssa.Extract)
									if !ok || e.Index != 0 {
										return false
									}
									call, ok := e.Tuple.(*ssa.Call)
									return ok && call.Call.IsInvoke() && call.Call.Method.Name() == "Read" && fi.Dominates(i, call)
								})
								if probedEmpty {
									continue
								}
								bad = "the too-large edge at " + c.Pos(i) + " still returns the buffer"
							}
							if _, kind := c.retErr(fi, r); kind != "nonnil" {
								bad = "the too-large edge at " + c.Pos(i) + " returns without an error"
							}
						}
					}
				}
			}
			c.Cond(bad == "", "C15.O2", key, c.FnPos(ra), "every extension is followed by a limit test before a return of the buffer", bad)
		}
		// growth only behind isMessageTooLarge(len+1) == false
		key = fnKey(c.P, ra, "growth behind the limit")
		bad := "no growth site"
		for _, cs := range c.P.Calls(ra, nil) {
			if !(cs.Common.IsInvoke() && cs.Common.Method.Name() == "Append") {
				continue
			}
			bad = "the buffer grows without a preceding isMessageTooLarge(len+1) == false"
			if fi.HasFact(cs.In, func(ft ir.Fact) bool {
				call, ok := ft.Cond.(*ssa.Call)
				if !ok || ft.Truth || c.P.CalleeName(&call.Call) != "(*websocket.Conn).isMessageTooLarge" {
					return false
				}
				b, ok := ir.Resolve(call.Call.Args[1]).(*ssa.BinOp)
				if !ok || b.Op != token.ADD {
					return false
				}
				k, isK := ir.ConstInt(b.Y)
				_, isLen := ir.IsLenOf(ir.Resolve(b.X))
				return isK && k == 1 && isLen
			}) {
				bad = ""
			}
		}
		c.Cond(bad == "", "C15.O2", key, c.FnPos(ra), "Append dominated by !isMessageTooLarge(len+1)", bad)
	}

	// ------------------------------------------------------------------ O3
	for _, wname := range []string{"(*websocket.Conn).WriteMessage", "(*websocket.Conn).WriteFrame"} {
		wm := c.Fn("C15.O3", wname)
		if wm == nil {
			continue
		}
		fi := c.P.Info(wm)
		pd := paramOfType(wm, "[]byte")
		key := fnKey(c.P, wm, "control payload > 125 refused")
		bad := "no return of ErrControlMessageTooBig: " + wname + " is exported and reaches writeFrame, so a ping, pong or close frame of more than 125 bytes is put on the wire (WriteFrame(PingMessage, true, true, 200 bytes) returns nil and writes 204 bytes)"
		for _, r := range fi.Returns() {
			rv := ir.RetVals(r)
			if c.P.Desc(rv[len(rv)-1]) != "websocket.ErrControlMessageTooBig" {
				continue
			}
			bad = ""
			var lenIf *ssa.If
			for _, i := range fi.Ifs() {
				cmp, ok := ir.DecodeIntCmp(stripNot(i.Cond))
				if !ok {
					continue
				}
				if x, isLen := ir.IsLenOf(ir.Resolve(cmp.Expr)); isLen && ir.Resolve(x) == ssa.Value(pd) && cmp.Holds(126) && !cmp.Holds(125) && !cmp.NotEq &&
					i.Block().Succs[edgeForTruth(i, true)] == r.Block() {
					lenIf = i
				}
			}
			if lenIf == nil {
				bad = "the refusal is not decided by len(data) > 125"
				break
			}
			// the opcodes under which the length test is reached
			ops := map[int64]bool{}
			for _, i := range fi.Ifs() {
				cmp, ok := ir.DecodeIntCmp(i.Cond)
				if ok && !cmp.NotEq && cmp.TrueSet.Lo == cmp.TrueSet.Hi && ir.Resolve(cmp.Expr) == ssa.Value(wm.Params[1]) && i.Block().Succs[0] == lenIf.Block() {
					ops[cmp.TrueSet.Lo] = true
				}
			}
			if !(ops[8] && ops[9] && ops[10] && len(ops) == 3) {
				bad = fmt.Sprintf("the size check applies to opcodes %v, expected {8,9,10}", keysOf(ops))
			}
			// no writeFrame reachable on the too-big edge
			vis, _ := fi.ReachFromEdge(lenIf, edgeForTruth(lenIf, true), nil)
			for in := range vis {
				if c.isCallTo(in, "(*websocket.Conn).writeFrame") {
					bad = "an oversized control frame is still written"
				}
			}
			// every writeFrame comes after the opcode switch
			for _, cs := range c.P.CallsNamed(wm, "(*websocket.Conn).writeFrame") {
				if fi.CanReach(cs.In, lenIf) {
					bad = "a frame can be written before the control-size check"
				}
			}
		}
		c.Cond(bad == "", "C15.O3", key, c.FnPos(wm), "len(data)>125 on opcodes 8,9,10 returns the error before any writeFrame", bad)
	}

	// ------------------------------------------------------------------ O4 / O5
	if ps := c.Fn("C15.O4", "(*websocket.Conn).Parse"); ps != nil {
		pd := paramOfType(ps, "[]byte")
		c08LimitBefore(c, ps, "C15.O4", "nbhttp.Config.ReadLimit", func(in ssa.Instruction) bool {
			cs, ok := ir.AsCall(in)
			return ok && cs.Common.IsInvoke() && cs.Common.Method.Name() == "Append" && c.P.LoadedField(cs.Common.Args[0]) == "websocket.Conn.bytesCached"
		}, "input-cache append", func(sum ssa.Value) bool {
			b, ok := ir.Resolve(sum).(*ssa.BinOp)
			if !ok || b.Op != token.ADD {
				return false
			}
			for _, p := range [][2]ssa.Value{{b.X, b.Y}, {b.Y, b.X}} {
				if x, isLen := ir.IsLenOf(ir.Resolve(p[0])); isLen && ir.Resolve(x) == ssa.Value(pd) {
					y, isLen2 := ir.IsLenOf(ir.Resolve(p[1]))
					if !isLen2 {
						return false
					}
					a, isLoad := ir.IsLoad(ir.Resolve(y))
					return isLoad && c.P.LoadedField(a) == "websocket.Conn.bytesCached"
				}
			}
			return false
		}, func(i *ssa.If, k int, exceed *ssa.If) bool {
			// "nothing cached yet" inside the limit condition contradicts the append
			// (which is on the cache-non-nil edge, same critical section, no store in between)
			x, isNil, ok := ir.NilTest(i.Cond, k == 0)
			return ok && isNil && c.P.LoadedField(x) == "websocket.Conn.bytesCached" && i.Block().Dominates(exceed.Block())
		})

		fi := c.P.Info(ps)
		key := fnKey(c.P, ps, "1009 before returning a size error")
		bad := "no WriteClose(1009, ...)"
		for _, cs := range c.P.CallsNamed(ps, "(*websocket.Conn).WriteClose") {
			if k, ok := ir.ConstInt(cs.Common.Args[1]); !ok || k != 1009 {
				continue
			}
			bad = ""
			targets := map[string]bool{}
			for _, i := range fi.Ifs() {
				for k := 0; k < 2; k++ {
					_, target, is, ok := c.P.ErrorsIsTest(i.Cond, k == 0)
					if ok && is && i.Block().Succs[k] == cs.In.Block() {
						targets[target] = true
					}
				}
			}
			if !targets["websocket.ErrMessageTooLarge"] || !targets["websocket.ErrControlMessageTooBig"] {
				bad = fmt.Sprintf("the 1009 answer is sent for %v, expected both ErrMessageTooLarge and ErrControlMessageTooBig", sortedKeys(targets))
			}
			// the error return follows
			vis, _ := fi.Reach([]ssa.Instruction{cs.In}, nil)
			okRet := false
			for in := range vis {
				if r, isR := in.(*ssa.Return); isR {
					if _, kind := c.retErr(fi, r); kind == "nonnil" || kind == "maybe" {
						okRet = true
					}
				}
			}
			if !okRet {
				bad = "after the 1009 answer the error is not returned"
			}
		}
		c.Cond(bad == "", "C15.O5", key, c.FnPos(ps), "both size errors answer 1009 before the error return", bad)
	}

	// ------------------------------------------------------------------ O6
	if tl := c.Fn("C15.O6", "(*websocket.Conn).isMessageTooLarge"); tl != nil {
		key := fnKey(c.P, tl, "predicate")
		d, err := eng.Decide(c.P, tl)
		if err != nil {
			c.Unres("C15.O6", key, err.Error())
		} else {
			var f *eng.Formula
			for _, rc := range d.Returns() {
				g := eng.And(rc.Cond, d.ValueFormula(ir.RetVals(rc.Ret)[0]))
				if f == nil {
					f = g
				} else {
					f = eng.Or(f, g)
				}
			}
			bad := ""
			// evaluate over a grid: the formula only compares limit with 0 and n with limit
			leaves := d.Leaves(f)
			for k := range leaves {
				if k != limit && k != "param#1" {
					bad = "the predicate depends on " + k
				}
			}
			if bad == "" {
				for _, lim := range []int64{-5, -1, 0, 1, 2, 10} {
					for _, n := range []int64{-1, 0, 1, 2, 3, 9, 10, 11, 1 << 40} {
						got, e := d.Eval(f, eng.Env{limit: lim, "param#1": n})
						if e != nil {
							bad = "undecided: " + e.Error()
							break
						}
						want := lim > 0 && n > lim
						if got != want {
							bad = fmt.Sprintf("isMessageTooLarge(%d) with limit %d is %v, expected %v", n, lim, got, want)
						}
					}
				}
				c.ExhaustiveTbl["isMessageTooLarge grid"] = 54
			}
			if bad == "" {
				// structural: exactly the atoms limit<=0 / limit>0 and n>limit
				for _, a := range d.Atoms(f) {
					if !strings.Contains(a, limit) {
						bad = "unexpected condition " + a
					}
				}
			}
			c.Cond(bad == "", "C15.O6", key, c.FnPos(tl), "limit>0 && n>limit on the boundary grid; conditions only over limit and n", bad)
		}
	}
}

// c15ControlSenders: O7.
func c15ControlSenders(c *Ctx) {
	bad := ""
	n := 0
	for _, f := range c.pkgFuncs("websocket") {
		outer := c.P.FuncName(ir.Outermost(f))
		for _, cs := range c.P.Calls(f, func(name string, _ ir.CallSite) bool {
			return name == "(*websocket.Conn).WriteFrame" || name == "(*websocket.Conn).writeFrame"
		}) {
			n++
			op, isK := ir.ConstInt(cs.Common.Args[1])
			if !isK || op < 8 {
				continue
			}
			// the exported writers carry the check themselves (C15.O3 decides that for both)
			if c.P.CalleeName(cs.Common) == "(*websocket.Conn).WriteFrame" {
				continue
			}
			if outer != "(*websocket.Conn).WriteMessage" && outer != "(*websocket.Conn).WriteFrame" {
				bad = outer + " sends a control frame (opcode " + fmt.Sprint(op) + ") through " + c.P.CalleeName(cs.Common) + " at " + c.Pos(cs.In) + ", which has no control-payload check: a payload over 125 bytes goes out instead of being refused"
			}
		}
	}
	c.Cond(bad == "", "C15.O7", "control frames are sent through WriteMessage", "", fmt.Sprintf("%d frame-writer call site(s), no raw writeFrame with a constant control opcode outside the exported writers", n), bad)
}

// c15SumNoWrap: O8.
func c15SumNoWrap(c *Ctx) {
	nf := c.Fn("C15.O8", "(*websocket.Conn).nextFrame")
	if nf == nil {
		return
	}
	fi := c.P.Info(nf)
	bad := "the pre-check (isMessageTooLarge on assembled + declared) was not found in nextFrame"
	for _, cs := range c.P.CallsNamed(nf, "(*websocket.Conn).isMessageTooLarge") {
		arg := cs.Common.Args[1]
		for {
			cv, ok := arg.(*ssa.Convert)
			if !ok {
				break
			}
			arg = cv.X
		}
		sum, ok := arg.(*ssa.BinOp)
		if !ok || sum.Op != token.ADD {
			continue
		}
		bad = ""
		lo, _ := fi.IntervalAt(cs.In, sum)
		// or: both operands bounded above by dominating facts
		_, hx := fi.IntervalAt(cs.In, sum.X)
		_, hy := fi.IntervalAt(cs.In, sum.Y)
		bounded := func(v ssa.Value, hi int64) bool {
			if hi < 1<<62 {
				return true
			}
			for {
				cv, ok := v.(*ssa.Convert)
				if !ok {
					break
				}
				v = cv.X
			}
			_, isLen := ir.IsLenOf(ir.Resolve(v))
			if ph, isPhi := ir.Resolve(v).(*ssa.Phi); isPhi {
				isLen = true
				for _, e := range ph.Edges {
					r := ir.Resolve(e)
					for {
						cv, ok := r.(*ssa.Convert)
						if !ok {
							break
						}
						r = ir.Resolve(cv.X)
					}
					if _, l := ir.IsLenOf(r); !l {
						if k, isK := ir.ConstInt(r); !isK || k < 0 {
							isLen = false
						}
					}
				}
			}
			return isLen
		}
		// or: a dominating "y > MaxInt64 - x" test that returned
		strip := func(v ssa.Value) ssa.Value {
			for {
				cv, ok := v.(*ssa.Convert)
				if !ok {
					return ir.Resolve(v)
				}
				v = cv.X
			}
		}
		guarded := fi.HasFact(cs.In, func(ft ir.Fact) bool {
			lx, ly, _, ok := lessThanFact(ft) // lx <= ly
			if !ok {
				return false
			}
			d, isD := ir.Resolve(ly).(*ssa.BinOp)
			if !isD || d.Op != token.SUB {
				return false
			}
			k, isK := ir.ConstInt(d.X)
			if !isK || k < 1<<62 {
				return false
			}
			a, b := strip(lx), strip(d.Y)
			return (a == strip(sum.X) && b == strip(sum.Y)) || (a == strip(sum.Y) && b == strip(sum.X))
		})
		if lo < 0 && !guarded && !(bounded(sum.X, hx) && bounded(sum.Y, hy)) {
			bad = "the sum compared with the message limit at " + c.Pos(cs.In) + " (" + c.P.Desc(sum) + ") can wrap: the declared length is any 63-bit value the peer chooses, and behind a first fragment a length close to the maximum makes the sum negative, so the limit test passes and the frame is waited for (input buffered up to the read limit) or the slice expression panics"
		}
	}
	c.Cond(bad == "", "C15.O8", fnKey(c.P, nf, "pre-check sum cannot wrap"), c.FnPos(nf), "sum tested for < 0 (or operands bounded) before the limit test", bad)
}

// c15Round5: O9, O10.
func c15Round5(c *Ctx) {
	errT := types.Universe.Lookup("error").Type().Underlying().(*types.Interface)
	n := 0
	bad := ""
	for _, f := range c.pkgFuncs("websocket") {
		for _, cs := range c.P.CallsNamed(f, "fmt.Errorf") {
			format, ok := constString(cs.Common.Args[0])
			if !ok {
				continue
			}
			n++
			hasErr := false
			// the variadic slice: stores into its backing array
			if len(cs.Common.Args) > 1 {
				if sl, ok := cs.Common.Args[1].(*ssa.Slice); ok {
					if arr, ok := sl.X.(*ssa.Alloc); ok {
						for _, r := range *arr.Referrers() {
							ia, ok := r.(*ssa.IndexAddr)
							if !ok {
								continue
							}
							for _, r2 := range *ia.Referrers() {
								st, ok := r2.(*ssa.Store)
								if !ok {
									continue
								}
								v := st.Val
								if mi, ok := v.(*ssa.MakeInterface); ok {
									v = mi.X
								} else if ci, ok := v.(*ssa.ChangeInterface); ok {
									v = ci.X
								}
								if types.Implements(v.Type(), errT) {
									hasErr = true
								}
							}
						}
					}
				}
			}
			if hasErr && !strings.Contains(format, "%w") {
				bad = "fmt.Errorf at " + c.Pos(cs.In) + " formats an error argument without %w (" + format + "): the result no longer matches errors.Is(err, ErrMessageTooLarge), so an inflated message over the limit fails the connection without the 1009 answer"
			}
		}
	}
	c.Cond(bad == "", "C15.O9", "websocket: wrapped errors keep their identity", "", fmt.Sprintf("%d fmt.Errorf site(s)", n), bad)

	// O10
	nb := 0
	bad = ""
	for _, f := range c.pkgFuncs("websocket") {
		fresh := map[*ssa.Alloc]map[string]bool{}
		for _, b := range f.Blocks {
			for _, in := range b.Instrs {
				st, ok := in.(*ssa.Store)
				if !ok {
					continue
				}
				fa, ok := st.Addr.(*ssa.FieldAddr)
				if !ok || !strings.HasPrefix(c.P.FieldKey(fa), "websocket.commonFields.") {
					continue
				}
				a, ok := ir.Root(fa.X).(*ssa.Alloc)
				if !ok {
					continue
				}
				if fresh[a] == nil {
					fresh[a] = map[string]bool{}
				}
				fresh[a][strings.TrimPrefix(c.P.FieldKey(fa), "websocket.commonFields.")] = true
			}
		}
		for a, set := range fresh {
			if len(set) < 3 {
				continue
			}
			nb++
			if !set["MessageLengthLimit"] {
				bad = c.P.FuncName(f) + " fills a fresh commonFields at " + c.Pos(a) + " field by field and leaves MessageLengthLimit out: the connection that gets it accepts messages, fragment sums and inflated sizes of any length"
			}
		}
	}
	c.Cond(bad == "", "C15.O10", "websocket: commonFields built with the limit", "", fmt.Sprintf("%d builder(s)", nb), bad)
}
