package props

import (
	"go/token"

	"golang.org/x/tools/go/ssa"

	"verif/internal/ir"
)

// staticCallees lists the module functions f calls directly (call/defer; its
// locally invoked closures count as part of f).
func (c *Ctx) staticCallees(f *ssa.Function) []*ssa.Function {
	var out []*ssa.Function
	for _, g := range ir.WithClosures(f) {
		for _, b := range g.Blocks {
			for _, in := range b.Instrs {
				if cs, ok := ir.AsCall(in); ok {
					if callee := ir.StaticCallee(cs.Common); callee != nil && c.P.InModule(callee) {
						out = append(out, callee)
					}
				}
			}
		}
	}
	return out
}

// reachers computes the functions (within scope) from which a function of the
// seed set is reachable through static calls; the seeds are included.
func (c *Ctx) reachers(seed map[*ssa.Function]bool, scope []*ssa.Function) map[*ssa.Function]bool {
	out := map[*ssa.Function]bool{}
	for f := range seed {
		out[f] = true
	}
	for changed := true; changed; {
		changed = false
		for _, f := range scope {
			if out[f] {
				continue
			}
			for _, g := range c.staticCallees(f) {
				if out[g] || out[ir.Outermost(g)] {
					out[f] = true
					changed = true
					break
				}
			}
		}
	}
	return out
}

// writeSinks returns the nbio functions that (transitively) perform a kernel
// write on a connection descriptor, and those that (transitively) enqueue.
func (c *Ctx) writeSinks() (kernel, enqueue map[*ssa.Function]bool) {
	k := c.Core()
	ks := map[*ssa.Function]bool{}
	for _, cs := range k.KernelWrites {
		ks[cs.In.Parent()] = true
		ks[ir.Outermost(cs.In.Parent())] = true
	}
	es := map[*ssa.Function]bool{}
	for _, f := range k.EnqueueFns {
		es[f] = true
	}
	scope := c.nbioFuncs()
	return c.reachers(ks, scope), c.reachers(es, scope)
}

// isSumOfLens reports that v is an accumulator Σ len(elem) over a range of the
// slice-of-slices parameter: a phi of 0 and (phi + len(x)).
func isSumOfLens(v ssa.Value, param *ssa.Parameter) bool {
	phi, ok := ir.Resolve(v).(*ssa.Phi)
	if !ok {
		return false
	}
	sawZero, sawAdd := false, false
	for _, e := range phi.Edges {
		if n, ok := ir.ConstInt(e); ok && n == 0 {
			sawZero = true
			continue
		}
		b, ok := e.(*ssa.BinOp)
		if !ok || b.Op != token.ADD {
			return false
		}
		var other ssa.Value
		switch {
		case ir.Resolve(b.X) == ssa.Value(phi):
			other = b.Y
		case ir.Resolve(b.Y) == ssa.Value(phi):
			other = b.X
		default:
			return false
		}
		x, isLen := ir.IsLenOf(other)
		if !isLen || !derivedFromElem(x, param) {
			return false
		}
		sawAdd = true
	}
	return sawZero && sawAdd
}

// derivedFromElem reports that x is an element of the slice parameter
// (range value or indexed load).
func derivedFromElem(x ssa.Value, param *ssa.Parameter) bool {
	x = ir.Resolve(x)
	if a, ok := ir.IsLoad(x); ok {
		if ia, ok := a.(*ssa.IndexAddr); ok {
			return ir.Resolve(ia.X) == ssa.Value(param)
		}
	}
	if e, ok := x.(*ssa.Extract); ok {
		if n, ok := e.Tuple.(*ssa.Next); ok {
			if r, ok := n.Iter.(*ssa.Range); ok {
				return ir.Resolve(r.X) == ssa.Value(param)
			}
		}
	}
	return false
}

// paramOfType returns the first parameter whose type prints as ts.
func paramOfType(f *ssa.Function, ts string) *ssa.Parameter {
	for _, p := range f.Params {
		if p.Type().String() == ts {
			return p
		}
	}
	return nil
}

// usedAsCond returns the If instructions whose condition is (a negation of) v.
func usedAsCond(v ssa.Value) []*ssa.If {
	var out []*ssa.If
	var rec func(x ssa.Value)
	rec = func(x ssa.Value) {
		refs := x.Referrers()
		if refs == nil {
			return
		}
		for _, r := range *refs {
			switch u := r.(type) {
			case *ssa.If:
				out = append(out, u)
			case *ssa.UnOp:
				if u.Op == token.NOT {
					rec(u)
				}
			}
		}
	}
	rec(v)
	return out
}

// edgeOf returns the successor index of `i` taken when value v (possibly
// negated in the condition) is `truth`.
func edgeOf(i *ssa.If, v ssa.Value, truth bool) int {
	c, t := ir.StripNot(i.Cond, true)
	_ = c
	// t tells whether cond true corresponds to v true
	if t == truth {
		return 0
	}
	return 1
}

// instrsOf lists all instructions of fn satisfying pred.
func instrsOf(fn *ssa.Function, pred func(ssa.Instruction) bool) []ssa.Instruction {
	var out []ssa.Instruction
	for _, b := range fn.Blocks {
		for _, in := range b.Instrs {
			if pred(in) {
				out = append(out, in)
			}
		}
	}
	return out
}

// isNonNilErrorValue reports an error operand that is certainly non-nil by
// construction: a load of a package-level Err*/err* variable, or the result of
// errors.New / fmt.Errorf, or a syscall.Errno constant.
func (c *Ctx) isNonNilErrorValue(v ssa.Value) bool {
	v = ir.Unconv(v)
	if a, ok := ir.IsLoad(v); ok {
		if g, ok := a.(*ssa.Global); ok {
			n := g.Name()
			return len(n) >= 3 && (n[:3] == "Err" || n[:3] == "err")
		}
	}
	if call, ok := v.(*ssa.Call); ok {
		switch c.P.CalleeName(&call.Call) {
		case "errors.New", "fmt.Errorf":
			return true
		}
	}
	if k, ok := v.(*ssa.Const); ok && k.Value != nil {
		return true
	}
	return false
}

// lessThanFact normalises a branch fact into "x < y holds" / "x <= y holds": it
// returns the operands with strict reporting whether the inequality is strict.
// Recognised: x<y, y>x, !(x>=y), !(y<=x) (strict) and x<=y, y>=x, !(x>y), !(y<x).
func lessThanFact(ft ir.Fact) (x, y ssa.Value, strict bool, ok bool) {
	b, isB := ft.Cond.(*ssa.BinOp)
	if !isB {
		return nil, nil, false, false
	}
	x, y = b.X, b.Y
	op := b.Op
	if !ft.Truth {
		// !(x op y)  ==  x op' y
		switch op {
		case token.LSS:
			op = token.GEQ
		case token.LEQ:
			op = token.GTR
		case token.GTR:
			op = token.LEQ
		case token.GEQ:
			op = token.LSS
		default:
			return nil, nil, false, false
		}
	}
	switch op {
	case token.LSS:
		return x, y, true, true
	case token.LEQ:
		return x, y, false, true
	case token.GTR:
		return y, x, true, true
	case token.GEQ:
		return y, x, false, true
	}
	return nil, nil, false, false
}

// dependsOn computes the values of fn (and of its closures' bodies are NOT
// followed) that are data-dependent on one of the seeds: through operands of
// pure instructions, through local cells (a Store of a dependent value into an
// Alloc makes every load of that Alloc dependent) and through fields (a Store
// of a dependent value into field K makes every load of field K in fn
// dependent).  Calls do not propagate, except conversions/len-like builtins.
func (c *Ctx) dependsOn(fn *ssa.Function, seeds ...ssa.Value) map[ssa.Value]bool {
	dep := map[ssa.Value]bool{}
	for _, s := range seeds {
		dep[s] = true
	}
	cells := map[ssa.Value]bool{}
	fields := map[string]bool{}
	for changed := true; changed; {
		changed = false
		for _, b := range fn.Blocks {
			for _, in := range b.Instrs {
				switch x := in.(type) {
				case *ssa.Store:
					if !dep[x.Val] {
						continue
					}
					switch a := x.Addr.(type) {
					case *ssa.Alloc:
						if !cells[a] {
							cells[a] = true
							changed = true
						}
					case *ssa.IndexAddr:
						// an element of a local array (the backing store of a variadic argument list)
						if al, ok := a.X.(*ssa.Alloc); ok && !cells[al] {
							cells[al] = true
							changed = true
						}
					case *ssa.FieldAddr:
						if k := c.P.FieldKey(a); k != "" && !fields[k] {
							fields[k] = true
							changed = true
						}
					}
					continue
				case *ssa.Call:
					if _, isB := x.Call.Value.(*ssa.Builtin); !isB {
						continue
					}
				}
				v, ok := in.(ssa.Value)
				if !ok || dep[v] {
					continue
				}
				hit := false
				if u, ok := in.(*ssa.UnOp); ok && u.Op == token.MUL {
					switch a := u.X.(type) {
					case *ssa.Alloc:
						hit = cells[a]
					case *ssa.FieldAddr:
						hit = fields[c.P.FieldKey(a)]
					}
				}
				if sl, ok := in.(*ssa.Slice); ok && !hit {
					if al, ok := sl.X.(*ssa.Alloc); ok && cells[al] {
						hit = true
					}
				}
				if !hit {
					for _, op := range in.Operands(nil) {
						if *op != nil && dep[*op] {
							hit = true
							break
						}
					}
				}
				if hit {
					dep[v] = true
					changed = true
				}
			}
		}
	}
	return dep
}

// pathFactsAvoiding enumerates the acyclic paths from the instruction `from`
// to an exit of its function that do not execute an instruction satisfying
// `avoid`, and returns for each the branch outcomes taken along it (cycles are
// cut: a block is entered at most once per path).  complete is false when the
// enumeration was cut at limit paths.
func pathFactsAvoiding(fi *ir.FnInfo, from ssa.Instruction, avoid func(ssa.Instruction) bool, limit int) (paths [][]ir.Fact, exits []ssa.Instruction, complete bool) {
	complete = true
	onPath := map[*ssa.BasicBlock]bool{}
	var rec func(b *ssa.BasicBlock, start int, facts []ir.Fact)
	rec = func(b *ssa.BasicBlock, start int, facts []ir.Fact) {
		if !complete {
			return
		}
		for i := start; i < len(b.Instrs); i++ {
			if avoid(b.Instrs[i]) {
				return
			}
		}
		if len(b.Succs) == 0 {
			if len(paths) >= limit {
				complete = false
				return
			}
			paths = append(paths, append([]ir.Fact(nil), facts...))
			exits = append(exits, b.Instrs[len(b.Instrs)-1])
			return
		}
		onPath[b] = true
		for k, s := range b.Succs {
			if onPath[s] {
				continue
			}
			nf := facts
			if i, ok := b.Instrs[len(b.Instrs)-1].(*ssa.If); ok && b.Succs[0] != b.Succs[1] {
				cnd, t := ir.StripNot(i.Cond, k == 0)
				nf = append(append([]ir.Fact(nil), facts...), ir.Fact{If: i, Cond: cnd, Truth: t})
			}
			rec(s, 0, nf)
		}
		onPath[b] = false
	}
	b := from.Block()
	idx := 0
	for i, in := range b.Instrs {
		if in == from {
			idx = i + 1
		}
	}
	rec(b, idx, fi.Facts(from))
	return
}
