package props

import (
	"fmt"
	"go/token"
	"strings"

	"golang.org/x/tools/go/ssa"

	"verif/internal/ir"
)

func init() {
	register(&Property{
		ID:          "C06",
		Engines:     []string{"cfg"},
		Explanation: "Segmentation independence is an equivalence over all (message, cut) pairs and is not decided; what is decided is the mechanism it rests on. Parse resumes by prepending the carried bytes, so a cut can only matter through per-call local state, the carry/rebase code, or an exit that skips the carry: the only values carried from one byte to the next are the index, the token start and the data slice — everything else lives in Parser fields (O1); the loop starts at the carried length with token start 0, and the carry block stores exactly data[start:] (size len(data)-start) when something is left, keeps the buffer when start==0 and releases it when nothing is left (O2); the only success returns are the empty-input guard, the upgrade hand-off and the return behind the carry block, and body states leave the loop only on their 'not enough bytes yet' edge into the carry block (O3); only Parse writes the carry buffer (O4). Before the incoming bytes are joined to the carried ones Parse rejects only on the terminal state and on ReadLimit (O5); the index and the token start move only in the allowed forms, never by look-ahead (O6). No look-ahead byte loads (O7).",
		NotCovered:  "equality of the event sequences themselves; the per-state token logic (start = i versus i+1 is value-level); ReadLimit, which by construction makes rejection depend on segmentation and is excluded by the property's own bound",
		Run:         runC06,
	})
}

func runC06(c *Ctx) {
	c.Rule("C06.O1", "E4/SSA", "the loop-carried values of Parse's byte loop are exactly the index family, the token-start family and the data slice", 1)
	c.Rule("C06.O2", "E4", "resume at the carried length with start 0; carry block stores data[start:] of size len(data)-start under left>0, keeps the buffer when start==0, releases it when nothing is left", 2)
	c.Rule("C06.O3", "E4", "success returns: empty-input guard, upgrade hand-off, and the return behind the carry block only; body states enter the carry block only on their 'left < need' edge", 2)
	c.Rule("C06.O5", "E4", "before the incoming bytes are joined to the carried ones, Parse rejects only on the terminal state and on ReadLimit (excluded by the property); any other per-call rejection would depend on where the stream was cut", 1)
	c.Rule("C06.O6", "E4/SSA", "the index moves only by the loop's +1 or to start-1 after a counted body; the token start is set only to the index, the index+1, 0, or start + the body/chunk length: no jump is computed by looking ahead in the buffer", 2)
	c.Rule("C06.O4", "E5", "only Parse stores to Parser.bytesCached", 1)
	c.Rule("C06.O7", "E4/SSA", "Parse loads single bytes of the input only at the loop index: no look-ahead (data[i+1]) whose outcome depends on whether the next byte is already there", 1)
	c06NoLookAhead(c)

	parse := c.Fn("C06.O1", fnParse)
	if parse == nil {
		return
	}
	fi := c.P.Info(parse)
	pd := paramOfType(parse, "[]byte")

	// the byte loop: the If comparing an int phi with len(data-phi)
	var header *ssa.If
	var idxPhi *ssa.Phi
	var dataPhi *ssa.Phi
	for _, i := range fi.Ifs() {
		b, ok := stripNot(i.Cond).(*ssa.BinOp)
		if !ok || b.Op != token.LSS {
			continue
		}
		ph, isPhi := ir.Resolve(b.X).(*ssa.Phi)
		x, isLen := ir.IsLenOf(ir.Resolve(b.Y))
		if !isPhi || !isLen {
			continue
		}
		dp, isDP := ir.Resolve(x).(*ssa.Phi)
		if !isDP || !fi.InLoop(i) {
			continue
		}
		header, idxPhi, dataPhi = i, ph, dp
	}
	if header == nil {
		c.Unres("C06.O1", fnKey(c.P, parse, "byte loop"), "loop header `i < len(data)` not found")
		return
	}
	loop := fi.LoopBlocks(header.Block())

	// ------------------------------------------------------------------ O1
	// phi families
	var phis []*ssa.Phi
	for _, b := range parse.Blocks {
		if !loop[b] && b != dataPhi.Block() {
			continue
		}
		for _, in := range b.Instrs {
			if p, ok := in.(*ssa.Phi); ok {
				if p.Comment == "||" || p.Comment == "&&" {
					// the value of a short-circuit expression, not a variable: it joins
					// operands computed in this iteration (an operand that is itself
					// carried round the loop is a phi of its own and is examined as such)
					continue
				}
				phis = append(phis, p)
			}
		}
	}
	parent := map[*ssa.Phi]*ssa.Phi{}
	var find func(p *ssa.Phi) *ssa.Phi
	find = func(p *ssa.Phi) *ssa.Phi {
		if parent[p] == nil || parent[p] == p {
			parent[p] = p
			return p
		}
		r := find(parent[p])
		parent[p] = r
		return r
	}
	inSet := map[*ssa.Phi]bool{}
	for _, p := range phis {
		inSet[p] = true
	}
	base := func(v ssa.Value) *ssa.Phi {
		v = ir.Resolve(v)
		for d := 0; d < 4; d++ {
			switch x := v.(type) {
			case *ssa.Phi:
				if inSet[x] {
					return x
				}
				return nil
			case *ssa.BinOp:
				if _, isK := ir.ConstInt(x.Y); isK && (x.Op == token.ADD || x.Op == token.SUB) {
					v = ir.Resolve(x.X)
					continue
				}
				return nil
			default:
				return nil
			}
		}
		return nil
	}
	// a family = the phi nodes of one source variable (go/ssa records the
	// variable a phi was lifted from; renaming the variable renames them all)
	byVar := map[string]*ssa.Phi{}
	for _, p := range phis {
		k := p.Comment + "|" + p.Type().String()
		if q, ok := byVar[k]; ok {
			parent[find(p)] = find(q)
		} else {
			byVar[k] = p
		}
	}
	// roles
	role := map[*ssa.Phi]string{}
	role[find(idxPhi)] = "index"
	role[find(dataPhi)] = "data"
	for _, b := range parse.Blocks {
		for _, in := range b.Instrs {
			if sl, ok := in.(*ssa.Slice); ok && sl.Low != nil {
				if dp, isDP := ir.Resolve(sl.X).(*ssa.Phi); isDP && find(dp) == find(dataPhi) {
					if sp := base(sl.Low); sp != nil && role[find(sp)] == "" {
						role[find(sp)] = "start"
					}
				}
			}
		}
	}
	families := map[*ssa.Phi]bool{}
	bad := ""
	for _, p := range phis {
		r := find(p)
		families[r] = true
		if role[r] == "" {
			used := false
			if refs := p.Referrers(); refs != nil {
				for _, u := range *refs {
					if _, dbg := u.(*ssa.DebugRef); !dbg {
						used = true
					}
				}
			}
			if used {
				bad = fmt.Sprintf("a value of type %s (%s) is carried from one byte to the next in a local variable at %s: it is lost when the input is cut between two calls, so the parse would depend on the segmentation", p.Type(), c.P.Desc(p), c.Pos(p))
			}
		}
	}
	nRoles := map[string]int{}
	for r := range families {
		nRoles[role[r]]++
	}
	if bad == "" && (nRoles["index"] != 1 || nRoles["start"] != 1 || nRoles["data"] != 1) {
		bad = fmt.Sprintf("loop-carried families: %v, expected one index, one start and the data slice", nRoles)
	}
	c.Cond(bad == "", "C06.O1", fnKey(c.P, parse, "no hidden per-call state"), c.Pos(header), fmt.Sprintf("%d phi nodes in %d families: index, start, data", len(phis), len(families)), bad)

	var startFam *ssa.Phi
	for r := range families {
		if role[r] == "start" {
			startFam = r
		}
	}

	// ------------------------------------------------------------------ O2
	{
		bad := ""
		// entry values of the header's index phi: everything that is not the
		// post-increment of the loop must be the cached length
		for _, e := range idxPhi.Edges {
			if b, ok := ir.Resolve(e).(*ssa.BinOp); ok && b.Op == token.ADD {
				if k, isK := ir.ConstInt(b.Y); isK && k == 1 && base(b.X) != nil && find(base(b.X)) == find(idxPhi) {
					continue
				}
			}
			if !c.isCachedLen(e) {
				bad = "the byte loop does not resume at the carried length (it starts at " + c.P.Desc(e) + "): carried bytes would be parsed twice or skipped"
			}
		}
		// the token start enters the loop as 0 (possibly through the UPGRADER label's phi)
		var entryVals func(p *ssa.Phi, seen map[*ssa.Phi]bool)
		entryVals = func(p *ssa.Phi, seen map[*ssa.Phi]bool) {
			if seen[p] {
				return
			}
			seen[p] = true
			for i, e := range p.Edges {
				if q, isPhi := ir.Resolve(e).(*ssa.Phi); isPhi && startFam != nil && inSet[q] && find(q) == startFam {
					if !loop[q.Block()] || q.Block() == dataPhi.Block() {
						entryVals(q, seen)
					}
					continue
				}
				if loop[p.Block().Preds[i]] && p.Block() != dataPhi.Block() && p.Block() != header.Block() {
					continue
				}
				if k, isK := ir.ConstInt(e); !isK || k != 0 {
					if p.Block() == header.Block() {
						continue // the per-iteration value from the loop's post block
					}
					bad = "the token start is not rebased to 0 on entry (it enters as " + c.P.Desc(e) + ")"
				}
			}
		}
		for _, p := range phis {
			if startFam != nil && find(p) == startFam && p.Block() == header.Block() {
				entryVals(p, map[*ssa.Phi]bool{})
			}
		}
		c.Cond(bad == "", "C06.O2", fnKey(c.P, parse, "resume point"), c.Pos(header), "index starts at the cached length, start at 0", bad)
	}
	// the carry block
	{
		bad := ""
		key := fnKey(c.P, parse, "carry block")
		// left = len(data) - start
		isLeft := func(v ssa.Value) bool {
			b, ok := ir.Resolve(v).(*ssa.BinOp)
			if !ok || b.Op != token.SUB {
				return false
			}
			x, isLen := ir.IsLenOf(ir.Resolve(b.X))
			if !isLen {
				return false
			}
			dp, isDP := ir.Resolve(x).(*ssa.Phi)
			sp := base(b.Y)
			return isDP && find(dp) == find(dataPhi) && sp != nil && startFam != nil && find(sp) == startFam
		}
		nCopy := 0
		for _, cs := range c.P.CallsNamed(parse, "builtin:copy") {
			ld, isLoad := ir.IsLoad(ir.Unconv(cs.Common.Args[0]))
			if !isLoad || c.P.LoadedField(ir.Unconv(ld)) != "nbhttp.Parser.bytesCached" {
				continue
			}
			nCopy++
			sl, ok := ir.Resolve(cs.Common.Args[1]).(*ssa.Slice)
			if !ok || sl.High != nil || sl.Low == nil {
				bad = "the carry copies " + c.P.Desc(cs.Common.Args[1]) + ", not data[start:]"
				continue
			}
			dp, isDP := ir.Resolve(sl.X).(*ssa.Phi)
			sp := base(sl.Low)
			if !isDP || find(dp) != find(dataPhi) || sp == nil || startFam == nil || find(sp) != startFam || ir.Resolve(sl.Low) != ssa.Value(sp) {
				bad = "the carry copies " + c.P.Desc(cs.Common.Args[1]) + ", not data[start:]: bytes of the unfinished token would be dropped or duplicated"
			}
			// left > 0
			if !fi.HasFact(cs.In, func(ft ir.Fact) bool {
				cmp, ok := ir.DecodeIntCmp(ft.Cond)
				return ok && isLeft(cmp.Expr) && cmp.Holds(1) == ft.Truth && cmp.Holds(0) != ft.Truth
			}) {
				bad = "the carry copy is not on the left > 0 edge"
			}
		}
		nMalloc := 0
		for _, cs := range c.P.CallsNamed(parse, "mempool.Malloc") {
			nMalloc++
			if !isLeft(cs.Common.Args[0]) {
				bad = "the carry buffer is allocated with size " + c.P.Desc(cs.Common.Args[0]) + ", not len(data)-start"
			}
		}
		if nCopy != 2 || nMalloc != 2 {
			bad = fmt.Sprintf("expected two carry sites (first carry / re-carry), found %d copies and %d allocations", nCopy, nMalloc)
		}
		// keep when start == 0 and a carry exists: every store to bytesCached in the carry region
		// is on the (no carry yet) or (start > 0) edge; release on the nothing-left edge
		var carryEntry ssa.Instruction
		for _, sb := range header.Block().Succs {
			if !loop[sb] && len(sb.Instrs) > 0 {
				carryEntry = sb.Instrs[0]
			}
		}
		for _, st := range c.P.StoresTo(parse, "nbhttp.Parser.bytesCached") {
			if carryEntry == nil || !(fi.CanReach(carryEntry, st) || carryEntry == ssa.Instruction(st)) || fi.CanReach(st, header) {
				continue // the append before the loop / the upgrade release
			}
			if ir.IsNilConst(st.Val) {
				if !fi.HasFact(st, func(ft ir.Fact) bool {
					cmp, ok := ir.DecodeIntCmp(ft.Cond)
					return ok && isLeft(cmp.Expr) && cmp.Holds(1) != ft.Truth && cmp.Holds(0) == ft.Truth
				}) {
					bad = "the carry buffer is dropped although bytes are left"
				}
				continue
			}
			okEdge := fi.HasFact(st, func(ft ir.Fact) bool {
				if x, isNil, ok := ir.NilTest(ft.Cond, ft.Truth); ok && isNil && c.P.LoadedField(x) == "nbhttp.Parser.bytesCached" {
					return true
				}
				cmp, ok := ir.DecodeIntCmp(ft.Cond)
				if !ok {
					return false
				}
				sp := base(cmp.Expr)
				return sp != nil && startFam != nil && find(sp) == startFam && cmp.Holds(1) == ft.Truth && cmp.Holds(0) != ft.Truth
			})
			if !okEdge {
				bad = "the carry buffer is replaced although nothing was consumed (start == 0): the retained bytes would be copied over themselves or lost"
			}
		}
		c.Cond(bad == "", "C06.O2", key, c.FnPos(parse), "data[start:] of size len(data)-start under left>0; kept when start==0; released when nothing is left", bad)
	}

	// ------------------------------------------------------------------ O3
	{
		bad := ""
		n := 0
		var finalRet *ssa.Return
		for _, r := range fi.Returns() {
			rv := ir.RetVals(r)
			if !ir.IsNilConst(rv[0]) {
				continue
			}
			n++
			// allowed: the empty-input guard (before the loop, under len(data)==0) or the return the loop cannot be re-entered from
			guard := fi.HasFact(r, func(ft ir.Fact) bool {
				e, zero, ok := ir.ZeroTest(ft.Cond, ft.Truth)
				if !ok || !zero {
					return false
				}
				x, isLen := ir.IsLenOf(ir.Resolve(e))
				return isLen && ir.Resolve(x) == ssa.Value(pd)
			})
			if guard {
				continue
			}
			if loop[r.Block()] {
				bad = "Parse returns success at " + c.Pos(r) + " from inside the byte loop without going through the carry block: the unconsumed bytes of this call would be lost"
				continue
			}
			finalRet = r
		}
		if finalRet == nil && bad == "" {
			bad = "no success return behind the carry block"
		}
		if n != 2 && bad == "" {
			bad = fmt.Sprintf("expected two success returns (empty input, after the carry block), found %d", n)
		}
		c.Cond(bad == "", "C06.O3", fnKey(c.P, parse, "success exits"), c.FnPos(parse), "empty-input guard + return behind the carry block", bad)

		// jumps from body states into the carry block
		bad = ""
		var exitBlock *ssa.BasicBlock
		for _, s := range header.Block().Succs {
			if !loop[s] {
				exitBlock = s
			}
		}
		nBody := 0
		if exitBlock == nil {
			bad = "carry block not found"
		} else {
			for _, p := range exitBlock.Preds {
				if p == header.Block() {
					continue
				}
				nBody++
				i, isIf := p.Instrs[len(p.Instrs)-1].(*ssa.If)
				if !isIf {
					bad = "the carry block is entered unconditionally from " + c.Pos(p.Instrs[0])
					continue
				}
				b, ok := stripNot(i.Cond).(*ssa.BinOp)
				okCmp := false
				if ok && (b.Op == token.GEQ || b.Op == token.LSS) {
					// (len(data)-start) >= need
					if lb, isB := ir.Resolve(b.X).(*ssa.BinOp); isB && lb.Op == token.SUB {
						if _, isLen := ir.IsLenOf(ir.Resolve(lb.X)); isLen {
							if sp := base(lb.Y); sp != nil && startFam != nil && find(sp) == startFam {
								need := c.P.LoadedField(ir.Resolve(b.Y))
								if need == "nbhttp.Parser.contentLength" || need == "nbhttp.Parser.chunkSize" {
									// Exit must be the "not enough" successor
									notEnough := 1
									if b.Op == token.LSS {
										notEnough = 0
									}
									if _, t := ir.StripNot(i.Cond, true); !t {
										notEnough = 1 - notEnough
									}
									okCmp = p.Succs[notEnough] == exitBlock
								}
							}
						}
					}
				}
				if !okCmp {
					bad = "a state leaves the byte loop into the carry block at " + c.Pos(i) + " on something other than 'fewer bytes buffered than the body/chunk needs'"
				}
			}
			if nBody != 2 && bad == "" {
				bad = fmt.Sprintf("expected the two body states to wait in the carry block, found %d", nBody)
			}
		}
		c.Cond(bad == "", "C06.O3", fnKey(c.P, parse, "body states wait for the whole body"), c.FnPos(parse), "Content-Length and chunk-data states leave only on left < need", bad)
	}

	// ------------------------------------------------------------------ O6
	{
		idxFam := find(idxPhi)
		isK := func(v ssa.Value, k int64) bool { x, ok := ir.ConstInt(v); return ok && x == k }
		famOf := func(v ssa.Value) *ssa.Phi {
			if p := base(v); p != nil {
				return find(p)
			}
			return nil
		}
		lenField := func(v ssa.Value) bool {
			k := c.P.LoadedField(ir.Resolve(v))
			return k == "nbhttp.Parser.contentLength" || k == "nbhttp.Parser.chunkSize"
		}
		check := func(fam *ssa.Phi, what string, allowed func(v ssa.Value) bool) {
			bad := ""
			n := 0
			for _, p := range phis {
				if find(p) != fam {
					continue
				}
				for k, e := range p.Edges {
					v := ir.Resolve(e)
					if q, isPhi := v.(*ssa.Phi); isPhi && inSet[q] && find(q) == fam {
						continue
					}
					if !loop[p.Block().Preds[k]] {
						continue // value at loop entry: decided by O2
					}
					if in, isIn := v.(ssa.Instruction); isIn && !loop[in.Block()] {
						continue // computed before the loop (the label before the loop belongs to the cycle): O2
					}
					n++
					if !allowed(v) {
						bad = "the " + what + " is set to " + c.P.Desc(v) + " on the edge into " + c.Pos(p) + ": a position computed from anything but the current index or a counted body length depends on how many bytes happen to be buffered"
					}
				}
			}
			if n == 0 && bad == "" {
				bad = "no assignment of the " + what + " found inside the loop"
			}
			c.Cond(bad == "", "C06.O6", fnKey(c.P, parse, what+" moves"), c.Pos(header), fmt.Sprintf("%d in-loop assignment(s), all of an allowed form", n), bad)
		}
		check(idxFam, "index", func(v ssa.Value) bool {
			b, ok := v.(*ssa.BinOp)
			if !ok || !isK(b.Y, 1) {
				return false
			}
			switch b.Op {
			case token.ADD:
				return famOf(b.X) == idxFam
			case token.SUB:
				if startFam == nil {
					return false
				}
				if famOf(b.X) == startFam {
					return true
				}
				if a, ok := ir.Resolve(b.X).(*ssa.BinOp); ok && a.Op == token.ADD && famOf(a.X) == startFam {
					return lenField(a.Y)
				}
			}
			return false
		})
		if startFam != nil {
			check(startFam, "token start", func(v ssa.Value) bool {
				if isK(v, 0) {
					return true
				}
				if f := famOf(v); f == idxFam {
					// i or i+1
					if b, ok := v.(*ssa.BinOp); ok {
						return b.Op == token.ADD && isK(b.Y, 1)
					}
					return true
				}
				if b, ok := v.(*ssa.BinOp); ok && b.Op == token.ADD && famOf(b.X) == startFam {
					return lenField(b.Y)
				}
				return false
			})
		}
	}

	// ------------------------------------------------------------------ O5
	{
		first := parse.Blocks[0].Instrs[0]
		vis, _ := fi.Reach([]ssa.Instruction{first}, func(in ssa.Instruction) bool { return in == ssa.Instruction(header) })
		bad := ""
		n := 0
		mentions := func(v ssa.Value, field string) bool {
			seen := map[ssa.Value]bool{}
			var walk func(v ssa.Value, d int) bool
			walk = func(v ssa.Value, d int) bool {
				if v == nil || seen[v] || d > 6 {
					return false
				}
				seen[v] = true
				if k := c.P.LoadedField(v); strings.HasSuffix(k, field) {
					return true
				}
				if in, ok := v.(ssa.Instruction); ok {
					for _, op := range in.Operands(nil) {
						if *op != nil && walk(*op, d+1) {
							return true
						}
					}
				}
				return false
			}
			return walk(v, 0)
		}
		for _, r := range fi.Returns() {
			if !vis[r] || loop[r.Block()] {
				continue
			}
			if ir.IsNilConst(ir.RetVals(r)[0]) {
				continue
			}
			if call, isCall := ir.Resolve(ir.RetVals(r)[0]).(*ssa.Call); isCall && c.P.CalleeName(&call.Call) == "invoke:nbhttp.ParserCloser.Parse" {
				continue // hand-off to the upgraded protocol's parser
			}
			n++
			closeK := c.stateConsts()["stateClose"]
			failed := c.parseFailureField(parse)
			ok := fi.HasFact(r, func(ft ir.Fact) bool {
				if mentions(ft.Cond, ".ReadLimit") {
					return true
				}
				// the record of an earlier failure (written only when Parse returns an error) is a terminal state too
				if x, isNil, isTest := ir.NilTest(ft.Cond, ft.Truth); isTest && !isNil && failed != "" && c.P.LoadedField(ir.Resolve(x)) == failed {
					return true
				}
				cmp, isCmp := ir.DecodeIntCmp(ft.Cond)
				return isCmp && c.P.LoadedField(cmp.Expr) == "nbhttp.Parser.state" && !cmp.NotEq && cmp.TrueSet.Lo == closeK && cmp.TrueSet.Hi == closeK && ft.Truth
			})
			if !ok {
				bad = "Parse rejects at " + c.Pos(r) + " before the incoming bytes are joined to the carried ones, on a condition other than the terminal state or ReadLimit: the same stream is accepted or rejected depending on where it was cut"
			}
		}
		c.Cond(bad == "", "C06.O5", fnKey(c.P, parse, "per-call rejections"), c.FnPos(parse), fmt.Sprintf("%d rejection(s) before the join: terminal state, ReadLimit", n), bad)
	}

	// ------------------------------------------------------------------ O4
	{
		writers := map[string]bool{}
		n := 0
		for _, f := range c.libFuncs() {
			for _, st := range c.P.StoresTo(f, "nbhttp.Parser.bytesCached") {
				if _, fresh := ir.Root(st.Addr.(*ssa.FieldAddr).X).(*ssa.Alloc); fresh {
					continue
				}
				writers[c.P.FuncName(ir.Outermost(f))] = true
				n++
			}
		}
		ok := len(writers) == 1 && writers[fnParse] && n == 5
		c.Cond(ok, "C06.O4", "writers of nbhttp.Parser.bytesCached", "", fmt.Sprintf("%v (%d stores)", sortedKeys(writers), n),
			fmt.Sprintf("the carry buffer is written by %v (%d stores); expected only Parse (append, upgrade release, two carries, release)", sortedKeys(writers), n))
	}
}

// stripCmp returns the non-constant operand of a comparison (or v itself).
func stripCmp(v ssa.Value) ssa.Value {
	if b, ok := stripNot(v).(*ssa.BinOp); ok {
		if _, isK := b.Y.(*ssa.Const); isK {
			return ir.Resolve(b.X)
		}
		if _, isK := b.X.(*ssa.Const); isK {
			return ir.Resolve(b.Y)
		}
	}
	return v
}
