package props

import (
	"fmt"
	"go/types"
	"strings"

	"golang.org/x/tools/go/ssa"

	"verif/internal/ir"
)

func init() {
	register(&Property{
		ID:          "C18",
		Engines:     []string{"cfg", "lockset"},
		Explanation: "Stop, structural part (termination itself is liveness): Engine.Stop performs its steps in the order listeners -> snapshot under the engine mutex -> close every snapshot entry -> wgConn.Wait -> stop hook -> timer / IO pool -> IO pollers -> WaitGroup.Wait, with both waits on every path to the return (O1); poller.stop stores the shutdown flag before the wake-up and both loops re-read it every iteration (O2); every poller goroutine is started after Add(1), defers Done first and (IO pollers) the close of its descriptors, newPoller closes what it opened on each error exit, nbhttp.listen pairs Add with a deferred Done (O3); nbhttp Stop/Shutdown stop listeners, listener mux and pools in the required order (O4); lmux.Stop closes every listener and the close channel and Accept selects on it (O5); the connection WaitGroup Add/Done sites are the frozen sets (O6). The blocking readers' clean-up untracks, reports and releases on every path (O7); every torn-down connection reaches the close notification (O8). Only poller.stop writes the shutdown flag (O10); Shutdown's wait loop sweeps every iteration (O11). The plain reader closes its connection (O7); dialer registration failure without notification (O12); queue sends releasable by Stop (O13); transferred connections tracked before registration (O14). nbhttp.Stop sweeps the tracked connections (O4). The acceptor adds what it accepts itself (O16); a connection published behind the sweep closes itself (O17); nbhttp's accept goroutine leaves on a closed listener (O18).",
		NotCovered:  "that Stop returns; goroutine / descriptor counts; races of Stop with accepts and callbacks",
		Run:         runC18,
	})
}

func runC18(c *Ctx) {
	c.Rule("C18.O1", "E4", "Engine.Stop: listeners -> wait for the acceptor goroutines (a connection accepted just before the listener closed is added before the snapshot, not behind it) -> snapshot (under Engine.mux) -> closes -> wgConn.Wait -> onStop -> Timer.Stop / ioTaskPool.Stop -> pollers -> WaitGroup.Wait; both waits dominate the return", 2)
	c.Rule("C18.O2", "E4", "poller.stop stores shutdown before the wake-up; acceptorLoop and readWriteLoop re-read shutdown in their loop condition", 3)
	c.Rule("C18.O3", "E4", "go p.start() preceded by Add(1); start defers Done first and the descriptor closes before the IO loop; newPoller closes opened descriptors on error exits; nbhttp.listen pairs Add/deferred Done", 4)
	c.Rule("C18.O4", "E5", "nbhttp.Stop: shutdown flag, listeners, then core Stop; stopListeners stops the mux in mixed mode; the stop hook stops both pools and replaces the executors; Shutdown closes tracked connections before delegating; Stop closes them too (the blocking-mode ones are known only to the HTTP engine)", 5)
	c.Rule("C18.O5", "E4", "lmux.Stop closes each underlying listener and the close channel; ChanListener.Accept selects on the close channel", 2)
	c.Rule("C18.O11", "E4", "nbhttp Shutdown's wait loop closes the tracked connections on every iteration, not only before the loop: connections that appear in the tables after the first sweep are closed too", 1)
	c.Rule("C18.O12", "E4", "a dialer whose registration fails is torn down without a close notification (Conn.p is nil when addDialer runs the teardown): DialAsyncTimeout releases the connection WaitGroup count itself on that error, a notifying teardown would release it twice and Stop's accounting goes negative", 2)
	c18DialerFailure(c)
	c.Rule("C18.O13", "E4", "a producer can always be released by Stop: every send to the task pool's queue channel is a select case next to a receive from the pool's close channel (or non-blocking); a plain send blocks the poller goroutine that submits read jobs for ever once the queue is full and the pool stopped", 1)
	c.Rule("C18.O14", "E4", "a transferred connection is tracked before it is registered: AddTransferredConn's insert into Engine.conns precedes AddConn (the close job's delete can then only come after it), and the failure path undoes it", 1)
	c18Round5(c)
	c.Rule("C18.O15", "E4", "the acceptor goroutines are counted: Engine.Start adds to Engine.wgListeners before it starts a listener's goroutine, and poller.start defers the Done on its listener edge, so the wait in Stop is neither vacuous nor endless", 2)
	c18ListenerCount(c)
	c.Rule("C18.O16", "E5", "the acceptor goroutine registers the connection it accepted itself (a direct call of addConn in acceptorLoop): Stop's wait for the acceptors covers the add only then", 1)
	c18AcceptorAddsItself(c)
	c.Rule("C18.O17", "E1,E4", "a connection published behind Stop's sweep closes itself: Stop sets Engine.stopping under Engine.mux in the critical section that takes the tables, and addConn reads it under the same mutex after the table store and closes on its true edge", 2)
	c18PublishedBehindTheSweep(c)
	c.Rule("C18.O18", "E4", "nbhttp's accept goroutine (counted in the WaitGroup Stop waits for) leaves its loop when the listener is closed, whatever the shutdown flag says, and closes a connection it accepted while shutting down", 2)
	c18AcceptLoopLeaves(c)
	c.Rule("C18.O7", "E4", "the blocking readers' deferred clean-up removes the connection from the tracked set (delete(engine.conns, key) under Engine.mux), reports the close and releases the load slot on every path: Shutdown waits for the set to drain; it closes the connection it was reading unless that was transferred", 4)
	c.Rule("C18.O8", "E4", "every torn-down connection reaches the close notification that releases the connection WaitGroup (same rule as C03.O9): Stop waits on it", 1)
	c.Rule("C18.O9", "E5", "the listener mux's close channel is created once, in its constructor: the channel listeners copy it when they are made, so a later re-assignment leaves them waiting on a channel nobody closes", 1)
	c.Rule("C18.O10", "E5", "the poller's shutdown flag is written only by poller.stop: a loop that resets it when it starts undoes a Stop that ran before the poller goroutine was scheduled, and Stop then waits for that poller forever", 1)
	c.Rule("C18.O6", "E5", "connection WaitGroup pairing (same rule as C03.O3)", 2)
	c18ReaderCleanup(c)
	c18CloseChanOnce(c)
	c18ShutdownWriters(c)
	c03AlwaysNotifies(c, "C18.O8")

	L := c.Locks()

	// ------------------------------------------------------------------ O1
	if st := c.Fn("C18.O1", "(*nbio.Engine).Stop"); st != nil {
		fi := c.P.Info(st)
		type step struct {
			name string
			ins  []ssa.Instruction
		}
		var steps []step
		find := func(name string, pred func(in ssa.Instruction) bool) {
			steps = append(steps, step{name, instrsOf(st, pred)})
		}
		stopOn := func(field string) func(in ssa.Instruction) bool {
			return func(in ssa.Instruction) bool {
				cs, ok := ir.AsCall(in)
				if !ok || c.P.CalleeName(cs.Common) != "(*nbio.poller).stop" {
					return false
				}
				// receiver is an element of g.<field>
				if a, ok := ir.IsLoad(ir.Resolve(cs.Common.Args[0])); ok {
					if ia, ok := a.(*ssa.IndexAddr); ok {
						return c.P.LoadedField(ia.X) == field
					}
				}
				return false
			}
		}
		wgOn := func(method, field string) func(in ssa.Instruction) bool {
			return func(in ssa.Instruction) bool {
				cs, ok := ir.AsCall(in)
				if !ok || c.P.CalleeName(cs.Common) != "(*sync.WaitGroup)."+method {
					return false
				}
				fa, ok := ir.Root(cs.Common.Args[0]).(*ssa.FieldAddr)
				return ok && c.P.FieldKey(fa) == field
			}
		}
		find("stop listeners", stopOn("nbio.Engine.listeners"))
		find("wait for the acceptor goroutines", wgOn("Wait", "nbio.Engine.wgListeners"))
		find("snapshot of connsUnix", func(in ssa.Instruction) bool { return isLoadOfField(in, c.P, fEngConnsUnix) })
		find("close every snapshot entry", func(in ssa.Instruction) bool {
			cs, ok := ir.AsCall(in)
			if !ok || c.P.CalleeName(cs.Common) != "(*timer.Timer).Async" {
				return false
			}
			mc, ok := cs.Common.Args[1].(*ssa.MakeClosure)
			if !ok {
				return false
			}
			return len(c.P.CallsNamed(mc.Fn.(*ssa.Function), "(*nbio.Conn).Close")) == 1
		})
		find("wgConn.Wait", wgOn("Wait", "nbio.Engine.wgConn"))
		find("stop hook", func(in ssa.Instruction) bool {
			cs, ok := ir.AsCall(in)
			return ok && c.P.CalleeName(cs.Common) == "dyn:nbio.Engine.onStop"
		})
		find("Timer.Stop", func(in ssa.Instruction) bool { return c.isCallTo(in, "(*timer.Timer).Stop") })
		find("stop IO pollers", stopOn("nbio.Engine.pollers"))
		find("WaitGroup.Wait", wgOn("Wait", "nbio.Engine.WaitGroup"))
		bad := ""
		for i, s := range steps {
			if len(s.ins) == 0 {
				bad = "step '" + s.name + "' not found in Engine.Stop"
				break
			}
			if i == 0 {
				continue
			}
			p := steps[i-1]
			for _, a := range p.ins {
				for _, b := range s.ins {
					if !fi.CanReach(a, b) || fi.CanReach(b, a) {
						bad = "'" + p.name + "' (" + c.Pos(a) + ") does not strictly precede '" + s.name + "' (" + c.Pos(b) + ")"
					}
				}
			}
		}
		c.Cond(bad == "", "C18.O1", fnKey(c.P, st, "step order"), c.FnPos(st), fmt.Sprintf("%d steps in order", len(steps)), bad)
		// ioTaskPool.Stop between the hook and the pollers (when created)
		if bad == "" {
			for _, in := range instrsOf(st, func(in ssa.Instruction) bool { return c.isCallTo(in, "(*taskpool.IOTaskPool).Stop") }) {
				if !fi.CanReach(steps[5].ins[0], in) || !fi.CanReach(in, steps[7].ins[0]) {
					c.Bad("C18.O1", fnKey(c.P, st, "IO pool stop position"), c.Pos(in), "the IO task pool is not stopped between the stop hook and the pollers")
				}
			}
		}
		// waits dominate every return; snapshot under the engine mutex
		bad = ""
		for _, r := range fi.Returns() {
			for _, w := range []step{steps[4], steps[8]} {
				for _, in := range w.ins {
					if !fi.Dominates(in, r) {
						bad = w.name + " is not on every path to the return: Stop could return before the close notifications / goroutines are done"
					}
				}
			}
		}
		for _, in := range steps[2].ins {
			if !L.HeldClass(in, "nbio.Engine.mux") {
				bad = "the connection snapshot is taken without Engine.mux"
			}
		}
		c.Cond(bad == "", "C18.O1", fnKey(c.P, st, "waits on every path; snapshot locked"), c.FnPos(st), "both waits dominate the return", bad)
	}

	// ------------------------------------------------------------------ O2
	if ps := c.Fn("C18.O2", "(*nbio.poller).stop"); ps != nil {
		fi := c.P.Info(ps)
		var set ssa.Instruction
		for _, st := range c.P.StoresTo(ps, "nbio.poller.shutdown") {
			if isStoreTrue(st, c.P, "nbio.poller.shutdown") {
				set = st
			}
		}
		bad := ""
		n := 0
		if set == nil {
			bad = "poller.stop does not set the shutdown flag"
		} else {
			for _, cs := range c.P.Calls(ps, nil) {
				name := c.P.CalleeName(cs.Common)
				wake := name == "syscall.Write" || (cs.Common.IsInvoke() && cs.Common.Method.Name() == "Close")
				if !wake {
					continue
				}
				n++
				if !fi.Dominates(set, cs.In) {
					bad = "the wake-up at " + c.Pos(cs.In) + " precedes shutdown=true: the loop could re-read a false flag and block again forever"
				}
			}
			if n < 2 {
				bad = fmt.Sprintf("expected the eventfd write and the listener close, found %d wake-ups", n)
			}
		}
		c.Cond(bad == "", "C18.O2", fnKey(c.P, ps, "flag before wake-up"), c.FnPos(ps), "shutdown=true dominates both wake-ups", bad)
	}
	for _, name := range []string{"(*nbio.poller).acceptorLoop", "(*nbio.poller).readWriteLoop"} {
		fn := c.Fn("C18.O2", name)
		if fn == nil {
			continue
		}
		fi := c.P.Info(fn)
		ok := false
		for _, i := range fi.Ifs() {
			k, _, isB := c.P.BoolFieldTest(i.Cond, true)
			if !isB || k != "nbio.poller.shutdown" {
				continue
			}
			ld, _ := ir.Unconv(stripNot(i.Cond)).(*ssa.UnOp)
			if ld == nil || !fi.InLoop(ld) {
				continue
			}
			// the shutdown=true edge leaves the loop: it cannot reach the load again
			for e := 0; e < 2; e++ {
				if _, set, _ := c.P.BoolFieldTest(i.Cond, e == 0); set {
					vis, _ := fi.ReachFromEdge(i, e, nil)
					if !vis[ld] {
						ok = true
					}
				}
			}
		}
		c.Cond(ok, "C18.O2", fnKey(c.P, fn, "flag re-read every iteration"), c.FnPos(fn), "loop condition loads poller.shutdown; the set edge leaves the loop",
			"the loop does not re-read the shutdown flag as its exit condition: stop() could not end it")
	}

	// ------------------------------------------------------------------ O3
	if es := c.Fn("C18.O3", "(*nbio.Engine).Start"); es != nil {
		n := 0
		bad := ""
		for _, in := range instrsOf(es, func(in ssa.Instruction) bool {
			g, ok := in.(*ssa.Go)
			return ok && c.P.CalleeName(&g.Call) == "(*nbio.poller).start"
		}) {
			n++
			added := false
			for _, x := range in.Block().Instrs {
				if x == in {
					break
				}
				if cs, ok := ir.AsCall(x); ok && c.P.CalleeName(cs.Common) == "(*sync.WaitGroup).Add" {
					if fa, ok := ir.Root(cs.Common.Args[0]).(*ssa.FieldAddr); ok && c.P.FieldKey(fa) == "nbio.Engine.WaitGroup" {
						if k, isK := ir.ConstInt(cs.Common.Args[1]); isK && k == 1 {
							added = true
						}
					}
				}
			}
			if !added {
				bad = "go p.start() at " + c.Pos(in) + " is not preceded by Add(1): Stop's Wait could return while the poller still runs (or Done panics)"
			}
		}
		c.Cond(bad == "" && n == 2, "C18.O3", fnKey(c.P, es, "Add(1) before go start"), c.FnPos(es), "2 goroutine starts paired with Add(1)", bad+fmt.Sprintf(" (go sites=%d)", n))
	}
	if ps := c.Fn("C18.O3", "(*nbio.poller).start"); ps != nil {
		fi := c.P.Info(ps)
		bad := ""
		// first call-like instruction is the deferred Done
		var first ir.CallSite
		for _, b := range ps.Blocks[:1] {
			for _, in := range b.Instrs {
				if cs, ok := ir.AsCall(in); ok {
					first = cs
					break
				}
			}
		}
		if first.In == nil || first.Kind != "defer" || c.P.CalleeName(first.Common) != "(*sync.WaitGroup).Done" {
			bad = "start() does not defer WaitGroup.Done before anything else: a panic or early return would hang Stop"
		}
		// deferred closure closing epfd and evtfd dominates readWriteLoop
		var loopCall ssa.Instruction
		for _, cs := range c.P.CallsNamed(ps, "(*nbio.poller).readWriteLoop") {
			loopCall = cs.In
		}
		closes := map[string]bool{}
		for _, cs := range c.P.Calls(ps, nil) {
			if cs.Kind != "defer" {
				continue
			}
			callee := ir.StaticCallee(cs.Common)
			if callee == nil || loopCall == nil || !fi.Dominates(cs.In, loopCall) {
				continue
			}
			for _, x := range c.P.CallsNamed(callee, "syscall.Close") {
				closes[c.P.Desc(x.Common.Args[0])] = true
			}
		}
		if !closes["nbio.poller.epfd"] || !closes["nbio.poller.evtfd"] {
			bad = fmt.Sprintf("the IO poller does not defer the close of its epoll and event descriptors before entering its loop (closes: %v)", sortedKeys(closes))
		}
		c.Cond(bad == "", "C18.O3", fnKey(c.P, ps, "defer Done first; defer descriptor closes"), c.FnPos(ps), "Done deferred first; epfd and evtfd closed on exit", bad)
	}
	if np := c.Fn("C18.O3", "nbio.newPoller"); np != nil {
		c18Resources(c, np)
	}
	if ln := c.Fn("C18.O3", "(*nbhttp.Engine).listen"); ln != nil {
		fi := c.P.Info(ln)
		bad := "no goroutine"
		for _, in := range instrsOf(ln, func(in ssa.Instruction) bool { _, ok := in.(*ssa.Go); return ok }) {
			bad = ""
			added := false
			for _, cs := range c.P.CallsNamed(ln, "(*sync.WaitGroup).Add") {
				if fi.Dominates(cs.In, in) {
					added = true
				}
			}
			if !added {
				bad = "the accept goroutine is started without Add(1)"
			}
			g := ir.StaticCallee(&in.(*ssa.Go).Call)
			done := false
			if g != nil {
				for _, cs := range c.P.Calls(g, nil) {
					if cs.Kind != "defer" {
						continue
					}
					if callee := ir.StaticCallee(cs.Common); callee != nil {
						if len(c.P.CallsNamed(callee, "(*sync.WaitGroup).Done")) == 1 {
							done = true
						}
					}
					if c.P.CalleeName(cs.Common) == "(*sync.WaitGroup).Done" {
						done = true
					}
				}
			}
			if !done {
				bad = "the accept goroutine does not defer Done"
			}
		}
		c.Cond(bad == "", "C18.O3", fnKey(c.P, ln, "Add / deferred Done"), c.FnPos(ln), "paired", bad)
	}

	// ------------------------------------------------------------------ O4
	if st := c.Fn("C18.O4", "(*nbhttp.Engine).Stop"); st != nil {
		fi := c.P.Info(st)
		var flag, lst, core ssa.Instruction
		for _, s := range c.P.StoresTo(st, "nbhttp.Engine.shutdown") {
			flag = s
		}
		for _, cs := range c.P.CallsNamed(st, "(*nbhttp.Engine).stopListeners") {
			lst = cs.In
		}
		for _, cs := range c.P.CallsNamed(st, "(*nbio.Engine).Stop") {
			core = cs.In
		}
		ok := flag != nil && lst != nil && core != nil && fi.Dominates(flag, lst) && fi.Dominates(lst, core)
		c.Cond(ok, "C18.O4", fnKey(c.P, st, "flag, listeners, core"), c.FnPos(st), "shutdown=true -> stopListeners -> core Stop", "nbhttp.Stop does not set the flag, stop the listeners and then stop the core engine in that order")
		// the connections read by blocking-mode goroutines are known only to the HTTP engine
		var sweep ssa.Instruction
		for _, cs := range c.P.CallsNamed(st, "(*nbhttp.Engine).closeAllConns") {
			sweep = cs.In
		}
		okSweep := sweep != nil && lst != nil && core != nil && fi.Dominates(lst, sweep) && fi.Dominates(sweep, core)
		c.Cond(okSweep, "C18.O4", fnKey(c.P, st, "tracked connections closed"), c.FnPos(st), "stopListeners -> closeAllConns -> core Stop",
			"nbhttp.Stop does not close the connections it tracks (closeAllConns between stopListeners and the core Stop): the core engine closes only what its pollers serve, so in IOModBlocking / IOModMixed Stop returns with the blocking-mode connections open, their reader goroutines and descriptors alive")
	}
	if sl := c.Fn("C18.O4", "(*nbhttp.Engine).stopListeners"); sl != nil {
		mux := len(c.P.CallsNamed(sl, "(*lmux.ListenerMux).Stop")) == 1
		closes := 0
		for _, cs := range c.P.Calls(sl, nil) {
			if cs.Common.IsInvoke() && cs.Common.Method.Name() == "Close" {
				closes++
			}
		}
		c.Cond(mux && closes == 1, "C18.O4", fnKey(c.P, sl, "mux and listeners"), c.FnPos(sl), "listener mux stopped, every listener closed", "stopListeners does not stop the listener mux and close every listener")
	}
	if ne := c.Fn("C18.O4", "nbhttp.NewEngine"); ne != nil {
		var hook *ssa.Function
		for _, cs := range c.P.CallsNamed(ne, "(*nbio.Engine).OnStop") {
			if mc, ok := cs.Common.Args[len(cs.Common.Args)-1].(*ssa.MakeClosure); ok {
				hook = mc.Fn.(*ssa.Function)
			}
		}
		if hook == nil {
			c.Unres("C18.O4", "nbhttp stop hook", "closure passed to OnStop not found")
		} else {
			hi := c.P.Info(hook)
			stops := c.P.CallsNamed(hook, "(*taskpool.TaskPool).Stop")
			bad := ""
			if len(stops) != 2 {
				bad = fmt.Sprintf("the stop hook stops %d task pools, expected 2", len(stops))
			}
			for _, s := range stops {
				if !hi.HasFact(s.In, func(ft ir.Fact) bool { _, isNil, ok := ir.NilTest(ft.Cond, ft.Truth); return ok && !isNil }) {
					bad = "a task pool is stopped without the created-check"
				}
			}
			if len(c.P.StoresTo(hook, "nbio.Engine.Execute")) != 1 || len(c.P.StoresTo(hook, "nbhttp.Engine.ExecuteClient")) != 1 {
				bad = "the stop hook does not replace both executors"
			}
			c.Cond(bad == "", "C18.O4", "nbhttp stop hook", c.FnPos(hook), "stops both pools when created; replaces executors", bad)
		}
	}
	if sh := c.Fn("C18.O4", "(*nbhttp.Engine).Shutdown"); sh != nil {
		fi := c.P.Info(sh)
		var core ssa.Instruction
		for _, cs := range c.P.CallsNamed(sh, "(*nbio.Engine).Shutdown") {
			core = cs.In
		}
		ok := false
		for _, cs := range c.P.CallsNamed(sh, "(*nbhttp.Engine).closeAllConns") {
			if cs.Kind == "call" && core != nil && fi.CanReach(cs.In, core) && !fi.CanReach(core, cs.In) {
				ok = true
			}
		}
		c.Cond(ok, "C18.O4", fnKey(c.P, sh, "close connections before delegating"), c.FnPos(sh), "closeAllConns precedes the core Shutdown", "Shutdown delegates to the core engine without closing the tracked connections first")
		// O11: the wait loop sweeps on every iteration
		var waits []ssa.Instruction
		for _, b := range sh.Blocks {
			for _, in := range b.Instrs {
				if _, isSel := in.(*ssa.Select); isSel && fi.InLoop(in) {
					waits = append(waits, in)
				}
			}
		}
		if len(waits) == 0 {
			c.Unres("C18.O11", fnKey(c.P, sh, "wait loop sweeps"), "no select in a loop found in Shutdown")
		} else {
			bad := ""
			for _, w := range waits {
				vis, _ := fi.Reach([]ssa.Instruction{w}, func(in ssa.Instruction) bool {
					cs, ok := ir.AsCall(in)
					return ok && cs.Kind == "call" && c.P.CalleeName(cs.Common) == "(*nbhttp.Engine).closeAllConns"
				})
				if vis[w] {
					bad = "the wait at " + c.Pos(w) + " is repeated without closing the tracked connections again: a connection registered after the first sweep (a dial that completes, a connection handed to the engine) is never closed and keeps the tables non-empty, so Shutdown returns only when its context expires"
				}
			}
			c.Cond(bad == "", "C18.O11", fnKey(c.P, sh, "wait loop sweeps"), c.Pos(waits[0]), "every iteration of the wait loop passes closeAllConns", bad)
		}
	}

	// ------------------------------------------------------------------ O5
	if ls := c.Fn("C18.O5", "(*lmux.ListenerMux).Stop"); ls != nil {
		fi := c.P.Info(ls)
		lnClose := 0
		for _, cs := range c.P.Calls(ls, nil) {
			if cs.Common.IsInvoke() && cs.Common.Method.Name() == "Close" && c.P.TypeName(cs.Common.Value.Type()) == "net.Listener" {
				lnClose++
			}
		}
		chClose := false
		for _, cs := range c.P.Calls(ls, nil) {
			if c.P.CalleeName(cs.Common) == "builtin:close" && c.P.LoadedField(cs.Common.Args[0]) == "lmux.ListenerMux.chClose" {
				// on every path except the nil-receiver guard
				nilRecv := func(i *ssa.If, k int) bool {
					x, isNil, ok := ir.NilTest(i.Cond, k == 0)
					_, isP := ir.Resolve(x).(*ssa.Parameter)
					return ok && isNil && isP
				}
				esc := false
				vis, _ := fi.ReachOpt([]ssa.Instruction{ls.Blocks[0].Instrs[0]}, func(in ssa.Instruction) bool { return in == cs.In }, nilRecv)
				for in := range vis {
					if ir.IsExit(in) {
						esc = true
					}
				}
				chClose = !esc
			}
		}
		c.Cond(lnClose == 1 && chClose, "C18.O5", fnKey(c.P, ls, "closes listeners and channel"), c.FnPos(ls), "each listener closed; chClose closed on every path",
			"lmux.Stop does not close every underlying listener and the close channel: Accept loops would block forever")
	}
	if ac := c.Fn("C18.O5", "(*lmux.ChanListener).Accept"); ac != nil {
		ok := false
		for _, in := range instrsOf(ac, func(in ssa.Instruction) bool { _, ok := in.(*ssa.Select); return ok }) {
			for _, st := range in.(*ssa.Select).States {
				if c.P.LoadedField(st.Chan) == "lmux.ChanListener.chClose" {
					ok = true
				}
			}
		}
		c.Cond(ok, "C18.O5", fnKey(c.P, ac, "selects on close channel"), c.FnPos(ac), "Accept returns when the mux is stopped", "ChanListener.Accept does not select on the close channel: the accept goroutine would never end")
	}

	// ------------------------------------------------------------------ O6
	c.wgConnPairing("C18.O6")
}

// wgConnPairing evaluates the frozen Add/Done sets of the connection WaitGroup.
func (c *Ctx) wgConnPairing(ob string) {
	for _, m := range []struct {
		method string
		want   []string
	}{
		{"Add", []string{"(*nbio.Engine).OnOpen", "(*nbio.Engine).DialAsyncTimeout", "(*nbio.Engine).initHandlers"}},
		{"Done", []string{"(*nbio.Engine).OnClose", "(*nbio.Engine).DialAsyncTimeout", "(*nbio.Engine).Stop"}},
	} {
		got := map[string]bool{}
		n := 0
		for _, f := range c.libFuncs() {
			for _, cs := range c.P.Calls(f, nil) {
				if c.P.CalleeName(cs.Common) != "(*sync.WaitGroup)."+m.method || len(cs.Common.Args) == 0 {
					continue
				}
				if fa, ok := ir.Root(cs.Common.Args[0]).(*ssa.FieldAddr); ok && c.P.FieldKey(fa) == "nbio.Engine.wgConn" {
					got[c.P.FuncName(ir.Outermost(f))] = true
					n++
				}
			}
		}
		want := map[string]bool{}
		for _, w := range m.want {
			want[w] = true
		}
		bad := ""
		for g := range got {
			if !want[g] {
				bad += "unexpected " + g + "; "
			}
		}
		for w := range want {
			if !got[w] {
				bad += "missing " + w + "; "
			}
		}
		if n != 3 {
			bad += fmt.Sprintf("%d sites, expected 3", n)
		}
		c.Cond(bad == "", ob, "wgConn."+m.method+" sites", "", strings.Join(sortedKeys(got), ", "), "wgConn."+m.method+": "+bad+" (a missed Done makes Stop hang, a missed Add lets it return early)")
	}
}

// c18Resources: every descriptor newPoller opened is closed on each later
// error exit.
func c18Resources(c *Ctx, np *ssa.Function) {
	fi := c.P.Info(np)
	type res struct {
		name string
		val  ssa.Value
		at   ssa.Instruction
	}
	var rs []res
	for _, cs := range c.P.Calls(np, nil) {
		switch c.P.CalleeName(cs.Common) {
		case "syscall.EpollCreate1":
			if refs := cs.Value().Referrers(); refs != nil {
				for _, r := range *refs {
					if e, ok := r.(*ssa.Extract); ok && e.Index == 0 {
						rs = append(rs, res{"epoll fd", e, cs.In})
					}
				}
			}
		case "syscall.Syscall":
			if n, ok := ir.ConstInt(cs.Common.Args[0]); ok && n == c.sysNo("SYS_EVENTFD2") {
				if refs := cs.Value().Referrers(); refs != nil {
					for _, r := range *refs {
						if e, ok := r.(*ssa.Extract); ok && e.Index == 0 {
							rs = append(rs, res{"event fd", e, cs.In})
						}
					}
				}
			}
		}
	}
	if len(rs) != 2 {
		c.Unres("C18.O3", fnKey(c.P, np, "descriptor cleanup"), fmt.Sprintf("found %d descriptor-creating calls, expected 2", len(rs)))
		return
	}
	bad := ""
	for _, r := range rs {
		isClose := func(in ssa.Instruction) bool {
			cs, ok := ir.AsCall(in)
			return ok && c.P.CalleeName(cs.Common) == "syscall.Close" && ir.Resolve(cs.Common.Args[0]) == r.val
		}
		// error returns reachable after the creation succeeded
		vis, _ := fi.Reach([]ssa.Instruction{r.at}, isClose)
		for in := range vis {
			ret, ok := in.(*ssa.Return)
			if !ok {
				continue
			}
			rv := ir.RetVals(ret)
			if ir.IsNilConst(rv[len(rv)-1]) {
				continue // success: ownership passes to the poller
			}
			// the failure of the creating call itself is exempt: the error is the call's own
			e := ir.Resolve(rv[len(rv)-1])
			if ex, isEx := e.(*ssa.Extract); isEx && ex.Tuple == r.at.(ssa.Value) {
				continue
			}
			bad = "the " + r.name + " is not closed on the error exit at " + c.Pos(ret)
		}
	}
	c.Cond(bad == "", "C18.O3", fnKey(c.P, np, "descriptor cleanup"), c.FnPos(np), "epoll and event descriptors closed on every later error exit", bad)
}

// c18ReaderCleanup: O7.
func c18ReaderCleanup(c *Ctx) {
	for _, name := range []string{"(*nbhttp.Engine).readConnBlocking", "(*nbhttp.Engine).readTLSConnBlocking"} {
		fn := c.Fn("C18.O7", name)
		if fn == nil {
			continue
		}
		key := fnKey(c.P, fn, "clean-up untracks on every path")
		var cl *ssa.Function
		for _, b := range fn.Blocks {
			for _, in := range b.Instrs {
				if d, ok := in.(*ssa.Defer); ok {
					if callee := ir.StaticCallee(&d.Call); callee != nil && callee.Parent() == fn {
						for _, cs := range c.P.CallsNamed(callee, "builtin:delete") {
							if c.P.LoadedField(ir.Resolve(cs.Common.Args[0])) == "nbhttp.Engine.conns" {
								cl = callee
							}
						}
					}
				}
			}
		}
		if cl == nil {
			c.Bad("C18.O7", key, c.FnPos(fn), "the reader defers no clean-up that removes the connection from engine.conns: Shutdown would wait for it forever")
			continue
		}
		fi := c.P.Info(cl)
		first := cl.Blocks[0].Instrs[0]
		through := map[string]func(in ssa.Instruction) bool{
			"Engine.mux.Lock (the untracking region)": func(in ssa.Instruction) bool {
				cs, ok := ir.AsCall(in)
				return ok && c.P.CalleeName(cs.Common) == "(*sync.Mutex).Lock" && strings.Contains(c.P.Desc(cs.Common.Args[0]), "nbhttp.Engine.mux")
			},
			"engine._onClose": func(in ssa.Instruction) bool {
				cs, ok := ir.AsCall(in)
				return ok && strings.Contains(c.P.CalleeName(cs.Common), "nbhttp.Engine._onClose")
			},
			"the load-slot release passed by the caller (decrease)": func(in ssa.Instruction) bool {
				return dynCallThrough(in, func(v ssa.Value) bool {
					return strings.HasPrefix(c.P.Desc(v), "param#") && v.Type().String() == "func()"
				})
			},
		}
		bad := ""
		for what, pred := range through {
			if pred(first) {
				continue
			}
			if esc := fi.EscapesWithout([]ssa.Instruction{first}, pred); len(esc) > 0 {
				bad = "the clean-up can return at " + c.Pos(esc[0]) + " without " + what + ": the connection stays in the tracked set / load count, and Shutdown never sees it drain"
			}
		}
		// the delete sits inside the mutex region
		L := c.Locks()
		for _, cs := range c.P.CallsNamed(cl, "builtin:delete") {
			if c.P.LoadedField(ir.Resolve(cs.Common.Args[0])) == "nbhttp.Engine.conns" && !L.HeldClass(cs.In, "nbhttp.Engine.mux") {
				bad = "engine.conns is modified at " + c.Pos(cs.In) + " without Engine.mux"
			}
		}
		c.Cond(bad == "", "C18.O7", key, c.FnPos(cl), "untrack under Engine.mux, _onClose and decrease on every path", bad)

		// the clean-up closes the connection it was reading, unless it was transferred to the poller
		closes := false
		for _, cs := range c.P.Calls(cl, func(name string, _ ir.CallSite) bool { return strings.HasSuffix(name, ".Close") }) {
			if fi.HasFact(cs.In, func(ft ir.Fact) bool {
				k, set, ok := c.P.BoolFieldTest(ft.Cond, ft.Truth)
				return ok && k == "nbhttp.Conn.Trasfered" && !set
			}) {
				closes = true
			}
		}
		c.Cond(closes, "C18.O7", fnKey(c.P, fn, "clean-up closes the connection"), c.FnPos(cl), "Close on the not-transferred edge",
			"the reader's clean-up does not close the connection it was reading (its sibling does): after a parse error or a protocol error the goroutine ends, the close callbacks run, and the socket stays open until the peer gives up; Stop does not close it either")

	}
}

// c18CloseChanOnce: O9.
func c18CloseChanOnce(c *Ctx) {
	writers := map[string]bool{}
	for _, f := range c.pkgFuncs("lmux") {
		for _, st := range c.P.StoresTo(f, "lmux.ListenerMux.chClose") {
			_ = st
			writers[c.P.FuncName(ir.Outermost(f))] = true
		}
	}
	got := strings.Join(sortedKeys(writers), ",")
	c.Cond(got == "lmux.New", "C18.O9", "writers of lmux.ListenerMux.chClose", "", got, "the close channel is assigned in ["+got+"], expected only the constructor: Mux() hands the channel's value to the channel listeners, so after a re-assignment Stop closes a channel their Accept does not select on and the HTTP listen goroutines stay blocked (Stop hangs)")
}

// c18ShutdownWriters: O10.
func c18ShutdownWriters(c *Ctx) {
	writers := map[string]bool{}
	where := ""
	for _, f := range c.nbioFuncs() {
		for _, st := range c.P.StoresTo(f, "nbio.poller.shutdown") {
			if _, fresh := ir.Root(st.Addr.(*ssa.FieldAddr).X).(*ssa.Alloc); fresh {
				continue
			}
			name := c.P.FuncName(ir.Outermost(f))
			writers[name] = true
			if name != "(*nbio.poller).stop" {
				where = c.Pos(st)
			}
		}
	}
	got := strings.Join(sortedKeys(writers), ",")
	c.Cond(got == "(*nbio.poller).stop", "C18.O10", "writers of nbio.poller.shutdown", where, got,
		"the shutdown flag is written by ["+got+"] (e.g. at "+where+"): the poller goroutine's own reset at the start of its loop overwrites a stop() that ran before the goroutine was scheduled (Stop right after Start, or under CPU load), the wake-up is consumed, and Engine.Stop waits in WaitGroup.Wait for a poller that never exits")
}

// c18DialerFailure: O12.
func c18DialerFailure(c *Ctx) {
	fn := c.Fn("C18.O12", "(*nbio.poller).addDialer")
	if fn == nil {
		return
	}
	fi := c.P.Info(fn)
	const fP = "nbio.Conn.p"
	var sets []ssa.Instruction
	isClear := func(in ssa.Instruction) bool {
		st, ok := in.(*ssa.Store)
		if !ok {
			return false
		}
		fa, ok := st.Addr.(*ssa.FieldAddr)
		return ok && c.P.FieldKey(fa) == fP && ir.IsNilConst(st.Val)
	}
	for _, st := range c.P.StoresTo(fn, fP) {
		if !ir.IsNilConst(st.Val) {
			sets = append(sets, st)
		}
	}
	n := 0
	for _, cs := range c.P.Calls(fn, func(name string, _ ir.CallSite) bool {
		return name == "(*nbio.Conn).closeWithError" || name == "(*nbio.Conn).closeWithErrorWithoutLock"
	}) {
		n++
		key := c.siteKey(fn, "failure teardown", n)
		notifies := false
		if len(sets) > 0 {
			vis, _ := fi.Reach(sets, isClear)
			notifies = vis[cs.In]
		}
		c.Cond(!notifies, "C18.O12", key, c.Pos(cs.In), "Conn.p is nil here: the teardown does not reach deleteConn / the close notification",
			"the teardown at "+c.Pos(cs.In)+" runs with Conn.p set, so it reaches deleteConn and the close notification, which releases the connection WaitGroup count; DialAsyncTimeout releases it again when addDialer returns the error: the counter goes negative (panic) or Stop returns before all close notifications were delivered")
	}
	if n == 0 {
		c.Unres("C18.O12", fnKey(c.P, fn, "failure teardown"), "no teardown call found in addDialer")
	}
}

// c18Round5: O13, O14.
func c18Round5(c *Ctx) {
	n := 0
	bad := ""
	for _, f := range c.pkgFuncs("taskpool") {
		for _, b := range f.Blocks {
			for _, in := range b.Instrs {
				switch x := in.(type) {
				case *ssa.Send:
					if strings.HasSuffix(c.P.LoadedField(ir.Resolve(x.Chan)), ".chQqueue") {
						n++
						bad = "the send to the queue at " + c.Pos(x) + " is a plain blocking send: with the queue full, Stop (which closes chClose) cannot release the sender; in async-read mode the sender is the poller goroutine and Engine.Stop waits for it for ever"
					}
				case *ssa.Select:
					sends, closeRecv := false, false
					for _, st := range x.States {
						fld := c.P.LoadedField(ir.Resolve(st.Chan))
						if st.Dir == types.SendOnly && strings.HasSuffix(fld, ".chQqueue") {
							sends = true
						}
						if st.Dir == types.RecvOnly && strings.HasSuffix(fld, ".chClose") {
							closeRecv = true
						}
					}
					if sends {
						n++
						if x.Blocking && !closeRecv {
							bad = "the blocking select at " + c.Pos(x) + " sends to the queue without a case for the close channel"
						}
					}
				}
			}
		}
	}
	if n == 0 {
		c.Unres("C18.O13", "taskpool: queue sends", "no send to TaskPool.chQqueue found")
	} else {
		c.Cond(bad == "", "C18.O13", "taskpool: queue sends", "", fmt.Sprintf("%d send site(s), each releasable by the close channel", n), bad)
	}
	if fn := c.Fn("C18.O14", "(*nbhttp.Engine).AddTransferredConn"); fn != nil {
		fi := c.P.Info(fn)
		var add ssa.Instruction
		for _, cs := range c.P.CallsNamed(fn, "(*nbio.Engine).AddConn") {
			add = cs.In
		}
		var ins ssa.Instruction
		for _, b := range fn.Blocks {
			for _, in := range b.Instrs {
				if mu, ok := in.(*ssa.MapUpdate); ok && c.P.LoadedField(ir.Resolve(mu.Map)) == "nbhttp.Engine.conns" {
					ins = in
				}
			}
		}
		key := fnKey(c.P, fn, "tracked before registered")
		switch {
		case add == nil || ins == nil:
			c.Unres("C18.O14", key, "AddConn call / tracking insert not found")
		default:
			c.Cond(!fi.CanReach(add, ins), "C18.O14", key, c.Pos(ins), "insert precedes AddConn",
				"the connection is inserted into Engine.conns at "+c.Pos(ins)+" after it was registered ("+c.Pos(add)+"): if it is closed in between (the peer hangs up during the open handler) the close job's delete comes first and the late insert leaves a stale entry; Shutdown then never sees the table drain")
		}
	}
}

// c18ListenerCount: O15.
func c18ListenerCount(c *Ctx) {
	isWG := func(in ssa.Instruction, method string) bool {
		cs, ok := ir.AsCall(in)
		if !ok || c.P.CalleeName(cs.Common) != "(*sync.WaitGroup)."+method {
			return false
		}
		fa, ok := ir.Root(cs.Common.Args[0]).(*ssa.FieldAddr)
		return ok && c.P.FieldKey(fa) == "nbio.Engine.wgListeners"
	}
	if st := c.Fn("C18.O15", "(*nbio.Engine).Start"); st != nil {
		fi := c.P.Info(st)
		bad := ""
		n := 0
		for _, b := range st.Blocks {
			for _, in := range b.Instrs {
				g, ok := in.(*ssa.Go)
				if !ok || c.P.CalleeName(&g.Call) != "(*nbio.poller).start" {
					continue
				}
				// a listener: the receiver is an element of Engine.listeners
				recv := ir.Resolve(g.Call.Args[0])
				isListener := false
				if e, ok := recv.(*ssa.Extract); ok {
					_ = e
					isListener = true // range over g.listeners yields (index, element)
				}
				if a, ok := ir.IsLoad(recv); ok {
					if ia, ok := a.(*ssa.IndexAddr); ok && c.P.LoadedField(ia.X) == "nbio.Engine.listeners" {
						isListener = true
					}
					if ia, ok := a.(*ssa.IndexAddr); ok && c.P.LoadedField(ia.X) == "nbio.Engine.pollers" {
						isListener = false
					}
				}
				if !isListener {
					continue
				}
				n++
				added := false
				for _, in2 := range b.Instrs {
					if in2 == in {
						break
					}
					if isWG(in2, "Add") {
						added = true
					}
				}
				if !added {
					for _, b2 := range st.Blocks {
						for _, in2 := range b2.Instrs {
							if isWG(in2, "Add") && fi.Dominates(in2, in) && in2.Block() == in.Block() {
								added = true
							}
						}
					}
				}
				if !added {
					bad = "a listener's goroutine is started at " + c.Pos(in) + " without Engine.wgListeners.Add(1) before it: Stop's wait for the acceptors does not cover it, and a connection it has just accepted is added behind Stop's sweep"
				}
			}
		}
		if n == 0 {
			c.Unres("C18.O15", fnKey(c.P, st, "listener goroutines counted"), "no go l.start() for a listener found")
		} else {
			c.Cond(bad == "", "C18.O15", fnKey(c.P, st, "listener goroutines counted"), c.FnPos(st), fmt.Sprintf("%d listener start site(s) behind Add(1)", n), bad)
		}
	}
	if ps := c.Fn("C18.O15", "(*nbio.poller).start"); ps != nil {
		fi := c.P.Info(ps)
		ok := false
		for _, b := range ps.Blocks {
			for _, in := range b.Instrs {
				d, isD := in.(*ssa.Defer)
				if !isD || c.P.CalleeName(&d.Call) != "(*sync.WaitGroup).Done" {
					continue
				}
				fa, isFA := ir.Root(d.Call.Args[0]).(*ssa.FieldAddr)
				if !isFA || c.P.FieldKey(fa) != "nbio.Engine.wgListeners" {
					continue
				}
				if fi.HasFact(in, func(ft ir.Fact) bool {
					k, set, okk := c.P.BoolFieldTest(ft.Cond, ft.Truth)
					return okk && k == "nbio.poller.isListener" && set
				}) {
					ok = true
				}
			}
		}
		c.Cond(ok, "C18.O15", fnKey(c.P, ps, "listener edge defers Done"), c.FnPos(ps), "defer wgListeners.Done() on the isListener edge",
			"poller.start does not defer Engine.wgListeners.Done() on its listener edge: Engine.Stop waits for the acceptor goroutines for ever")
	}
}
