package props

import (
	"fmt"
	"go/token"
	"go/types"
	"strings"

	"golang.org/x/tools/go/ssa"

	"verif/internal/eng"
	"verif/internal/ir"
)

// Rules added in seeding round 6 (side observations of the sub-agents on the
// unchanged tree, each re-derived as a rule that names the construct).

// ---------------------------------------------------------------- C07.O17

// c07HeadResponses: the answer to a HEAD request ends at its head whatever its
// framing fields say (net/http's ReadResponse is given the request for this
// reason).  The client parser can know the method only if the client records
// it when the request is queued and the record reaches the no-body decision.
func c07HeadResponses(c *Ctx) {
	const ob = "C07.O17"
	const fNoBody = "nbhttp.Parser.noBody"
	do := c.Fn(ob, "(*nbhttp.ClientConn).Do")
	if do == nil {
		return
	}
	// (a) the method is recorded
	var seeds []ssa.Value
	for _, b := range do.Blocks {
		for _, in := range b.Instrs {
			bo, ok := in.(*ssa.BinOp)
			if !ok || bo.Op != token.EQL && bo.Op != token.NEQ {
				continue
			}
			isHead := func(v ssa.Value) bool {
				k, ok := v.(*ssa.Const)
				return ok && k.Value != nil && strings.Trim(k.Value.ExactString(), "\"") == "HEAD"
			}
			isMethod := func(v ssa.Value) bool { return c.P.LoadedField(ir.Resolve(v)) == "net/http.Request.Method" }
			if isHead(bo.X) && isMethod(bo.Y) || isHead(bo.Y) && isMethod(bo.X) {
				seeds = append(seeds, bo)
			}
		}
	}
	record := ""
	recPos := c.FnPos(do)
	if len(seeds) > 0 {
		dep := c.dependsOn(do, seeds...)
		for _, b := range do.Blocks {
			for _, in := range b.Instrs {
				st, ok := in.(*ssa.Store)
				if !ok || !dep[st.Val] {
					continue
				}
				if fa, ok := st.Addr.(*ssa.FieldAddr); ok {
					if k := c.P.FieldKey(fa); strings.HasPrefix(k, "nbhttp.ClientConn.") || strings.HasPrefix(k, "nbhttp.resHandler.") {
						record = k
						recPos = c.Pos(st)
					}
				}
			}
		}
	}
	c.Cond(record != "", ob, fnKey(c.P, do, "the request method is recorded"), recPos,
		"req.Method == HEAD flows into "+record,
		"(*ClientConn).Do does not record whether the request is a HEAD: the client parser cannot know that the answer has no body, takes the Content-Length of a HEAD response (the length of the entity it stands for) as a body to wait for, and swallows the start of the next response or never delivers this one")
	if record == "" {
		return
	}
	// (b) the record reaches the no-body decision
	readers := map[*ssa.Function]bool{}
	for _, f := range c.pkgFuncs("nbhttp") {
		for _, a := range c.P.FieldAccesses(f, func(k string) bool { return k == record }) {
			if !a.Write {
				readers[f] = true
			}
		}
	}
	decided := ""
	var consumer *ssa.Function
	for _, f := range c.pkgFuncs("nbhttp") {
		if n := c.P.FuncName(f); n == "(*nbhttp.Parser).Parse" || n == "(*nbhttp.Parser).handleMessage" {
			continue
		}
		sts := c.P.StoresTo(f, fNoBody)
		if len(sts) == 0 {
			continue
		}
		var src []ssa.Value
		for _, cs := range c.P.Calls(f, nil) {
			if g := ir.StaticCallee(cs.Common); g != nil && readers[g] && cs.Value() != nil {
				src = append(src, cs.Value())
				consumer = g
			}
		}
		for _, a := range c.P.FieldAccesses(f, func(k string) bool { return k == record }) {
			if v, ok := a.In.(ssa.Value); ok && !a.Write {
				src = append(src, v)
				consumer = f
			}
		}
		if len(src) == 0 {
			continue
		}
		dep := c.dependsOn(f, src...)
		fi := c.P.Info(f)
		for _, st := range sts {
			if dep[st.Val] || fi.HasFact(st, func(ft ir.Fact) bool { return dep[ft.Cond] || dep[ir.Resolve(ft.Cond)] }) {
				decided = c.P.FuncName(f) + " at " + c.Pos(st)
			}
		}
	}
	c.Cond(decided != "", ob, "the record reaches Parser.noBody", "", decided,
		"the recorded request method ("+record+") never reaches Parser.noBody: the answer to a HEAD request is still parsed with a body")
	// (c) first in, first out: Do appends, the consumer takes element 0 and drops it
	if consumer != nil && decided != "" {
		apps := c.appendStores(do, record)
		takesHead, drops := false, false
		for _, b := range consumer.Blocks {
			for _, in := range b.Instrs {
				switch x := in.(type) {
				case *ssa.IndexAddr:
					if k, ok := ir.ConstInt(x.Index); ok && k == 0 && c.P.LoadedField(x.X) == record {
						takesHead = true
					}
				case *ssa.Store:
					if fa, ok := x.Addr.(*ssa.FieldAddr); ok && c.P.FieldKey(fa) == record {
						if sl, ok := ir.Resolve(x.Val).(*ssa.Slice); ok && sl.Low != nil && sl.High == nil && c.P.LoadedField(sl.X) == record {
							if k, ok := ir.ConstInt(sl.Low); ok && k == 1 {
								drops = true
							}
						}
					}
				}
			}
		}
		isSlice := false
		if len(apps) > 0 {
			isSlice = true
		}
		if isSlice {
			c.Cond(takesHead && drops, ob, fnKey(c.P, consumer, "records consumed in request order"), c.FnPos(consumer),
				"element 0 is read and dropped; Do appends at the tail",
				fmt.Sprintf("the per-request record is appended at the tail in Do but %s does not take and drop element 0 (reads [0]: %v, stores [1:]: %v): with pipelined requests a response is framed by another request's method", c.P.FuncName(consumer), takesHead, drops))
		} else {
			c.OK(ob, fnKey(c.P, consumer, "records consumed in request order"), c.FnPos(consumer), "the record is not a queue")
		}
	}
}

// ---------------------------------------------------------------- C10.O11

// c10InterimResponses: an interim response (1xx other than 101) is not the
// response of the pending request: it neither reaches the request's callback
// nor consumes the request's method record.
func c10InterimResponses(c *Ctx) {
	const ob = "C10.O11"
	interim := []int64{100, 102, 103, 199}
	final := []int64{101, 200, 204, 304, 404, 500}
	check := func(fn *ssa.Function, what string, isSite func(cs ir.CallSite) bool, leafHint string, mustFinal bool, badMsg string) {
		key := fnKey(c.P, fn, what)
		d, err := eng.Decide(c.P, fn)
		if err != nil {
			c.Unres(ob, key, err.Error())
			return
		}
		var sites []ir.CallSite
		for _, cs := range c.P.Calls(fn, nil) {
			if isSite(cs) {
				sites = append(sites, cs)
			}
		}
		if len(sites) == 0 {
			if mustFinal {
				c.Unres(ob, key, "no delivery site found")
			} else {
				c.OK(ob, key, c.FnPos(fn), "no such call")
			}
			return
		}
		witness := ""
		n := 0
		reachFinal := map[int64]bool{}
		for _, cs := range sites {
			f := d.Block[cs.In.Block()]
			leaves := sortedKeys(d.Leaves(f))
			leaf := ""
			var others []string
			for _, l := range leaves {
				if strings.Contains(l, leafHint) && leaf == "" {
					leaf = l
				} else {
					others = append(others, l)
				}
			}
			if leaf == "" {
				witness = fmt.Sprintf("the call at %s does not depend on the status code (depends on %v)", c.Pos(cs.In), leaves)
				continue
			}
			if len(others) > 6 {
				c.Unres(ob, key, fmt.Sprintf("too many inputs: %v", leaves))
				return
			}
			for _, code := range append(append([]int64{}, interim...), final...) {
				for bits := 0; bits < 1<<uint(len(others)); bits++ {
					n++
					env := eng.Env{leaf: code}
					for i, o := range others {
						env[o] = int64(bits >> uint(i) & 1)
					}
					got, err := d.Eval(f, env)
					if err != nil {
						c.Unres(ob, key, err.Error())
						return
					}
					isInterim := code/100 == 1 && code != 101
					if got && isInterim && witness == "" {
						witness = fmt.Sprintf("%s (status %d reaches %s)", badMsg, code, c.Pos(cs.In))
					}
					if got && !isInterim {
						reachFinal[code] = true
					}
				}
			}
		}
		if witness == "" && mustFinal {
			for _, code := range final {
				if !reachFinal[code] {
					witness = fmt.Sprintf("a response with status %d is never delivered to the request's callback", code)
				}
			}
		}
		c.Cond(witness == "", ob, key, c.FnPos(fn), fmt.Sprintf("%d sites evaluated on %d (status, flags) points: never for 100/102/103/199", len(sites), n), witness)
	}
	if oc := c.Fn(ob, "(*nbhttp.ClientProcessor).OnComplete"); oc != nil {
		check(oc, "interim responses are not delivered", func(cs ir.CallSite) bool {
			n := c.P.CalleeName(cs.Common)
			return cs.Kind == "call" && (n == "dyn:nbhttp.ClientProcessor.handler" || n == "dyn:nbhttp.Parser.Execute")
		}, "StatusCode", true,
			"an interim response (1xx other than 101) is handed to the pending request's callback as its response; the response that follows is then matched with the next request's callback (every later response on the connection is off by one)")
	}
	if os := c.Fn(ob, "(*nbhttp.ClientProcessor).OnStatus"); os != nil {
		readers := map[*ssa.Function]bool{}
		for _, f := range c.pkgFuncs("nbhttp") {
			for _, a := range c.P.FieldAccesses(f, func(k string) bool { return strings.HasPrefix(k, "nbhttp.ClientConn.") }) {
				if a.Write && c.P.FuncName(f) != "(*nbhttp.ClientProcessor).OnStatus" {
					readers[f] = true
				}
			}
		}
		check(os, "interim responses consume no per-request record", func(cs ir.CallSite) bool {
			g := ir.StaticCallee(cs.Common)
			return cs.Kind == "call" && g != nil && readers[g]
		}, "param#2", false,
			"an interim response consumes a per-request record of the client connection: the final response is then framed with the next request's record")
	}
}

// ---------------------------------------------------------------- C08.O10

type caseEnv struct {
	b        int64 // current byte
	sizeDone bool  // Parser.chunkSize >= 0
	flags    map[string]bool
}

// casePaths enumerates the acyclic paths through the blocks dominated by a
// state case's entry block; a path ends at a Return or when it leaves the
// region (the parse loop goes on).
type casePath struct {
	facts  []ir.Fact
	ret    *ssa.Return
	instrs []ssa.Instruction
}

func (c *Ctx) casePaths(fi *ir.FnInfo, entry *ssa.BasicBlock, limit int) (out []casePath, complete bool) {
	complete = true
	first := entry.Instrs[0]
	inRegion := func(b *ssa.BasicBlock) bool { return len(b.Instrs) > 0 && fi.Dominates(first, b.Instrs[0]) }
	onPath := map[*ssa.BasicBlock]bool{}
	var rec func(b *ssa.BasicBlock, facts []ir.Fact, instrs []ssa.Instruction)
	rec = func(b *ssa.BasicBlock, facts []ir.Fact, instrs []ssa.Instruction) {
		if !complete {
			return
		}
		if len(out) >= limit {
			complete = false
			return
		}
		instrs = append(append([]ssa.Instruction(nil), instrs...), b.Instrs...)
		if r, ok := b.Instrs[len(b.Instrs)-1].(*ssa.Return); ok {
			out = append(out, casePath{facts: facts, ret: r, instrs: instrs})
			return
		}
		onPath[b] = true
		for k, s := range b.Succs {
			nf := facts
			if i, ok := b.Instrs[len(b.Instrs)-1].(*ssa.If); ok && b.Succs[0] != b.Succs[1] {
				cnd, t := ir.StripNot(i.Cond, k == 0)
				nf = append(append([]ir.Fact(nil), facts...), ir.Fact{If: i, Cond: cnd, Truth: t})
			}
			if !inRegion(s) || onPath[s] {
				out = append(out, casePath{facts: nf, instrs: instrs})
				continue
			}
			rec(s, nf, instrs)
		}
		onPath[b] = false
	}
	rec(entry, nil, nil)
	return
}

// feasibleFor: no fact of the path contradicts the given byte / flags.
func (c *Ctx) feasibleFor(p casePath, env caseEnv) bool {
	for _, ft := range p.facts {
		cond := ft.Cond
		if cmp, ok := ir.DecodeIntCmp(cond); ok {
			switch {
			case c.isCurrentByte(cmp.Expr):
				if cmp.Holds(env.b) != ft.Truth {
					return false
				}
				continue
			case c.P.LoadedField(ir.Resolve(cmp.Expr)) == "nbhttp.Parser.chunkSize":
				v := int64(-1)
				if env.sizeDone {
					v = 3
				}
				if cmp.Holds(v) != ft.Truth {
					return false
				}
				continue
			}
		}
		if call, ok := ir.Resolve(cond).(*ssa.Call); ok {
			if g := ir.StaticCallee(&call.Call); g != nil && c.P.FuncName(g) == "nbhttp.isHex" && len(call.Call.Args) == 1 && c.isCurrentByte(call.Call.Args[0]) {
				b := env.b
				hex := b >= '0' && b <= '9' || b >= 'a' && b <= 'f' || b >= 'A' && b <= 'F'
				if hex != ft.Truth {
					return false
				}
				continue
			}
		}
		if f, set, ok := c.P.BoolFieldTest(cond, ft.Truth); ok {
			if v, known := env.flags[f]; known && v != set {
				return false
			}
			continue
		}
	}
	return true
}

// c08ChunkSizeLine: a chunk-size line is hex digits, optional blanks, and then
// either the end of the line or ';' and an extension.  Anything else is not a
// chunk size and must be refused, not cut at the first byte that is no digit.
func c08ChunkSizeLine(c *Ctx) {
	const ob = "C08.O10"
	parse := c.Fn(ob, "(*nbhttp.Parser).Parse")
	if parse == nil {
		return
	}
	fi := c.P.Info(parse)
	key := fnKey(c.P, parse, "chunk-size line grammar")
	entry := c.stateCases(parse)[c.stateConsts()["stateBodyChunkSize"]]
	if entry == nil {
		c.Unres(ob, key, "case stateBodyChunkSize not found")
		return
	}
	paths, complete := c.casePaths(fi, entry, 4000)
	if !complete || len(paths) == 0 {
		c.Unres(ob, key, fmt.Sprintf("path enumeration incomplete (%d paths)", len(paths)))
		return
	}
	// boolean Parser fields the case tests (the 'inside the extension' flag)
	flagSet := map[string]bool{}
	for _, p := range paths {
		for _, ft := range p.facts {
			if f, _, ok := c.P.BoolFieldTest(ft.Cond, ft.Truth); ok && strings.HasPrefix(f, "nbhttp.Parser.") {
				flagSet[f] = true
			}
		}
	}
	flags := sortedKeys(flagSet)
	if len(flags) > 2 {
		c.Unres(ob, key, fmt.Sprintf("the case tests %d flags", len(flags)))
		return
	}
	isErr := func(p casePath) bool {
		if p.ret == nil {
			return false
		}
		_, kind := c.retErr(fi, p.ret)
		return kind == "nonnil"
	}
	hex := func(b int64) bool { return b >= '0' && b <= '9' || b >= 'a' && b <= 'f' || b >= 'A' && b <= 'F' }
	witness := ""
	n := 0
	env := caseEnv{flags: map[string]bool{}}
	for _, f := range flags {
		env.flags[f] = false // not inside an extension
	}
	for _, done := range []bool{false, true} {
		for b := int64(0); b < 256; b++ {
			n++
			env.b, env.sizeDone = b, done
			allowed := b == ' ' || b == '\t' || b == ';' || b == '\r' || hex(b) && !done
			goesOn, refused := false, false
			for _, p := range paths {
				if !c.feasibleFor(p, env) {
					continue
				}
				if isErr(p) {
					refused = true
					continue
				}
				// the failure of the size conversion is a refusal too; its
				// success edge is what counts here
				goesOn = true
				if b != ';' {
					for _, in := range p.instrs {
						if st, ok := in.(*ssa.Store); ok {
							if fa, ok := st.Addr.(*ssa.FieldAddr); ok && flagSet[c.P.FieldKey(fa)] {
								if v, ok := ir.ConstBool(st.Val); ok && v && witness == "" {
									witness = fmt.Sprintf("byte %q sets %s at %s: only ';' starts a chunk extension", rune(b), c.P.FieldKey(fa), c.Pos(st))
								}
							}
						}
					}
				}
			}
			_ = refused
			if !allowed && goesOn && witness == "" {
				state := "inside the size"
				if done {
					state = "after the size (and blanks)"
				}
				witness = fmt.Sprintf("byte %q %s is skipped instead of refused: a chunk-size line such as \"3xyz\" or \"3 5\" is taken as size 3 (net/http: invalid byte in chunk length); the framing of the rest of the stream is guessed", rune(b), state)
			}
			if allowed && !goesOn && witness == "" {
				witness = fmt.Sprintf("byte %q of a well-formed chunk-size line is refused", rune(b))
			}
		}
	}
	c.ExhaustiveTbl["chunk-size line bytes"] = n
	c.Cond(witness == "", ob, key, c.Pos(entry.Instrs[0]), fmt.Sprintf("%d paths of the case evaluated on %d (byte, size-complete) points outside an extension", len(paths), n), witness)
}

// ---------------------------------------------------------------- C08.O11

// c08ContentLengthStrict: Content-Length is 1*DIGIT (ParseInt alone takes a
// sign), and a repeated field must repeat the same value.
func c08ContentLengthStrict(c *Ctx) {
	const ob = "C08.O11"
	fn := c.Fn(ob, "(*nbhttp.Parser).parseContentLength")
	if fn == nil {
		return
	}
	fi := c.P.Info(fn)
	// digits only
	bad := "no numeric conversion found"
	for _, cs := range c.P.CallsNamed(fn, "strconv.ParseInt", "strconv.ParseUint", "strconv.Atoi") {
		bad = ""
		if c.P.CalleeName(cs.Common) == "strconv.ParseUint" {
			continue
		}
		arg := ir.Resolve(cs.Common.Args[0])
		// a fact on arg[0] that excludes '+' and '-'
		ok := fi.HasFact(cs.In, func(ft ir.Fact) bool {
			cmp, ok := ir.DecodeIntCmp(ft.Cond)
			if !ok {
				return false
			}
			ld, isLoad := ir.IsLoad(ir.Resolve(cmp.Expr))
			var base ssa.Value
			if isLoad {
				if ia, ok := ld.(*ssa.IndexAddr); ok {
					base = ia.X
				}
			}
			if x, idx := stringIndex(ir.Resolve(cmp.Expr)); x != nil {
				if k, isK := ir.ConstInt(idx); isK && k == 0 {
					base = x
				}
			}
			if base == nil || !ir.SameValue(ir.Resolve(base), arg) {
				return false
			}
			return cmp.Holds('+') != ft.Truth && cmp.Holds('-') != ft.Truth
		})
		if !ok {
			// two facts, one per sign, or a range test on the first byte
			plus, minus := false, false
			for _, ft := range fi.Facts(cs.In) {
				cmp, ok := ir.DecodeIntCmp(ft.Cond)
				if !ok {
					continue
				}
				x, idx := stringIndex(ir.Resolve(cmp.Expr))
				if x == nil || !ir.SameValue(ir.Resolve(x), arg) {
					continue
				}
				if k, isK := ir.ConstInt(idx); !isK || k != 0 {
					continue
				}
				if cmp.Holds('+') != ft.Truth {
					plus = true
				}
				if cmp.Holds('-') != ft.Truth {
					minus = true
				}
			}
			ok = plus && minus
		}
		if !ok {
			bad = "the Content-Length value goes to " + c.P.CalleeName(cs.Common) + " at " + c.Pos(cs.In) + " without a test that its first byte is a digit: ParseInt takes a sign, so \"+3\" and \"-0\" are read as lengths (net/http: bad Content-Length)"
		}
	}
	c.Cond(bad == "", ob, fnKey(c.P, fn, "digits only"), c.FnPos(fn), "sign excluded before the conversion", bad)
	// all values agree
	all := false
	for _, b := range fn.Blocks {
		for _, in := range b.Instrs {
			// a loop over the values of the field: an index/range over the header's slice inside a loop, compared with !=
			bo, ok := in.(*ssa.BinOp)
			if !ok || bo.Op != token.NEQ && bo.Op != token.EQL {
				continue
			}
			if bt, ok := bo.X.Type().Underlying().(*types.Basic); !ok || bt.Info()&types.IsString == 0 {
				continue
			}
			if fi.InLoop(in) {
				all = true
			}
		}
	}
	// 'no length' only when the field is absent
	{
		bad := ""
		n := 0
		for _, st := range c.P.StoresTo(fn, "nbhttp.Parser.contentLength") {
			if k, ok := ir.ConstInt(st.Val); !ok || k >= 0 {
				continue
			}
			n++
			isAbsent := func(ft ir.Fact) bool {
				if x, isNil, ok := ir.NilTest(ft.Cond, ft.Truth); ok && isNil {
					_, isLookup := ir.Resolve(x).(*ssa.Lookup)
					return isLookup
				}
				e, zero, ok := ir.ZeroTest(ft.Cond, ft.Truth)
				if !ok || !zero {
					return false
				}
				x, isLen := ir.IsLenOf(e)
				if !isLen {
					return false
				}
				_, isLookup := ir.Resolve(x).(*ssa.Lookup)
				return isLookup
			}
			absent := fi.HasFact(st, isAbsent)
			if !absent && len(st.Block().Preds) > 1 {
				// a join (vals == nil || len(vals) == 0): every way in says 'absent'
				absent = true
				for _, pr := range st.Block().Preds {
					onEdge := false
					for _, ft := range fi.FactsOnEdge(pr, st.Block()) {
						if isAbsent(ft) {
							onEdge = true
						}
					}
					if !onEdge {
						absent = false
					}
				}
			}
			if !absent {
				bad = "the message is given no length (contentLength = -1) at " + c.Pos(st) + " on a path on which the field may be present with an empty value: \"Content-Length:\" followed by blanks only is not a number, yet the message is framed as if it had no body and what follows is parsed as the next message (net/http: invalid empty Content-Length)"
			}
		}
		c.Cond(bad == "" && n > 0, ob, fnKey(c.P, fn, "an empty value is not 'no length'"), c.FnPos(fn), "contentLength = -1 only on the field-absent edge", bad)
	}
	c.Cond(all, ob, fnKey(c.P, fn, "repeated field agrees"), c.FnPos(fn), "every further value is compared with the first",
		"parseContentLength looks at the first Content-Length value only (Header.Get): \"Content-Length: 3\" followed by \"Content-Length: 5\" is framed with 3 and the rest is parsed as the next message (net/http refuses the message)")
}

// ---------------------------------------------------------------- C08.O12

// c08ErrorsAreFinal: once Parse has returned an error, a later call parses and
// reports nothing.
func c08ErrorsAreFinal(c *Ctx) {
	const ob = "C08.O12"
	parse := c.Fn(ob, "(*nbhttp.Parser).Parse")
	if parse == nil {
		return
	}
	fi := c.P.Info(parse)
	key := fnKey(c.P, parse, "an error is final")
	field := c.parseFailureField(parse)
	if field == "" {
		c.Bad(ob, key, c.FnPos(parse), "Parse keeps no record of a failure: after an error return the state is whatever it was, and a further call goes on parsing and reporting (\"GET / HTTP/1.1\\r\\nHost: a\\r\\n\\rX\" returns 'LF character expected'; a following \"\\n\" returns nil and delivers the request)")
		return
	}
	// the entry tests the record before anything is parsed or joined
	entryOK := false
	for _, i := range fi.Ifs() {
		x, _, ok := ir.NilTest(i.Cond, true)
		if !ok || c.P.LoadedField(ir.Resolve(x)) != field {
			continue
		}
		// no callback / append before it
		clean := true
		for _, cs := range c.P.Calls(parse, nil) {
			n := c.P.CalleeName(cs.Common)
			if cs.Kind == "call" && (strings.HasPrefix(n, "invoke:nbhttp.Processor.") || strings.HasSuffix(n, "mempool.Append")) && !fi.Dominates(i, cs.In) {
				clean = false
			}
		}
		// the non-nil edge returns a non-nil error
		_, t := ir.StripNot(i.Cond, true)
		_, isNil, _ := ir.NilTest(i.Cond, t)
		edge := 0
		if isNil {
			edge = 1
		}
		vis, stopped := fi.ReachFromEdge(i, edge, func(in ssa.Instruction) bool { _, r := in.(*ssa.Return); return r })
		rets := 0
		for in := range vis {
			if _, ok := in.(*ssa.If); ok {
				clean = false
			}
		}
		for in := range stopped {
			if r, ok := in.(*ssa.Return); ok {
				rets++
				// what is returned is the recorded error
				if ld := ir.Resolve(ir.RetVals(r)[len(ir.RetVals(r))-1]); c.P.LoadedField(ld) != field {
					if rs := ir.ReachingStore(ir.RetVals(r)[len(ir.RetVals(r))-1]); rs == nil || c.P.LoadedField(ir.Resolve(rs)) != field {
						if _, kind := c.retErr(fi, r); kind != "nonnil" {
							clean = false
						}
					}
				}
			}
		}
		if clean && rets > 0 {
			entryOK = true
		}

	}
	c.Cond(entryOK, ob, key, c.FnPos(parse), "failure recorded in "+field+" and tested at entry",
		"the failure record "+field+" is not tested at the entry of Parse before anything is parsed")
}

// parseFailureField: the Parser field of type error that Parse's deferred
// closure sets from the (named) error result when it is not nil.
func (c *Ctx) parseFailureField(parse *ssa.Function) string {
	for _, g := range ir.Closures(parse) {
		isDeferred := false
		for _, cs := range c.P.Calls(parse, nil) {
			if cs.Kind == "defer" && ir.StaticCallee(cs.Common) == g {
				isDeferred = true
			}
		}
		if !isDeferred {
			continue
		}
		gi := c.P.Info(g)
		for _, b := range g.Blocks {
			for _, in := range b.Instrs {
				st, ok := in.(*ssa.Store)
				if !ok {
					continue
				}
				fa, ok := st.Addr.(*ssa.FieldAddr)
				if !ok || !strings.HasPrefix(c.P.FieldKey(fa), "nbhttp.Parser.") {
					continue
				}
				if !types.Identical(st.Val.Type(), types.Universe.Lookup("error").Type()) {
					continue
				}
				// stored value is a load of a free variable (the named result), under value != nil
				ld, isLoad := ir.IsLoad(ir.Resolve(st.Val))
				if !isLoad {
					continue
				}
				if _, isFree := ld.(*ssa.FreeVar); !isFree {
					continue
				}
				if gi.HasFact(st, func(ft ir.Fact) bool {
					x, isNil, ok := ir.NilTest(ft.Cond, ft.Truth)
					if !ok || isNil {
						return false
					}
					l2, ok := ir.IsLoad(ir.Resolve(x))
					return ok && l2 == ld
				}) {
					return c.P.FieldKey(fa)
				}
			}
		}
	}
	return ""
}

// stringIndex decodes s[i] on a string (go/ssa: Index on strings in newer
// versions, Lookup in older ones).
func stringIndex(v ssa.Value) (x, idx ssa.Value) {
	switch e := v.(type) {
	case *ssa.Index:
		return e.X, e.Index
	case *ssa.Lookup:
		return e.X, e.Index
	}
	return nil, nil
}

// ---------------------------------------------------------------- C04.O17

// c04DisarmByQueueAlone: where the connection-level disarm (which also clears
// isWAdded) is issued on the queue-empty edge, nothing else conditions it.  A
// further condition between the queue test and the disarm leaves a path on
// which the queue is empty, the registration is reduced by someone else (the
// one-shot re-arm registers by queue state and never touches the flag) and
// the flag keeps saying "armed".
func c04DisarmByQueueAlone(c *Ctx) {
	const ob = "C04.O17"
	n := 0
	for _, f := range c.nbioFuncs() {
		fi := c.P.Info(f)
		k := 0
		for _, cs := range c.P.CallsNamed(f, "(*nbio.Conn).resetRead") {
			var qIf *ssa.If
			for _, ft := range fi.Facts(cs.In) {
				if e, ok := c.queueTest(ft); ok && e {
					qIf = ft.If
				}
			}
			if qIf == nil {
				continue
			}
			n++
			k++
			key := c.siteKey(f, "disarm decided by the queue alone", k)
			bad := ""
			for _, ft := range fi.Facts(cs.In) {
				if ft.If == nil || ft.If == qIf || !fi.Dominates(qIf, ft.If) {
					continue
				}
				if e, ok := c.queueTest(ft); ok && e {
					continue
				}
				bad = fmt.Sprintf("between the queue-empty test (%s) and the disarm at %s there is a further condition (%s): on its other edge the queue is empty and isWAdded stays set, so once something else reduces the registration (the one-shot re-arm registers by queue state without touching the flag) every later arm step is skipped as 'already armed' and a backlog is never flushed", c.Pos(qIf), c.Pos(cs.In), c.Pos(ft.If))
			}
			c.Cond(bad == "", ob, key, c.Pos(cs.In), "no condition between the queue test and the disarm", bad)
		}
	}
	if n < 2 {
		c.Unres(ob, "disarm sites on a queue-empty edge", fmt.Sprintf("found %d, expected >= 2 (flush, dial completion)", n))
	}
}

// ---------------------------------------------------------------- C06.O7

// c06NoLookAhead: Parse decides on the current byte only.  A read of
// data[i+k] depends on whether the k following bytes happen to be in this
// read already, i.e. on where the stream was cut.
func c06NoLookAhead(c *Ctx) {
	const ob = "C06.O7"
	parse := c.Fn(ob, "(*nbhttp.Parser).Parse")
	if parse == nil {
		return
	}
	key := fnKey(c.P, parse, "no look-ahead")
	// the loop index: the phi that the state switch's current-byte load uses
	var idx ssa.Value
	n := 0
	bad := ""
	isByteSlice := func(v ssa.Value) bool {
		sl, ok := v.Type().Underlying().(*types.Slice)
		if !ok {
			return false
		}
		b, ok := sl.Elem().Underlying().(*types.Basic)
		return ok && b.Kind() == types.Uint8
	}
	var loads []*ssa.IndexAddr
	for _, b := range parse.Blocks {
		for _, in := range b.Instrs {
			ia, ok := in.(*ssa.IndexAddr)
			if !ok || !isByteSlice(ia.X) {
				continue
			}
			// element loads only (an address that is loaded)
			if refs := ia.Referrers(); refs != nil {
				for _, r := range *refs {
					if u, ok := r.(*ssa.UnOp); ok && u.Op == token.MUL {
						loads = append(loads, ia)
						break
					}
				}
			}
		}
	}
	for _, ia := range loads {
		if _, ok := ia.Index.(*ssa.Phi); ok && idx == nil {
			idx = ia.Index
		}
	}
	for _, ia := range loads {
		n++
		if idx == nil || ia.Index != idx {
			bad = fmt.Sprintf("Parse reads a byte at %s with an index other than the loop's current index (%s): a look-ahead sees the next byte only when it arrived in the same read, so the same stream is parsed differently depending on where it was cut", c.Pos(ia), c.P.Desc(ia.Index))
		}
	}
	c.Cond(bad == "" && n > 0, ob, key, c.FnPos(parse), fmt.Sprintf("%d byte load(s), all at the loop index", n), bad)
}

// ---------------------------------------------------------------- C18.O16

// c18AcceptorAddsItself: Stop waits for the acceptor goroutines so that every
// accepted connection is in the table before the sweep.  That only works if
// the acceptor registers the connection itself: an add handed to another
// goroutine or queue is not covered by the wait.
func c18AcceptorAddsItself(c *Ctx) {
	const ob = "C18.O16"
	loop := c.Fn(ob, "(*nbio.poller).acceptorLoop")
	if loop == nil {
		return
	}
	key := fnKey(c.P, loop, "the acceptor registers what it accepts")
	direct := len(c.P.CallsNamed(loop, "(*nbio.poller).addConn"))
	deferred := ""
	for _, g := range ir.Closures(loop) {
		if len(c.P.CallsNamed(g, "(*nbio.poller).addConn")) == 0 {
			continue
		}
		// a closure that is only called in place is as good as inline code
		inPlace := true
		for _, b := range loop.Blocks {
			for _, in := range b.Instrs {
				for _, op := range in.Operands(nil) {
					mc, ok := (*op).(*ssa.MakeClosure)
					if !ok || mc.Fn != g {
						continue
					}
					cs, isCall := in.(*ssa.Call)
					if !isCall || cs.Call.Value != mc {
						inPlace = false
						deferred = c.Pos(in)
					}
				}
			}
		}
		if inPlace {
			direct++
		}
	}
	bad := ""
	if deferred != "" {
		bad = "the acceptor hands the registration of an accepted connection to another goroutine or queue at " + deferred + ": Engine.Stop waits for the acceptor goroutines and then sweeps the connection table, so an add that is still pending is missed by the sweep — the connection is registered after Stop (never closed, Stop hangs in the connection wait group, or an OnOpen after Stop)"
	} else if direct == 0 {
		bad = "acceptorLoop does not call addConn"
	}
	c.Cond(bad == "", ob, key, c.FnPos(loop), fmt.Sprintf("%d direct call(s) of addConn in the acceptor's own goroutine", direct), bad)
}

// ---------------------------------------------------------------- C14.O13

// c14PayloadReleasedByJob: a message callback that is handed to the
// connection's executor runs later; its payload belongs to that job.  The
// function that queues the job may release the payload only where the job will
// not run (the executor refused it) or where the callback already ran (the
// inline, blocking-mode edge).
func c14PayloadReleasedByJob(c *Ctx) {
	const ob = "C14.O13"
	n := 0
	for _, f := range c.pkgFuncs("websocket") {
		if f.Parent() != nil {
			continue
		}
		var execs []ir.CallSite
		for _, cs := range c.P.Calls(f, nil) {
			if cs.Kind == "call" && c.P.CalleeName(cs.Common) == "dyn:websocket.Conn.Execute" && len(cs.Common.Args) == 1 {
				if _, ok := cs.Common.Args[0].(*ssa.MakeClosure); ok {
					execs = append(execs, cs)
				}
			}
		}
		if len(execs) == 0 {
			continue
		}
		fi := c.P.Info(f)
		k := 0
		for _, cs := range c.P.Calls(f, nil) {
			if c.P.CalleeName(cs.Common) != "invoke:mempool.Allocator.Free" {
				continue
			}
			k++
			n++
			key := c.siteKey(f, "payload released only where the queued job does not own it", k)
			ok := fi.HasFact(cs.In, func(ft ir.Fact) bool {
				if fld, set, isB := c.P.BoolFieldTest(ft.Cond, ft.Truth); isB && fld == "websocket.Conn.isBlockingMod" && set {
					return true
				}
				for _, e := range execs {
					if ir.Resolve(ft.Cond) == e.Value() && !ft.Truth {
						return true
					}
				}
				return false
			})
			c.Cond(ok, ob, key, c.Pos(cs.In), "behind isBlockingMod (the callback ran inline) or behind a refused Execute",
				"the payload is released at "+c.Pos(cs.In)+" by the function that queues the callback, on a path where the executor accepted the job: the job runs later and reads a buffer that is back in the pool and, by then, holds a later message's bytes (callbacks see other messages' payloads; order and content no longer match the wire)")
		}
	}
	if n < 2 {
		c.Unres(ob, "payload releases next to an Execute hand-over", fmt.Sprintf("found %d, expected >= 2 (handleDataFrame, handleMessage)", n))
	}
}

// ---------------------------------------------------------------- C13.O11

// c13ControlNotCounted: a control frame between the fragments of a message is
// not part of the message: the size pre-check must not add the bytes buffered
// for the message to a control frame's length.
func c13ControlNotCounted(c *Ctx) {
	const ob = "C13.O11"
	nf := c.Fn(ob, "(*websocket.Conn).nextFrame")
	if nf == nil {
		return
	}
	key := fnKey(c.P, nf, "buffered message bytes are added to data frames only")
	d, err := eng.Decide(c.P, nf)
	if err != nil {
		c.Unres(ob, key, err.Error())
		return
	}
	var site ssa.Instruction
	for _, b := range nf.Blocks {
		for _, in := range b.Instrs {
			v, ok := in.(ssa.Value)
			if !ok {
				continue
			}
			if x, isLen := ir.IsLenOf(v); isLen {
				if ld, ok := ir.IsLoad(ir.Resolve(x)); ok && c.P.LoadedField(ld) == "websocket.Conn.message" {
					site = in
				}
			}
		}
	}
	if site == nil {
		c.OK(ob, key, c.FnPos(nf), "nextFrame does not read the buffered message's length")
		return
	}
	f := d.Block[site.Block()]
	leaves := sortedKeys(d.Leaves(f))
	leaf := ""
	fixed := eng.Env{}
	var others []string
	for _, l := range leaves {
		switch {
		case strings.HasSuffix(l, "bytesCached[0]") && leaf == "":
			leaf = l // the first header byte: FIN, RSV1-3, opcode
		case strings.HasPrefix(l, "len("):
			fixed[l] = 64
		case strings.HasSuffix(l, "bytesCached[1]"):
			fixed[l] = 5
		case strings.Contains(l, "Uint64(") || strings.Contains(l, "Uint16("):
			fixed[l] = 5
		default:
			others = append(others, l)
		}
	}
	if leaf == "" {
		c.Bad(ob, key, c.Pos(site), fmt.Sprintf("the bytes buffered for the message under assembly are added to the declared length of every frame, whatever its opcode (the addition at %s depends on %v only): a ping between two fragments is measured as if it were part of the message, and a legal sequence within the limit (fragment, ping, continuation) is refused with 1009", c.Pos(site), leaves))
		return
	}
	if len(others) > 8 {
		c.Unres(ob, key, fmt.Sprintf("too many inputs: %v", leaves))
		return
	}
	witness := ""
	dataOK := false
	n := 0
	for _, op := range []int64{0, 1, 2, 8, 9, 10} {
		for _, fin := range []int64{0, 0x80} {
			for bits := 0; bits < 1<<uint(len(others)); bits++ {
				n++
				env := eng.Env{leaf: fin | op}
				for k, v := range fixed {
					env[k] = v
				}
				for i, o := range others {
					env[o] = int64(bits >> uint(i) & 1)
				}
				got, err := d.Eval(f, env)
				if err != nil {
					c.Unres(ob, key, err.Error())
					return
				}
				if got && op >= 8 && witness == "" {
					witness = fmt.Sprintf("for opcode %d the bytes buffered for the message under assembly are added to the control frame's length (%s): a ping between two fragments is refused with 1009 although the message is within the limit", op, c.Pos(site))
				}
				if got && op < 8 {
					dataOK = true
				}
			}
		}
	}
	if witness == "" && !dataOK {
		witness = "the buffered length is never added for data frames: fragments could add up beyond the limit"
	}
	c.Cond(witness == "", ob, key, c.Pos(site), fmt.Sprintf("evaluated on %d (opcode, flags) points: added for 0/1/2, never for 8/9/10", n), witness)
}

// ---------------------------------------------------------------- C13.O12

// c13EmptyCompressedMessage: a compressed message may have no payload bytes
// at all (FIN, RSV1, length 0): the inflate step must not dereference the
// message buffer, which is only allocated when payload bytes arrive.
func c13EmptyCompressedMessage(c *Ctx) {
	const ob = "C13.O12"
	parse := c.Fn(ob, "(*websocket.Conn).Parse")
	if parse == nil {
		return
	}
	n := 0
	for _, f := range append([]*ssa.Function{parse}, ir.Closures(parse)...) {
		fi := c.P.Info(f)
		k := 0
		for _, cs := range c.P.CallsNamed(f, "bytes.NewBuffer") {
			// the argument is *p with p loaded from a cell or free variable
			deref, ok := ir.Unconv(cs.Common.Args[0]).(*ssa.UnOp)
			if !ok || deref.Op != token.MUL {
				continue
			}
			pl, ok := deref.X.(*ssa.UnOp)
			if !ok || pl.Op != token.MUL {
				continue
			}
			cell := pl.X
			k++
			n++
			key := c.siteKey(f, "inflate input is never a nil buffer", k)
			// a nil test of the same cell whose nil edge re-assigns the cell before the dereference
			guarded := false
			for _, i := range fi.Ifs() {
				x, _, ok := ir.NilTest(i.Cond, true)
				if !ok {
					continue
				}
				xl, ok := ir.Unconv(x).(*ssa.UnOp)
				if !ok || xl.Op != token.MUL || xl.X != cell || !fi.Dominates(i, deref) {
					continue
				}
				_, isNilOnTrue, _ := ir.NilTest(i.Cond, true)
				edge := 1
				if isNilOnTrue {
					edge = 0
				}
				vis, _ := fi.ReachFromEdge(i, edge, func(in ssa.Instruction) bool {
					st, ok := in.(*ssa.Store)
					if !ok || st.Addr != cell {
						return false
					}
					_, isCall := ir.Resolve(st.Val).(*ssa.Call)
					return isCall
				})
				if !vis[deref] {
					guarded = true
				}
			}
			c.Cond(guarded, ob, key, c.Pos(cs.In), "nil tested; the nil edge allocates before the dereference",
				"the message buffer is dereferenced at "+c.Pos(cs.In)+" for the inflate step without a nil test: it is allocated only when payload bytes arrive, so a compressed message with an empty payload (FIN, RSV1, length 0 — a legal frame) panics inside Parse (recovered, the connection is failed with a parse error)")
		}
	}
	if n == 0 {
		c.Unres(ob, "inflate input", "no bytes.NewBuffer(*message) site found in Parse")
	}
}

// ---------------------------------------------------------------- C12.O12

// c12ExactLimitInflates: 'the buffer is full and one more byte would exceed
// the limit' does not mean the message is too large: it is, only if a further
// byte follows.  readAll may refuse on the len+1 test only after it has read
// that byte.
func c12ExactLimitInflates(c *Ctx) {
	const ob = "C12.O12"
	ra := c.Fn(ob, "(*websocket.Conn).readAll")
	if ra == nil {
		return
	}
	fi := c.P.Info(ra)
	key := fnKey(c.P, ra, "a message of exactly the limit is not refused")
	n := 0
	bad := ""
	for _, cs := range c.P.CallsNamed(ra, "(*websocket.Conn).isMessageTooLarge") {
		b, ok := ir.Resolve(cs.Common.Args[1]).(*ssa.BinOp)
		if !ok || b.Op != token.ADD {
			continue
		}
		if k, isK := ir.ConstInt(b.Y); !isK || k != 1 {
			continue
		}
		for _, i := range usedAsCond(cs.Value()) {
			n++
			vis, _ := fi.ReachFromEdge(i, edgeOf(i, cs.Value(), true), nil)
			for x := range vis {
				r, isR := x.(*ssa.Return)
				if !isR || !ir.IsNilConst(ir.RetVals(r)[0]) {
					continue
				}
				// a refusal: only after a read, made behind this test, delivered a byte
				sawByte := fi.HasFact(r, func(ft ir.Fact) bool {
					cmp, ok := ir.DecodeIntCmp(ft.Cond)
					if !ok || cmp.Holds(1) != ft.Truth || cmp.Holds(0) == ft.Truth {
						return false
					}
					e, ok := ir.Resolve(cmp.Expr).(*ssa.Extract)
					if !ok || e.Index != 0 {
						return false
					}
					call, ok := e.Tuple.(*ssa.Call)
					return ok && call.Call.IsInvoke() && call.Call.Method.Name() == "Read" && fi.Dominates(i, call)
				})
				if !sawByte {
					bad = "readAll refuses the message at " + c.Pos(r) + " because its buffer is full and one more byte would exceed the limit, without having read that byte: a compressed message that inflates to exactly MessageLengthLimit is refused with 1009 whenever the pooled buffer's capacity equals the limit (observed for limits 1024 and 32768)"
				}
			}
		}
	}
	c.Cond(bad == "" && n > 0, ob, key, c.FnPos(ra), fmt.Sprintf("%d len+1 test(s): refusal only after a further byte was read", n), bad)
}

// ---------------------------------------------------------------- C03.O11

// c03UDPSessionTable: the UDP listener's session table is a plain map shared
// by the reader (lookup, insert), by every session's close (delete) and by the
// listener's close (range, reset).  Go maps crash the process on a concurrent
// write, so every access is under the table's own lock.
func c03UDPSessionTable(c *Ctx) {
	const ob = "C03.O11"
	L := c.Locks()
	table := []eng.Guard{{Field: "nbio.udpConn.conns", Lock: "nbio.udpConn.mux", Reads: true, Writes: true}}
	n := 0
	perFn := map[string]int{}
	for _, s := range eng.CheckGuarded(L, c.nbioFuncs(), table, nil) {
		if !s.Held && s.Access.Addr != nil && c.freshUnpublished(s.Fn, s.Access.In, s.Access.Addr.X) {
			continue
		}
		n++
		perFn[c.P.FuncName(s.Fn)]++
		key := fmt.Sprintf("%s: %s %s#%d", c.P.FuncName(s.Fn), rw(s.Access.Write), s.Access.Field, perFn[c.P.FuncName(s.Fn)])
		c.Cond(s.Held, ob, key, c.Pos(s.Access.In), "udpConn.mux held",
			"the UDP session table is accessed at "+c.Pos(s.Access.In)+" without its lock (udpConn.mux; held: "+L.Held(s.Access.In).String()+"): the reader inserts, every session's close deletes and the listener's close ranges over the same map, and a concurrent map write is a fatal error that takes the process down (closing a UDP listener, or Engine.Stop, while its sessions' read deadlines expire)")
	}
	if n < 4 {
		c.Unres(ob, "accesses of the UDP session table", fmt.Sprintf("found %d, expected >= 4", n))
	}
}

// ---------------------------------------------------------------- C07.O18

// c07MethodIsAToken: a request method is any token (RFC 9110; net/http takes
// PROPFIND, MKCOL, ... and reports the method as it was sent).  A table of
// known methods refuses well-formed requests, and folding the case changes
// what is delivered.
func c07MethodIsAToken(c *Ctx) {
	const ob = "C07.O18"
	parse := c.Fn(ob, "(*nbhttp.Parser).Parse")
	if parse == nil {
		return
	}
	fi := c.P.Info(parse)
	// (a) the method is reported as sent
	bad := "no OnMethod call in Parse"
	pos := c.FnPos(parse)
	for _, cs := range c.P.CallsNamed(parse, "invoke:nbhttp.Processor.OnMethod") {
		pos = c.Pos(cs.In)
		bad = ""
		arg := cs.Common.Args[len(cs.Common.Args)-1]
		v := ir.Resolve(arg)
		if cv, ok := v.(*ssa.Convert); ok {
			v = ir.Resolve(cv.X)
		}
		sl, ok := v.(*ssa.Slice)
		if !ok {
			bad = "the method handed to OnMethod at " + c.Pos(cs.In) + " is not the bytes of the request line (" + c.P.Desc(arg) + "): net/http reports the method as it was sent ('get' stays 'get'), so the delivered method differs"
		} else {
			// exactly the token: from the token start to the byte before the delimiter under the loop index
			var idx ssa.Value
			for _, b := range parse.Blocks {
				for _, in := range b.Instrs {
					if ia, isIA := in.(*ssa.IndexAddr); isIA && idx == nil {
						if _, isPhi := ia.Index.(*ssa.Phi); isPhi && ia.X == sl.X {
							idx = ia.Index
						}
					}
				}
			}
			_, lowIsVar := sl.Low.(*ssa.Phi)
			if sl.High == nil || sl.High != idx || !lowIsVar {
				bad = "the method handed to OnMethod at " + c.Pos(cs.In) + " is " + c.P.Desc(v) + ", not the token data[start:i] that ends before the delimiter under the loop index: the delivered method is not the one that was sent"
			}
		}
	}
	c.Cond(bad == "", ob, fnKey(c.P, parse, "the method is reported as sent"), pos, "OnMethod(string(data[start:i]))", bad)
	// (b) the bytes of a method are token bytes, and nothing else decides
	consts := c.stateConsts()
	cases := c.stateCases(parse)
	for _, st := range []string{"stateMethodBefore", "stateMethod"} {
		key := fnKey(c.P, parse, st+" accepts token bytes")
		entry := cases[consts[st]]
		if entry == nil {
			c.Unres(ob, key, "case not found")
			continue
		}
		paths, complete := c.casePaths(fi, entry, 2000)
		if !complete {
			c.Unres(ob, key, "path enumeration incomplete")
			continue
		}
		callees := map[string]bool{}
		for _, p := range paths {
			for _, ft := range p.facts {
				if call, ok := ir.Resolve(ft.Cond).(*ssa.Call); ok {
					callees[c.P.CalleeName(&call.Call)] = true
				}
			}
			for _, in := range p.instrs {
				if cs, ok := ir.AsCall(in); ok && cs.Kind == "call" {
					if n := c.P.CalleeName(cs.Common); strings.HasPrefix(n, "nbhttp.is") {
						callees[n] = true
					}
				}
			}
		}
		names := sortedKeys(callees)
		ok := len(names) == 1 && names[0] == "nbhttp.isToken"
		c.Cond(ok, ob, key, c.Pos(entry.Instrs[0]), "decided by isToken alone",
			fmt.Sprintf("%s decides by %v instead of the token class alone: a method outside the built-in table (PROPFIND, MKCOL, REPORT, ...) or with a digit or '-' in it is refused with 'invalid HTTP method' although the request is well-formed (net/http accepts any token)", st, names))
	}
}

// ---------------------------------------------------------------- C18.O17

// c18PublishedBehindTheSweep: Stop takes the connections to close exactly once.
// Acceptors are waited for, but AddConn may be called from any goroutine: a
// connection that is published in the table after the sweep is closed by
// nobody, and Stop waits for it for ever.  Stop therefore raises a flag in the
// critical section that takes the tables, and addConn looks at the flag (under
// the same mutex) after it has published the connection, and closes it.
func c18PublishedBehindTheSweep(c *Ctx) {
	const ob = "C18.O17"
	const fFlag = "nbio.Engine.stopping"
	const fMux = "nbio.Engine.mux"
	L := c.Locks()
	stop := c.Fn(ob, "(*nbio.Engine).Stop")
	add := c.Fn(ob, "(*nbio.poller).addConn")
	if stop == nil || add == nil {
		return
	}
	// Stop: flag := true under Engine.mux, in the region that reads the connection table
	{
		key := fnKey(c.P, stop, "the sweep is announced under the mutex that takes the tables")
		bad := "Engine.Stop does not announce its sweep: a connection that a user's goroutine is adding (Engine.AddConn, with the open handler still running) is published in the table behind the sweep, nobody closes it, and Stop waits in the connection wait group for ever"
		fi := c.P.Info(stop)
		for _, st := range c.P.StoresTo(stop, fFlag) {
			if v, ok := ir.ConstBool(st.Val); !ok || !v {
				continue
			}
			if !L.HeldClass(st, fMux) {
				bad = "the stopping flag is set at " + c.Pos(st) + " without Engine.mux"
				continue
			}
			bad = "the stopping flag is not set in the critical section that takes the connection table"
			for _, a := range c.P.FieldAccesses(stop, func(k string) bool { return k == "nbio.Engine.connsUnix" }) {
				if a.Write || !L.HeldClass(a.In, fMux) {
					continue
				}
				// one critical section, in either order: what matters is that no addConn can look at the
				// flag between the snapshot and the store
				before, _ := L.SameRegion(fi, fMux, st, a.In)
				after, _ := L.SameRegion(fi, fMux, a.In, st)
				if fi.Dominates(st, a.In) && before || fi.Dominates(a.In, st) && after {
					bad = ""
				}
			}
		}
		c.Cond(bad == "", ob, key, c.FnPos(stop), "stopping = true in the critical section of the table snapshot", bad)
	}
	// addConn: after the table store, on the way to the success return, the flag is read and its true edge closes
	{
		key := fnKey(c.P, add, "a connection published behind the sweep closes itself")
		fi := c.P.Info(add)
		// readers of the flag (under the mutex)
		readers := map[*ssa.Function]bool{}
		for _, f := range c.nbioFuncs() {
			for _, a := range c.P.FieldAccesses(f, func(k string) bool { return k == fFlag }) {
				if !a.Write && L.HeldClass(a.In, fMux) {
					readers[f] = true
				}
			}
		}
		var pub ssa.Instruction
		for _, a := range c.P.FieldAccesses(add, func(k string) bool { return k == "nbio.Engine.connsUnix" || k == "nbio.Engine.connsStd" }) {
			_ = a
		}
		for _, b := range add.Blocks {
			for _, in := range b.Instrs {
				st, ok := in.(*ssa.Store)
				if !ok {
					continue
				}
				if ia, ok := st.Addr.(*ssa.IndexAddr); ok && c.P.LoadedField(ia.X) == "nbio.Engine.connsUnix" && !ir.IsNilConst(st.Val) {
					pub = st
				}
			}
		}
		bad := ""
		if pub == nil {
			c.Unres(ob, key, "the table store was not found in addConn")
			return
		}
		bad = "addConn does not look at the engine's stopping flag after it has published the connection (" + c.Pos(pub) + "): published behind Stop's sweep, the connection is closed by nobody and Stop waits for it for ever"
		for _, cs := range c.P.Calls(add, nil) {
			g := ir.StaticCallee(cs.Common)
			if cs.Kind != "call" || g == nil || !readers[g] || !fi.Dominates(pub, cs.In) {
				continue
			}
			bad = "the stopping flag is read at " + c.Pos(cs.In) + " but its true edge does not close the connection"
			for _, i := range usedAsCond(cs.Value()) {
				vis, _ := fi.ReachFromEdge(i, edgeOf(i, cs.Value(), true), nil)
				for x := range vis {
					if c2, ok := ir.AsCall(x); ok {
						if n := c.P.CalleeName(c2.Common); n == "(*nbio.Conn).Close" || n == "(*nbio.Conn).closeWithError" || n == "(*nbio.Conn).CloseWithError" {
							bad = ""
						}
					}
				}
			}
			// every success return behind the publication passes the test
			if bad == "" {
				for _, r := range fi.Returns() {
					if !fi.CanReach(pub, r) {
						continue
					}
					if _, kind := c.retErr(fi, r); kind == "nonnil" {
						continue
					}
					esc := fi.EscapesWithout([]ssa.Instruction{pub}, func(in ssa.Instruction) bool {
						if in == cs.In {
							return true
						}
						// the registration-failure branch closes the connection itself
						if c2, ok := ir.AsCall(in); ok && c.P.CalleeName(c2.Common) == "(*nbio.Conn).closeWithError" {
							return true
						}
						return false
					})
					if len(esc) > 0 {
						bad = "a return of addConn behind the publication (" + c.Pos(esc[0]) + ") does not pass the stopping test"
					}
				}
			}
		}
		c.Cond(bad == "", ob, key, c.Pos(pub), "flag read under Engine.mux behind the table store; true edge closes", bad)
	}
}

// ---------------------------------------------------------------- C18.O18

// c18AcceptLoopLeaves: the goroutine nbhttp starts per listener is counted in
// the engine's WaitGroup, which Stop waits for.  It must end when its listener
// is closed — also when the shutdown flag is not set (a failed Start closes
// the listeners it has opened and then calls Stop) — and must not keep a
// connection it accepted while shutting down.
func c18AcceptLoopLeaves(c *Ctx) {
	const ob = "C18.O18"
	ln := c.Fn(ob, "(*nbhttp.Engine).listen")
	if ln == nil {
		return
	}
	var loop *ssa.Function
	for _, g := range ir.Closures(ln) {
		for _, cs := range c.P.Calls(g, nil) {
			if cs.Common.IsInvoke() && cs.Common.Method.Name() == "Accept" {
				loop = g
			}
		}
	}
	if loop == nil {
		c.Unres(ob, fnKey(c.P, ln, "accept loop"), "the accepting closure was not found")
		return
	}
	fi := c.P.Info(loop)
	var accept ssa.Instruction
	for _, cs := range c.P.Calls(loop, nil) {
		if cs.Common.IsInvoke() && cs.Common.Method.Name() == "Accept" {
			accept = cs.In
		}
	}
	// (a) a closed listener ends the loop
	{
		key := fnKey(c.P, loop, "a closed listener ends the accept loop")
		bad := "the accept loop never looks whether its listener is closed: once the listener is closed while the shutdown flag is not set (a failed Start closes the listeners it opened, then calls Stop) Accept fails at once, for ever; the goroutine spins and never reaches its deferred Done, and Stop waits in the engine's WaitGroup for ever"
		for _, i := range fi.Ifs() {
			e, target, is, ok := c.P.ErrorsIsTest(i.Cond, true)
			_ = e
			if !ok || !strings.HasSuffix(target, "ErrClosed") {
				continue
			}
			edge := 1
			if is {
				edge = 0
			}
			vis, _ := fi.ReachFromEdge(i, edge, nil)
			if vis[accept] {
				bad = "the closed-listener edge at " + c.Pos(i) + " goes round the loop again"
			} else {
				bad = ""
			}
		}
		c.Cond(bad == "", ob, key, c.FnPos(loop), "errors.Is(err, net.ErrClosed) leaves the loop", bad)
	}
	// (b) what was accepted while shutting down is closed
	{
		key := fnKey(c.P, loop, "a connection accepted while shutting down is closed")
		bad := ""
		// paths from Accept on which err == nil: each reaches the hand-over (a dynamic call with the connection) or Close
		var errv ssa.Value
		if v, ok := accept.(ssa.Value); ok {
			if refs := v.Referrers(); refs != nil {
				for _, r := range *refs {
					if e, ok := r.(*ssa.Extract); ok && e.Index == 1 {
						errv = e
					}
				}
			}
		}
		if errv == nil {
			c.Unres(ob, key, "Accept's error result not found")
			return
		}
		handled := func(in ssa.Instruction) bool {
			cs, ok := ir.AsCall(in)
			if !ok {
				return false
			}
			if cs.Common.IsInvoke() && cs.Common.Method.Name() == "Close" {
				return true
			}
			// addConn(&Conn{Conn: conn}, ...): a call of the function parameter
			return cs.Common.StaticCallee() == nil && !cs.Common.IsInvoke() && len(cs.Common.Args) >= 1
		}
		paths, exits, complete := pathFactsAvoiding(fi, accept, handled, 4000)
		if !complete {
			c.Unres(ob, key, "path enumeration incomplete")
			return
		}
		for k, p := range paths {
			nilErr, known := false, false
			for _, ft := range p {
				x, isNil, ok := ir.NilTest(ft.Cond, ft.Truth)
				if ok && ir.Resolve(x) == errv {
					nilErr, known = isNil, true
				}
			}
			if known && nilErr {
				bad = "on a path from Accept with err == nil (leaving at " + c.Pos(exits[k]) + ") the accepted connection is neither handed over nor closed: a connection accepted while the shutdown flag is already set stays open and untracked"
			}
		}
		c.Cond(bad == "", ob, key, c.Pos(accept), "every err == nil path hands the connection over or closes it", bad)
	}
}

// ---------------------------------------------------------------- C16.O17

// c16FlushMeetsTheDeadline: a write deadline is met when the bytes it was set
// for have gone out.  Write and Writev cancel it when they leave nothing
// queued (C16.O5); when the tail was queued it is flush that sends the last
// byte, and flush must cancel it on the edge on which it has drained the
// queue, or the stale timer closes a connection whose write completed in time.
func c16FlushMeetsTheDeadline(c *Ctx) {
	const ob = "C16.O17"
	fl := c.Fn(ob, "(*nbio.Conn).flush")
	if fl == nil {
		return
	}
	fi := c.P.Info(fl)
	L := c.Locks()
	key := fnKey(c.P, fl, "the drained edge cancels the write deadline")
	// the disarm behind the drain loop (its queue-empty fact comes from a loop test)
	var drained []ssa.Instruction
	for _, cs := range c.P.CallsNamed(fl, "(*nbio.Conn).resetRead") {
		for _, ft := range fi.Facts(cs.In) {
			if e, ok := c.queueTest(ft); ok && e && ft.If != nil && fi.InLoop(ft.If) {
				drained = append(drained, cs.In)
			}
		}
	}
	if len(drained) == 0 {
		c.Unres(ob, key, "the disarm behind flush's drain loop was not found")
		return
	}
	bad := ""
	for _, d := range drained {
		ok := false
		for _, st := range c.P.StoresTo(fl, fConnWTimer) {
			if !ir.IsNilConst(st.Val) || !L.HeldClass(st, fConnMux) {
				continue
			}
			if !fi.HasFact(st, func(ft ir.Fact) bool { e, isQ := c.queueTest(ft); return isQ && e }) {
				continue
			}
			// on the way to the drained return: the store reaches the disarm, or the disarm reaches it, without leaving the region
			if fi.CanReach(st, d) || fi.CanReach(d, st) {
				ok = true
			}
		}
		if !ok {
			bad = "flush drains the write queue (" + c.Pos(d) + ") without cancelling the write deadline: when the tail of a Write was queued it is flush that sends its last byte, and the deadline set for that write stays armed — a connection whose backlog went out in time is closed with 'write timeout' when the old deadline passes (SetWriteDeadline(1s), 24 MiB written, drained after 27 ms: closed at 1.000 s)"
		}
	}
	c.Cond(bad == "", ob, key, c.FnPos(fl), "wTimer stopped and cleared on the drained edge, under Conn.mux", bad)
}

// ---------------------------------------------------------------- C09.O16

// c09DeclaredZero: "Content-Length: 0" set by the handler declares an empty
// body.  Write's overrun test must cover it: a test that only applies for a
// positive length lets body bytes follow a head that says there are none, and
// the client reads them as the start of the next response.
func c09DeclaredZero(c *Ctx) {
	const ob = "C09.O16"
	w := c.Fn(ob, "(*nbhttp.Response).Write")
	if w == nil {
		return
	}
	fi := c.P.Info(w)
	key := fnKey(c.P, w, "a declared length of 0 is enforced")
	var cl ssa.Value
	for _, cs := range c.P.CallsNamed(w, "(*nbhttp.Response).contentLength") {
		if refs := cs.Value().Referrers(); refs != nil {
			for _, r := range *refs {
				if e, ok := r.(*ssa.Extract); ok && e.Index == 0 {
					cl = e
				}
			}
		}
	}
	if cl == nil {
		c.Unres(ob, key, "the declared length is not read in Write")
		return
	}
	n, covered := 0, false
	for _, r := range fi.Returns() {
		rv := ir.RetVals(r)
		if !strings.HasSuffix(c.P.Desc(rv[len(rv)-1]), "http.ErrContentLength") {
			continue
		}
		n++
		// on an edge on which the declared length is 0 and the field is present
		zero := fi.HasFact(r, func(ft ir.Fact) bool {
			cmp, ok := ir.DecodeIntCmp(ft.Cond)
			return ok && ir.Resolve(cmp.Expr) == cl && cmp.Holds(0) == ft.Truth && cmp.Holds(1) != ft.Truth
		})
		present := fi.HasFact(r, func(ft ir.Fact) bool {
			for _, cs := range c.P.Calls(w, func(name string, _ ir.CallSite) bool { return strings.HasSuffix(name, "Header).Get") }) {
				if dep := c.dependsOn(w, cs.Value()); dep[ft.Cond] || dep[ir.Resolve(ft.Cond)] {
					return true
				}
			}
			return false
		})
		if zero && present {
			covered = true
		}
	}
	c.Cond(covered && n > 0, ob, key, c.FnPos(w), fmt.Sprintf("%d ErrContentLength return(s), one on the declared-zero edge", n),
		"Write enforces a declared Content-Length only when it is positive: with 'Content-Length: 0' set by the handler a Write is accepted and its bytes follow a head that declares an empty body — the client reads them as the start of the next response (malformed HTTP version \"helloHTTP/1.1\"); net/http returns ErrContentLength")
}

// ---------------------------------------------------------------- C05.O8

// c05ExecutorsRunWhatTheyGet: MustExecute always runs its job.  It hands the
// drainer to Engine.Execute, so every function that is ever stored there must
// do something with its argument — call it, start it, or pass it on.  An
// executor that drops what it is given makes MustExecute queue a job that
// never runs (and every later job of that connection behind it).
func c05ExecutorsRunWhatTheyGet(c *Ctx) {
	const ob = "C05.O8"
	n := 0
	for _, f := range append(c.nbioFuncs(), c.pkgFuncs("nbhttp")...) {
		k := 0
		for _, st := range c.P.StoresTo(f, "nbio.Engine.Execute") {
			var fn *ssa.Function
			switch v := ir.Resolve(st.Val).(type) {
			case *ssa.MakeClosure:
				fn, _ = v.Fn.(*ssa.Function)
			case *ssa.Function:
				fn = v
			}
			k++
			key := c.siteKey(f, "an engine executor runs what it is given", k)
			if fn == nil {
				// a value computed elsewhere (a pool's Go method, a configured executor): not a literal that can drop
				c.OK(ob, key, c.Pos(st), "not a function literal: "+c.P.Desc(st.Val))
				n++
				continue
			}
			n++
			used := false
			if len(fn.Params) > 0 {
				used = runsItsArgument(fn.Params[len(fn.Params)-1], 0)
			}
			c.Cond(used, ob, key, c.Pos(st), "the literal uses its argument",
				"the function stored in Engine.Execute at "+c.Pos(st)+" ignores the job it is given: MustExecute (which 'always runs' its job) queues the job, hands the drainer to this executor, and nothing ever runs — the connection's job list stays non-empty, so every later job of the connection is queued behind it for ever (nbhttp replaces the executor like this in its stop hook)")
		}
	}
	if n < 2 {
		c.Unres(ob, "assignments of Engine.Execute", fmt.Sprintf("found %d, expected >= 2", n))
	}
}

// runsItsArgument: the function value v is called, started, or handed on as a
// function (to a pool's Go, an executor, a closure that does one of these).
// Printing it or storing it in an interface does not count.
func runsItsArgument(v ssa.Value, depth int) bool {
	if depth > 4 {
		return false
	}
	refs := v.Referrers()
	if refs == nil {
		return false
	}
	isFunc := func(t types.Type) bool { _, ok := t.Underlying().(*types.Signature); return ok }
	for _, r := range *refs {
		var common *ssa.CallCommon
		switch x := r.(type) {
		case *ssa.Call:
			common = &x.Call
		case *ssa.Go:
			common = &x.Call
		case *ssa.Defer:
			common = &x.Call
		case *ssa.MakeClosure:
			fn, ok := x.Fn.(*ssa.Function)
			if !ok {
				continue
			}
			for i, b := range x.Bindings {
				if b == v && i < len(fn.FreeVars) && runsItsArgument(fn.FreeVars[i], depth+1) {
					return true
				}
			}
			continue
		case *ssa.Store:
			// kept in a local cell: what is loaded from it
			if al, ok := x.Addr.(*ssa.Alloc); ok && x.Val == v {
				if arefs := al.Referrers(); arefs != nil {
					for _, ar := range *arefs {
						if ld, ok := ar.(*ssa.UnOp); ok && ld.Op == token.MUL && runsItsArgument(ld, depth+1) {
							return true
						}
						if mc, ok := ar.(*ssa.MakeClosure); ok {
							if fn, ok := mc.Fn.(*ssa.Function); ok {
								for i, b := range mc.Bindings {
									if b == ssa.Value(al) && i < len(fn.FreeVars) {
										// the cell itself is captured: loads of the free variable
										if frefs := fn.FreeVars[i].Referrers(); frefs != nil {
											for _, fr := range *frefs {
												if ld, ok := fr.(*ssa.UnOp); ok && ld.Op == token.MUL && runsItsArgument(ld, depth+1) {
													return true
												}
											}
										}
									}
								}
							}
						}
					}
				}
			}
			continue
		case *ssa.UnOp:
			if x.Op == token.MUL && runsItsArgument(x, depth+1) {
				return true
			}
			continue
		case *ssa.ChangeType:
			if runsItsArgument(x, depth+1) {
				return true
			}
			continue
		default:
			continue
		}
		if common.Value == v {
			return true
		}
		for _, a := range common.Args {
			if a == v && isFunc(a.Type()) {
				return true
			}
		}
	}
	return false
}
