// Package fix runs the engine fixtures (DESIGN §7): tiny type-checked Go
// packages with seeded violations that each engine must report and idiomatic
// non-violations it must stay silent on.  A check whose engines misbehave on
// their fixtures fails before it looks at /repo; this is also what keeps
// expected-zero rules from passing vacuously.
package fix

import (
	"fmt"
	"sort"
	"strings"

	"golang.org/x/tools/go/ssa"

	"verif/internal/eng"
	"verif/internal/ir"
)

type group func(p *ir.Prog) (ok int, fails []string)

var groups = map[string]group{
	"lockset":   lockset,
	"cfg":       cfgfix,
	"decide":    func(p *ir.Prog) (int, []string) { return 0, nil },
	"typestate": typestate,
}

// Register adds a fixture group (used by other packages' init functions).
func Register(name string, g func(p *ir.Prog) (int, []string)) { groups[name] = g }

// Run loads the fixtures module and evaluates the requested groups.
func Run(dir string, names []string) (int, []string) {
	if len(names) == 0 {
		return 0, nil
	}
	p, err := ir.Load(ir.LoadOpts{Dir: dir})
	if err != nil {
		return 0, []string{"fixtures do not load: " + err.Error()}
	}
	total := 0
	var fails []string
	seen := map[string]bool{}
	for _, n := range names {
		if seen[n] {
			continue
		}
		seen[n] = true
		g, ok := groups[n]
		if !ok {
			fails = append(fails, "unknown fixture group "+n)
			continue
		}
		k, f := g(p)
		total += k
		for _, x := range f {
			fails = append(fails, n+": "+x)
		}
	}
	sort.Strings(fails)
	return total, fails
}

// pkgFuncs lists the functions of one fixture package.
func pkgFuncs(p *ir.Prog, pkg string) []*ssa.Function {
	var out []*ssa.Function
	for _, f := range p.Funcs {
		if p.PkgOf(f) == pkg {
			out = append(out, f)
		}
	}
	return out
}

// expectByName compares the set of outermost functions with a report against
// the naming convention: Bad*/bad* must be reported, everything else not.
func expectByName(p *ir.Prog, funcs []*ssa.Function, reported map[string]bool) (int, []string) {
	ok := 0
	var fails []string
	seen := map[string]bool{}
	for _, f := range funcs {
		o := ir.Outermost(f)
		name := o.Name()
		if seen[name] {
			continue
		}
		seen[name] = true
		want := strings.HasPrefix(name, "Bad") || strings.HasPrefix(name, "bad")
		got := reported[name]
		if want != got {
			fails = append(fails, fmt.Sprintf("%s: reported=%v want=%v", name, got, want))
		} else {
			ok++
		}
	}
	return ok, fails
}

func lockset(p *ir.Prog) (int, []string) {
	funcs := pkgFuncs(p, "lockset")
	if len(funcs) < 20 {
		return 0, []string{"lockset fixture package missing"}
	}
	l := eng.AnalyzeLocks(p)
	table := []eng.Guard{
		{Field: "lockset.S.f", Lock: "lockset.S.mu", Reads: true, Writes: true},
		{Field: "lockset.S.q", Lock: "lockset.S.mu", Reads: true, Writes: true},
		{Field: "lockset.S.closed", Lock: "lockset.S.mu", Reads: true, Writes: true},
	}
	rep := map[string]bool{}
	for _, s := range eng.CheckGuarded(l, funcs, table, nil) {
		if !s.Held {
			rep[ir.Outermost(s.Fn).Name()] = true
		}
	}
	return expectByName(p, funcs, rep)
}

func findMark(p *ir.Prog, f *ssa.Function, k int64) ssa.Instruction {
	for _, g := range ir.WithClosures(f) {
		for _, b := range g.Blocks {
			for _, in := range b.Instrs {
				cs, ok := ir.AsCall(in)
				if !ok {
					continue
				}
				if strings.HasSuffix(p.CalleeName(cs.Common), ".mark") && len(cs.Common.Args) == 1 {
					if n, ok := ir.ConstInt(cs.Common.Args[0]); ok && n == k {
						return in
					}
				}
			}
		}
	}
	return nil
}

func cfgfix(p *ir.Prog) (int, []string) {
	funcs := pkgFuncs(p, "cfgfix")
	ok := 0
	var fails []string
	n := 0
	for _, f := range funcs {
		name := f.Name()
		fi := p.Info(f)
		m1 := findMark(p, f, 1)
		switch {
		case strings.HasPrefix(name, "Dom"), strings.HasPrefix(name, "NoDom"):
			n++
			if m1 == nil {
				fails = append(fails, name+": mark(1) not found")
				continue
			}
			got := fi.HasFact(m1, func(ft ir.Fact) bool {
				c, ok := ir.DecodeIntCmp(ft.Cond)
				if !ok {
					return false
				}
				if _, isParam := c.Expr.(*ssa.Parameter); !isParam {
					if _, isPhi := c.Expr.(*ssa.Phi); !isPhi {
						return false
					}
				}
				// fact means n > 0 ?
				if ft.Truth {
					return c.Holds(1) && !c.Holds(0) && c.Holds(100)
				}
				return !c.Holds(1) && c.Holds(0) && !c.Holds(100)
			})
			want := strings.HasPrefix(name, "Dom")
			if got != want {
				fails = append(fails, fmt.Sprintf("%s: dominated-by(n>0)=%v want %v", name, got, want))
			} else {
				ok++
			}
		case strings.HasPrefix(name, "Must"), strings.HasPrefix(name, "Escape"):
			n++
			if m1 == nil {
				fails = append(fails, name+": mark(1) not found")
				continue
			}
			esc := fi.EscapesWithout([]ssa.Instruction{m1}, func(in ssa.Instruction) bool {
				cs, isCall := ir.AsCall(in)
				if isCall && cs.Kind == "call" && strings.HasSuffix(p.CalleeName(cs.Common), ".mark") {
					k, _ := ir.ConstInt(cs.Common.Args[0])
					return k == 2
				}
				// a deferred mark(2) runs at RunDefers
				if _, isRD := in.(*ssa.RunDefers); isRD {
					for _, b := range f.Blocks {
						for _, x := range b.Instrs {
							if d, ok := x.(*ssa.Defer); ok && strings.HasSuffix(p.CalleeName(&d.Call), ".mark") {
								if k, _ := ir.ConstInt(d.Call.Args[0]); k == 2 && fi.Dominates(x, in) {
									return true
								}
							}
						}
					}
				}
				return false
			})
			want := strings.HasPrefix(name, "Escape")
			if (len(esc) > 0) != want {
				fails = append(fails, fmt.Sprintf("%s: escapes=%d want escape=%v", name, len(esc), want))
			} else {
				ok++
			}
		case strings.HasPrefix(name, "Zero"):
			n++
			if m1 == nil {
				fails = append(fails, name+": mark(1) not found")
				continue
			}
			res := "none"
			for _, ft := range fi.Facts(m1) {
				e, zero, isZ := ir.ZeroTest(ft.Cond, ft.Truth)
				if !isZ {
					continue
				}
				if _, isLen := ir.IsLenOf(e); !isLen {
					continue
				}
				if zero {
					res = "true"
				} else {
					res = "false"
				}
			}
			want := "none"
			if strings.HasPrefix(name, "ZeroTrue") {
				want = "true"
			} else if strings.HasPrefix(name, "ZeroFalse") {
				want = "false"
			}
			if res != want {
				fails = append(fails, fmt.Sprintf("%s: zero-test=%s want %s", name, res, want))
			} else {
				ok++
			}
		}
	}
	if n < 25 {
		fails = append(fails, fmt.Sprintf("cfg fixture package incomplete: %d cases", n))
	}
	return ok, fails
}

func typestate(p *ir.Prog) (int, []string) {
	funcs := pkgFuncs(p, "tsfix")
	if len(funcs) < 25 {
		return 0, []string{"typestate fixture package missing"}
	}
	cfg := eng.TSConfig{
		P: p,
		FreeArg: func(cs ir.CallSite) ssa.Value {
			if p.CalleeName(cs.Common) == "tsfix.Free" {
				return cs.Common.Args[0]
			}
			return nil
		},
		ConsumeArg: func(cs ir.CallSite) ssa.Value {
			if p.CalleeName(cs.Common) == "tsfix.Append" {
				return cs.Common.Args[0]
			}
			return nil
		},
		IsMalloc: func(cs ir.CallSite) bool { return p.CalleeName(cs.Common) == "tsfix.Malloc" },
		ExecutorClosure: func(cs ir.CallSite) *ssa.Function {
			if p.CalleeName(cs.Common) == "tsfix.Execute" {
				if mc, ok := cs.Common.Args[0].(*ssa.MakeClosure); ok {
					return mc.Fn.(*ssa.Function)
				}
			}
			return nil
		},
	}
	ts := eng.NewTypestate(cfg)
	for _, f := range funcs {
		if f.Parent() == nil {
			ts.AnalyzeRoot(f)
		}
	}
	rep := map[string]bool{}
	for _, v := range ts.Violations() {
		rep[ir.Outermost(v.Fn).Name()] = true
	}
	var named []*ssa.Function
	for _, f := range funcs {
		n := ir.Outermost(f).Name()
		if strings.HasPrefix(n, "Ok") || strings.HasPrefix(n, "Bad") {
			named = append(named, f)
		}
	}
	return expectByName(p, named, rep)
}
