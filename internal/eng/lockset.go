// Package eng holds the analysis engines (DESIGN §3).
package eng

import (
	"sort"
	"strings"

	"golang.org/x/tools/go/ssa"

	"verif/internal/ir"
)

// LockSet is a set of lock classes ("nbio.Conn.mux").
type LockSet map[string]bool

func (s LockSet) clone() LockSet {
	o := LockSet{}
	for k := range s {
		o[k] = true
	}
	return o
}

func (s LockSet) String() string {
	var ks []string
	for k := range s {
		ks = append(ks, k)
	}
	sort.Strings(ks)
	return "{" + strings.Join(ks, ",") + "}"
}

func meet(a, b LockSet) LockSet {
	o := LockSet{}
	for k := range a {
		if b[k] {
			o[k] = true
		}
	}
	return o
}

func equal(a, b LockSet) bool {
	if len(a) != len(b) {
		return false
	}
	for k := range a {
		if !b[k] {
			return false
		}
	}
	return true
}

type lockState struct {
	held     LockSet
	may      LockSet // classes held on some path (may-analysis, union at joins)
	deferred LockSet // classes released by registered defers
	top      bool    // unreachable so far
}

// Locks is the result of the must-hold lockset analysis (engine E1).
type Locks struct {
	drops   map[*ssa.Function]map[string]int8
	P       *ir.Prog
	Entry   map[*ssa.Function]LockSet
	before  map[ssa.Instruction]LockSet
	mayBef  map[ssa.Instruction]LockSet
	summary map[*ssa.Function]lockSummary
	// entryFree marks functions whose entry lockset is forced empty and why.
	EntryWhy map[*ssa.Function]string
	universe LockSet
}

type lockSummary struct {
	acquires LockSet // held at every exit although not at entry
	releases LockSet // released although not acquired inside
}

// lockOp classifies a call as acquire/release of a class.
func (l *Locks) lockOp(c *ssa.CallCommon) (class string, acquire bool, ok bool) {
	name := l.P.CalleeName(c)
	var acq bool
	switch name {
	case "(*sync.Mutex).Lock", "(*sync.RWMutex).Lock", "(*sync.RWMutex).RLock":
		acq = true
	case "(*sync.Mutex).Unlock", "(*sync.RWMutex).Unlock", "(*sync.RWMutex).RUnlock":
		acq = false
	default:
		return "", false, false
	}
	if len(c.Args) == 0 {
		return "", false, false
	}
	a := ir.Root(c.Args[0])
	if fa, ok := a.(*ssa.FieldAddr); ok {
		return l.P.FieldKey(fa), acq, true
	}
	if g, ok := a.(*ssa.Global); ok {
		return l.P.Short(g.String()), acq, true
	}
	return "?", acq, true
}

// AnalyzeLocks runs the interprocedural must-hold analysis over all module
// functions.
func AnalyzeLocks(p *ir.Prog) *Locks {
	l := &Locks{P: p, Entry: map[*ssa.Function]LockSet{}, before: map[ssa.Instruction]LockSet{}, mayBef: map[ssa.Instruction]LockSet{},
		summary: map[*ssa.Function]lockSummary{}, EntryWhy: map[*ssa.Function]string{}, universe: LockSet{}}
	// universe of classes
	for _, f := range p.Funcs {
		for _, b := range f.Blocks {
			for _, in := range b.Instrs {
				if cs, ok := ir.AsCall(in); ok {
					if cl, _, ok := l.lockOp(cs.Common); ok {
						l.universe[cl] = true
					}
				}
			}
		}
	}
	// call sites per function
	type site struct {
		in     ssa.Instruction
		caller *ssa.Function
		defer_ bool
	}
	sites := map[*ssa.Function][]site{}
	escaped := map[*ssa.Function]string{}
	inModule := map[*ssa.Function]bool{}
	for _, f := range p.Funcs {
		inModule[f] = true
	}
	for _, f := range p.Funcs {
		for _, b := range f.Blocks {
			for _, in := range b.Instrs {
				if cs, ok := ir.AsCall(in); ok {
					if callee := ir.StaticCallee(cs.Common); callee != nil && inModule[callee] {
						switch cs.Kind {
						case "call":
							sites[callee] = append(sites[callee], site{in: in, caller: f})
						case "defer":
							sites[callee] = append(sites[callee], site{in: in, caller: f, defer_: true})
						case "go":
							escaped[callee] = "go target"
						}
					}
				}
				// function values used other than as the callee of a call escape
				var ops []*ssa.Value
				ops = in.Operands(ops)
				for _, o := range ops {
					if o == nil || *o == nil {
						continue
					}
					var fn *ssa.Function
					switch v := (*o).(type) {
					case *ssa.Function:
						fn = v
					case *ssa.MakeClosure:
						fn = v.Fn.(*ssa.Function)
					}
					if fn == nil || !inModule[fn] {
						continue
					}
					if cs, ok := ir.AsCall(in); ok && cs.Common.Value == *o {
						continue // callee position
					}
					if mc, ok := in.(*ssa.MakeClosure); ok && mc.Fn == *o {
						continue // the closure value itself is tracked, not its code pointer
					}
					if st, ok := in.(*ssa.Store); ok && st.Val == *o {
						if a, ok := ir.Root(st.Addr).(*ssa.Alloc); ok && onlyCalled(a) {
							continue // local closure variable that is only called
						}
					}
					escaped[fn] = "value escapes at " + p.InstrPos(in)
				}
			}
		}
	}
	for _, f := range p.Funcs {
		switch {
		case escaped[f] != "":
			l.Entry[f] = LockSet{}
			l.EntryWhy[f] = escaped[f]
		case len(sites[f]) == 0:
			l.Entry[f] = LockSet{}
			l.EntryWhy[f] = "no static call site"
		case f.Parent() == nil && isExported(f):
			l.Entry[f] = LockSet{}
			l.EntryWhy[f] = "exported"
		default:
			l.Entry[f] = l.universe.clone() // ⊤, refined downwards
		}
	}
	// fixpoint
	for iter := 0; iter < 50; iter++ {
		changed := false
		for _, f := range p.Funcs {
			sum := l.flow(f)
			old := l.summary[f]
			if !equal(old.acquires, sum.acquires) || !equal(old.releases, sum.releases) {
				l.summary[f] = sum
				changed = true
			}
		}
		for _, f := range p.Funcs {
			if l.EntryWhy[f] != "" {
				continue
			}
			var e LockSet
			for _, s := range sites[f] {
				var h LockSet
				if s.defer_ {
					h = l.heldAtRunDefers(s.caller)
				} else {
					h = l.before[s.in]
				}
				if h == nil {
					continue // call site unreachable / not yet analysed
				}
				if e == nil {
					e = h.clone()
				} else {
					e = meet(e, h)
				}
			}
			if e == nil {
				e = LockSet{}
			}
			if !equal(e, l.Entry[f]) {
				l.Entry[f] = e
				changed = true
			}
		}
		if !changed {
			break
		}
	}
	return l
}

func isExported(f *ssa.Function) bool {
	n := f.Name()
	return n != "" && n[0] >= 'A' && n[0] <= 'Z'
}

// onlyCalled reports that every load of the local cell is used only as the
// callee of a call (the `writeBuffer := func(){...}` idiom).
func onlyCalled(a *ssa.Alloc) bool {
	ok := true
	var visit func(v ssa.Value)
	visit = func(v ssa.Value) {
		refs := v.Referrers()
		if refs == nil {
			return
		}
		for _, r := range *refs {
			switch u := r.(type) {
			case *ssa.Store:
				if u.Addr != v {
					ok = false
				}
			case *ssa.UnOp:
				lr := u.Referrers()
				if lr == nil {
					continue
				}
				for _, x := range *lr {
					cs, isCall := ir.AsCall(x)
					if !isCall || cs.Common.Value != ssa.Value(u) || cs.Kind == "go" {
						if _, dbg := x.(*ssa.DebugRef); !dbg {
							ok = false
						}
					}
				}
			case *ssa.MakeClosure:
				// captured by a nested closure: follow the free variable
				fn := u.Fn.(*ssa.Function)
				for i, b := range u.Bindings {
					if b == v && i < len(fn.FreeVars) {
						visit(fn.FreeVars[i])
					}
				}
			case *ssa.DebugRef:
			default:
				ok = false
			}
		}
	}
	visit(a)
	return ok
}

func (l *Locks) heldAtRunDefers(f *ssa.Function) LockSet {
	var e LockSet
	for _, b := range f.Blocks {
		for _, in := range b.Instrs {
			if _, ok := in.(*ssa.RunDefers); ok {
				h := l.before[in]
				if h == nil {
					continue
				}
				if e == nil {
					e = h.clone()
				} else {
					e = meet(e, h)
				}
			}
		}
	}
	return e
}

// flow runs the intraprocedural dataflow for f with its current entry set.
func (l *Locks) flow(f *ssa.Function) lockSummary {
	if len(f.Blocks) == 0 {
		return lockSummary{acquires: LockSet{}, releases: LockSet{}}
	}
	in := make([]*lockState, len(f.Blocks))
	entry := l.Entry[f]
	in[0] = &lockState{held: entry.clone(), may: entry.clone(), deferred: LockSet{}}
	released := LockSet{} // classes unlocked while not held (function releases the caller's lock)
	work := []int{0}
	inWork := map[int]bool{0: true}
	outHeldAtExit := []LockSet{}
	for len(work) > 0 {
		bi := work[0]
		work = work[1:]
		inWork[bi] = false
		b := f.Blocks[bi]
		st := &lockState{held: in[bi].held.clone(), may: in[bi].may.clone(), deferred: in[bi].deferred.clone()}
		for _, ins := range b.Instrs {
			l.before[ins] = st.held.clone()
			l.mayBef[ins] = st.may.clone()
			switch x := ins.(type) {
			case *ssa.Call:
				l.applyCall(&x.Call, st, released)
			case *ssa.Defer:
				// effects of the deferred call happen at RunDefers
				if cl, acq, ok := l.lockOp(&x.Call); ok {
					if !acq {
						st.deferred[cl] = true
					}
				} else if callee := ir.StaticCallee(&x.Call); callee != nil {
					if s, ok := l.summary[callee]; ok {
						for k := range s.releases {
							st.deferred[k] = true
						}
					}
				}
			case *ssa.RunDefers:
				for k := range st.deferred {
					if !st.held[k] {
						released[k] = true
					}
					delete(st.held, k)
					delete(st.may, k)
				}
			}
		}
		for _, s := range b.Succs {
			if in[s.Index] == nil {
				in[s.Index] = &lockState{held: st.held.clone(), may: st.may.clone(), deferred: st.deferred.clone()}
			} else {
				nm := in[s.Index].may.clone()
				for k := range st.may {
					nm[k] = true
				}
				mayChanged := !equal(nm, in[s.Index].may)
				in[s.Index].may = nm
				nh := meet(in[s.Index].held, st.held)
				nd := LockSet{}
				for k := range in[s.Index].deferred {
					nd[k] = true
				}
				for k := range st.deferred {
					nd[k] = true
				}
				if equal(nh, in[s.Index].held) && equal(nd, in[s.Index].deferred) && !mayChanged {
					continue
				}
				in[s.Index].held = nh
				in[s.Index].deferred = nd
			}
			if !inWork[s.Index] {
				inWork[s.Index] = true
				work = append(work, s.Index)
			}
		}
		if len(b.Instrs) > 0 {
			if _, ok := b.Instrs[len(b.Instrs)-1].(*ssa.Return); ok {
				outHeldAtExit = append(outHeldAtExit, st.held.clone())
			}
		}
	}
	sum := lockSummary{acquires: LockSet{}, releases: released}
	var ex LockSet
	for _, h := range outHeldAtExit {
		if ex == nil {
			ex = h
		} else {
			ex = meet(ex, h)
		}
	}
	for k := range ex {
		if !entry[k] {
			sum.acquires[k] = true
		}
	}
	// A function that releases a class it also holds on entry is a release
	// wrapper only if the class is not re-held at exit.
	for k := range released {
		if ex[k] {
			delete(sum.releases, k)
		}
	}
	return sum
}

func (l *Locks) applyCall(c *ssa.CallCommon, st *lockState, released LockSet) {
	if cl, acq, ok := l.lockOp(c); ok {
		if acq {
			st.held[cl] = true
			st.may[cl] = true
		} else {
			if !st.held[cl] {
				released[cl] = true
			}
			delete(st.held, cl)
			delete(st.may, cl)
		}
		return
	}
	if callee := ir.StaticCallee(c); callee != nil {
		if s, ok := l.summary[callee]; ok {
			for k := range s.releases {
				if !st.held[k] {
					released[k] = true
				}
				delete(st.held, k)
				delete(st.may, k)
			}
			for k := range s.acquires {
				st.held[k] = true
				st.may[k] = true
			}
		}
	}
}

// Held returns the locks that are held on every path reaching the
// instruction (nil if the instruction was never reached by the analysis).
func (l *Locks) Held(in ssa.Instruction) LockSet { return l.before[in] }

// HeldClass reports whether class is held before in.
func (l *Locks) HeldClass(in ssa.Instruction, class string) bool {
	h := l.before[in]
	return h != nil && h[class]
}

// MayHold reports whether class may be held (on some path) before in.
func (l *Locks) MayHold(in ssa.Instruction, class string) bool {
	h := l.mayBef[in]
	return h != nil && h[class]
}

// Releases lists the instructions in f (not closures) that release class:
// direct unlocks and calls of release wrappers; RunDefers when a deferred
// unlock is registered.
func (l *Locks) Releases(f *ssa.Function, class string) []ssa.Instruction {
	var out []ssa.Instruction
	hasDeferred := false
	for _, b := range f.Blocks {
		for _, in := range b.Instrs {
			switch x := in.(type) {
			case *ssa.Call:
				if cl, acq, ok := l.lockOp(&x.Call); ok {
					if !acq && cl == class {
						out = append(out, in)
					}
				} else if callee := ir.StaticCallee(&x.Call); callee != nil {
					if l.summary[callee].releases[class] || l.Drops(callee, class) {
						out = append(out, in)
					}
				}
			case *ssa.Defer:
				if cl, acq, ok := l.lockOp(&x.Call); ok && !acq && cl == class {
					hasDeferred = true
				} else if callee := ir.StaticCallee(&x.Call); callee != nil && l.summary[callee].releases[class] {
					hasDeferred = true
				}
			}
		}
	}
	if hasDeferred {
		for _, b := range f.Blocks {
			for _, in := range b.Instrs {
				if _, ok := in.(*ssa.RunDefers); ok {
					out = append(out, in)
				}
			}
		}
	}
	return out
}

// Drops reports that f, entered with class held by its caller, gives the lock
// up for a while (an explicit unlock followed by a re-lock, directly or in a
// static callee): the caller's critical section is split although the lock is
// held again when f returns.
func (l *Locks) Drops(f *ssa.Function, class string) bool {
	if l.drops == nil {
		l.drops = map[*ssa.Function]map[string]int8{}
	}
	if m, ok := l.drops[f]; ok {
		if v, ok := m[class]; ok {
			return v == 1
		}
	} else {
		l.drops[f] = map[string]int8{}
	}
	l.drops[f][class] = 0 // cycle guard
	res := false
	if l.Entry[f][class] {
		for _, b := range f.Blocks {
			for _, in := range b.Instrs {
				x, ok := in.(*ssa.Call)
				if !ok {
					continue
				}
				if cl, acq, ok := l.lockOp(&x.Call); ok {
					if !acq && cl == class {
						res = true
					}
				} else if callee := ir.StaticCallee(&x.Call); callee != nil && callee != f {
					if l.HeldClass(in, class) && l.Drops(callee, class) {
						res = true
					}
				}
			}
		}
	}
	if res {
		l.drops[f][class] = 1
	}
	return res
}

// Acquires lists the instructions in f that acquire class.
func (l *Locks) Acquires(f *ssa.Function, class string) []ssa.Instruction {
	var out []ssa.Instruction
	for _, b := range f.Blocks {
		for _, in := range b.Instrs {
			if x, ok := in.(*ssa.Call); ok {
				if cl, acq, ok := l.lockOp(&x.Call); ok {
					if acq && cl == class {
						out = append(out, in)
					}
				} else if callee := ir.StaticCallee(&x.Call); callee != nil {
					if l.summary[callee].acquires[class] {
						out = append(out, in)
					}
				}
			}
		}
	}
	return out
}

// SameRegion reports that no release of class can execute between a and b on
// any path from a to b (a dominates b is not required; every a-to-b path is
// examined).
func (l *Locks) SameRegion(fi *ir.FnInfo, class string, a, b ssa.Instruction) (bool, ssa.Instruction) {
	rel := map[ssa.Instruction]bool{}
	for _, r := range l.Releases(fi.Fn, class) {
		rel[r] = true
	}
	vis, _ := fi.Reach([]ssa.Instruction{a}, func(in ssa.Instruction) bool { return in == b })
	for in := range vis {
		if rel[in] {
			// does this release reach b without passing a again?
			v2, st := fi.Reach([]ssa.Instruction{in}, func(x ssa.Instruction) bool { return x == b || x == a })
			_ = v2
			if st[b] {
				return false, in
			}
		}
	}
	return true, nil
}
