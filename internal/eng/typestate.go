package eng

import (
	"fmt"
	"go/token"
	"go/types"
	"sort"

	"golang.org/x/tools/go/ssa"

	"verif/internal/ir"
)

// Engine E2: pooled-buffer typestate.
//
// Abstract objects are buffers, named by the instruction (or place) that
// introduces them.  Every referrer — an SSA value of type *[]byte, a []byte
// view obtained by loading through such a pointer, a local cell, or a struct
// field place (keyed by struct type + field) — maps to the set of
// (object, released?) pairs it may denote.  Free marks the object released in
// every referrer that may denote it; Append/AppendString/Realloc consume their
// argument the same way and yield a new object.  The status lives in the
// referrer, not in a global table, so that "released on one path, replaced by
// nil on that same path" does not leak into the other path at a join.
//
// The analysis is a forward may-analysis over the SSA control-flow graph with
// (a) locally invoked and deferred closures analysed in line, (b) closures
// handed to an executor treated as releasing their buffers iff the executor
// returned true, and (c) a three-way partition of the state by what is known
// about one designated local error cell, so that the repository's idiom
// "releaseBuf(); return  ...  if err != nil { return err }" is not reported.

// TSKind classifies a violation.
type TSKind string

const (
	TSUseAfterFree TSKind = "use-after-release"
	TSDoubleFree   TSKind = "double-release"
	TSDangling     TSKind = "dangling-field"
	TSStaleResult  TSKind = "stale-pointer-after-resize"
)

// TSViolation is one report.
type TSViolation struct {
	Kind   TSKind
	Fn     *ssa.Function
	In     ssa.Instruction
	Freed  ssa.Instruction // where the object was released / consumed
	Detail string
}

// TSConfig adapts the engine to a code base.
type TSConfig struct {
	P *ir.Prog
	// FreeArg returns the buffer argument when the call releases a buffer.
	FreeArg func(cs ir.CallSite) ssa.Value
	// ConsumeArg returns the buffer argument when the call resizes (consumes) one.
	ConsumeArg func(cs ir.CallSite) ssa.Value
	// IsMalloc reports a call that returns a fresh buffer.
	IsMalloc func(cs ir.CallSite) bool
	// ExecutorClosure returns the closure handed to an executor whose bool
	// result tells whether the closure will run.
	ExecutorClosure func(cs ir.CallSite) *ssa.Function
	// SkipDangling excludes a field place from the exit check (with a reason
	// recorded by the caller).
	SkipDangling func(place string, fn *ssa.Function) bool
	// FreesParam: summary "callee may release its i-th argument".
	FreesParam func(callee *ssa.Function) []int
}

type tsObj struct {
	origin interface{} // ssa.Instruction, *ssa.Parameter or string (entry content of a place)
}

type tsPair struct {
	obj   *tsObj
	freed bool
	at    ssa.Instruction // release site when freed
}

type pairSet map[*tsObj]*[2]ssa.Instruction // obj -> [liveMarker, freedAt]; index0 non-nil => may be live, index1 non-nil => may be freed

var liveMark ssa.Instruction = &ssa.Jump{}

func (s pairSet) clone() pairSet {
	o := pairSet{}
	for k, v := range s {
		c := *v
		o[k] = &c
	}
	return o
}

func (s pairSet) union(t pairSet) bool {
	ch := false
	for k, v := range t {
		w, ok := s[k]
		if !ok {
			c := *v
			s[k] = &c
			ch = true
			continue
		}
		if w[0] == nil && v[0] != nil {
			w[0] = v[0]
			ch = true
		}
		if w[1] == nil && v[1] != nil {
			w[1] = v[1]
			ch = true
		}
	}
	return ch
}

func (s pairSet) mayFreed() ssa.Instruction {
	for _, v := range s {
		if v[1] != nil {
			return v[1]
		}
	}
	return nil
}

type refState struct {
	errK     int
	bools    map[ssa.Value]bool            // local bool cells with a known constant value
	refs     map[interface{}]pairSet       // ssa.Value | cell(ssa.Value) | place(string)
	deferred []ssa.Instruction             // registered deferred frees / closures (in order)
	cond     map[ssa.Value][]*ssa.Function // executor result -> closures that run iff true
}

func newRefState() *refState {
	return &refState{errK: pUnk, bools: map[ssa.Value]bool{}, refs: map[interface{}]pairSet{}, cond: map[ssa.Value][]*ssa.Function{}}
}

func (r *refState) clone() *refState {
	o := newRefState()
	o.errK = r.errK
	for k, v := range r.bools {
		o.bools[k] = v
	}
	for k, v := range r.refs {
		o.refs[k] = v.clone()
	}
	o.deferred = append(o.deferred, r.deferred...)
	for k, v := range r.cond {
		o.cond[k] = append([]*ssa.Function{}, v...)
	}
	return o
}

func (r *refState) join(t *refState) bool {
	ch := false
	for k, v := range r.bools {
		if w, ok := t.bools[k]; !ok || w != v {
			delete(r.bools, k)
			ch = true
		}
	}
	for k, v := range t.refs {
		if w, ok := r.refs[k]; ok {
			if w.union(v) {
				ch = true
			}
		} else {
			r.refs[k] = v.clone()
			ch = true
		}
	}
	seen := map[ssa.Instruction]bool{}
	for _, d := range r.deferred {
		seen[d] = true
	}
	for _, d := range t.deferred {
		if !seen[d] {
			r.deferred = append(r.deferred, d)
			ch = true
		}
	}
	for k, v := range t.cond {
		have := map[*ssa.Function]bool{}
		for _, f := range r.cond[k] {
			have[f] = true
		}
		for _, f := range v {
			if !have[f] {
				r.cond[k] = append(r.cond[k], f)
				ch = true
			}
		}
	}
	return ch
}

// what a disjunct knows about the designated error cell
const (
	pNil = iota
	pNonNil
	pUnk
)

// Overflows counts how often a program point's disjuncts had to be merged.
var Overflows int

// CurFn is the function body currently analysed (debugging aid).
var CurFn *ssa.Function

// OverflowHook, when set, is called at each overflow (debugging aid).
var OverflowHook func()

// maxDisjuncts bounds the path-sensitive state; beyond it the disjuncts of a
// program point are merged into one (sound, less precise).
const maxDisjuncts = 1024

// tsState is a bounded set of path disjuncts.
type tsState struct {
	ds     []*refState
	merged bool // overflowed once: stays a single merged disjunct
}

func (s *tsState) clone() *tsState {
	o := &tsState{merged: s.merged}
	for _, d := range s.ds {
		o.ds = append(o.ds, d.clone())
	}
	return o
}

// durable reports keys whose content outlives an expression: local cells,
// field places and parameters (SSA temporaries are path-local).
func durable(k interface{}) bool {
	switch v := k.(type) {
	case string:
		return true
	case *ssa.Alloc, *ssa.FreeVar, *ssa.Parameter:
		_ = v
		return true
	}
	return false
}

// equal compares two disjuncts on their durable content; disjuncts that agree
// there are merged (their temporaries are unioned), which keeps the number of
// disjuncts small without losing the correlations that matter.
// key renders the predicate abstraction of a disjunct: what is known about
// the error cell and the bool cells, the registered defers, the pending
// executor conditions, and for every durable referrer whether it is known nil,
// live or possibly released.  Disjuncts with equal keys are merged (the
// abstract objects they denote are unioned).
func (a *refState) key() string {
	var parts []string
	for k, v := range a.bools {
		parts = append(parts, fmt.Sprintf("b%p=%v", k, v))
	}
	for k, ps := range a.refs {
		if !durable(k) {
			continue
		}
		st := 2
		if len(ps) == 0 {
			st = 1
		} else if ps.mayFreed() != nil {
			st = 3
			live := false
			for _, f := range ps {
				if f[0] != nil {
					live = true
				}
			}
			if live {
				st = 4
			}
		}
		switch kk := k.(type) {
		case string:
			parts = append(parts, fmt.Sprintf("%s=%d", kk, st))
		default:
			parts = append(parts, fmt.Sprintf("r%p=%d", kk, st))
		}
	}
	for k := range a.cond {
		parts = append(parts, fmt.Sprintf("c%p", k))
	}
	sort.Strings(parts)
	s := fmt.Sprintf("e%d|", a.errK)
	for _, d := range a.deferred {
		s += fmt.Sprintf("d%p,", d)
	}
	for _, p := range parts {
		s += p + ";"
	}
	return s
}

func (a *refState) equal(b *refState) bool { return a.key() == b.key() }

// mergeAll merges the disjuncts class-wise: one disjunct per state of
// knowledge about the error cell survives, so that correlation is kept even
// after an overflow.
func (s *tsState) mergeAll() {
	var by [3]*refState
	for _, d := range s.ds {
		if by[d.errK] == nil {
			by[d.errK] = d
		} else {
			by[d.errK].join(d)
		}
	}
	s.ds = s.ds[:0]
	for _, d := range by {
		if d != nil {
			s.ds = append(s.ds, d)
		}
	}
}

func (s *tsState) join(t *tsState) bool {
	ch := false
	if s.merged || t.merged {
		s.merged = true
		s.mergeAll()
		for _, d := range t.ds {
			var tgt *refState
			for _, e := range s.ds {
				if e.errK == d.errK {
					tgt = e
				}
			}
			if tgt == nil {
				s.ds = append(s.ds, d.clone())
				ch = true
				continue
			}
			if tgt.join(d) {
				ch = true
			}
		}
		return ch
	}
	idx := map[string]*refState{}
	for _, e := range s.ds {
		idx[e.key()] = e
	}
	for _, d := range t.ds {
		k := d.key()
		if e, ok := idx[k]; ok {
			if e.join(d) {
				ch = true
			}
			continue
		}
		c := d.clone()
		s.ds = append(s.ds, c)
		idx[k] = c
		ch = true
	}
	if len(s.ds) > maxDisjuncts {
		s.merged = true
		s.mergeAll()
		Overflows++
		if OverflowHook != nil {
			OverflowHook()
		}
	}
	return ch
}

func (s *tsState) empty() bool { return len(s.ds) == 0 }

// dedupe merges disjuncts that agree on their durable content.
func (s *tsState) dedupe() {
	idx := map[string]*refState{}
	var out []*refState
	for _, d := range s.ds {
		k := d.key()
		if e, ok := idx[k]; ok {
			e.join(d)
			continue
		}
		idx[k] = d
		out = append(out, d)
	}
	s.ds = out
}

func (s *tsState) each(f func(*refState)) {
	for _, d := range s.ds {
		f(d)
	}
}

// collapse records what all disjuncts now know about the error cell.
func (s *tsState) collapse(k int) {
	for _, d := range s.ds {
		d.errK = k
	}
}

// Typestate runs the analysis.
type Typestate struct {
	cfg  TSConfig
	objs map[interface{}]*tsObj
	viol map[string]TSViolation
	// per root
	errCell ssa.Value
	depth   int
	// Analysed counts functions / instructions examined.
	Funcs, Instrs, Frees, Consumes int
}

func NewTypestate(cfg TSConfig) *Typestate {
	return &Typestate{cfg: cfg, objs: map[interface{}]*tsObj{}, viol: map[string]TSViolation{}}
}

func (t *Typestate) obj(origin interface{}) *tsObj {
	if o, ok := t.objs[origin]; ok {
		return o
	}
	o := &tsObj{origin: origin}
	t.objs[origin] = o
	return o
}

func (t *Typestate) report(k TSKind, fn *ssa.Function, in, freed ssa.Instruction, detail string) {
	key := fmt.Sprintf("%s|%p", k, in)
	if _, ok := t.viol[key]; ok {
		return
	}
	t.viol[key] = TSViolation{Kind: k, Fn: fn, In: in, Freed: freed, Detail: detail}
}

// Violations returns the reports sorted by position.
func (t *Typestate) Violations() []TSViolation {
	var out []TSViolation
	for _, v := range t.viol {
		out = append(out, v)
	}
	sort.Slice(out, func(i, j int) bool {
		pi, pj := t.cfg.P.InstrPos(out[i].In), t.cfg.P.InstrPos(out[j].In)
		if pi != pj {
			return pi < pj
		}
		return out[i].Kind < out[j].Kind
	})
	return out
}

func isBufPtr(t types.Type) bool {
	p, ok := t.Underlying().(*types.Pointer)
	if !ok {
		return false
	}
	s, ok := p.Elem().Underlying().(*types.Slice)
	if !ok {
		return false
	}
	b, ok := s.Elem().Underlying().(*types.Basic)
	return ok && b.Kind() == types.Uint8
}

func isByteSlice(t types.Type) bool {
	s, ok := t.Underlying().(*types.Slice)
	if !ok {
		return false
	}
	b, ok := s.Elem().Underlying().(*types.Basic)
	return ok && b.Kind() == types.Uint8
}

func isErrorType(t types.Type) bool {
	return types.Identical(t, types.Universe.Lookup("error").Type())
}

// AnalyzeRoot analyses one function (with its in-line closures) from an empty state.
func (t *Typestate) AnalyzeRoot(fn *ssa.Function) {
	if len(fn.Blocks) == 0 {
		return
	}
	t.errCell = nil
	// designated error cell: an error-typed local captured by a closure, preferring one named err
	for _, b := range fn.Blocks {
		for _, in := range b.Instrs {
			a, ok := in.(*ssa.Alloc)
			if !ok || !isErrorType(a.Type().Underlying().(*types.Pointer).Elem()) {
				continue
			}
			captured := false
			if refs := a.Referrers(); refs != nil {
				for _, r := range *refs {
					if _, isMC := r.(*ssa.MakeClosure); isMC {
						captured = true
					}
				}
			}
			if captured && (t.errCell == nil || a.Comment == "err") {
				t.errCell = a
			}
		}
	}
	st := &tsState{ds: []*refState{newRefState()}}
	exit := t.analyze(fn, st)
	// dangling field places at exit of the root
	if exit != nil {
		exit.each(func(r *refState) {
			for k, ps := range r.refs {
				place, ok := k.(string)
				if !ok {
					continue
				}
				if at := ps.mayFreed(); at != nil {
					if t.cfg.SkipDangling != nil && t.cfg.SkipDangling(place, fn) {
						continue
					}
					t.report(TSDangling, fn, at, at, "the buffer held in "+place+" is released but the field still refers to it when "+t.cfg.P.FuncName(fn)+" returns: a later release or use through the field hits a buffer that is back in the pool")
				}
			}
		})
	}
}

// cellOf canonicalises an address to a local cell (Alloc, possibly through
// free variables) or a field place; "" / nil when neither.
func (t *Typestate) addrKey(addr ssa.Value) interface{} {
	switch a := ir.Root(addr).(type) {
	case *ssa.Alloc:
		return ssa.Value(a)
	case *ssa.FreeVar:
		return ssa.Value(a)
	case *ssa.FieldAddr:
		return t.cfg.P.FieldKey(a)
	case *ssa.Global:
		return "global:" + a.Name()
	}
	return nil
}

// analyze runs the block fixpoint of fn from the entry state and returns the
// joined state at its returns (nil when no return is reachable).
func (t *Typestate) analyze(fn *ssa.Function, entry *tsState) *tsState {
	t.Funcs++
	t.depth++
	prevFn := CurFn
	CurFn = fn
	defer func() { CurFn = prevFn }()
	defer func() { t.depth-- }()
	if t.depth > 6 || len(fn.Blocks) == 0 {
		return entry
	}
	in := make([]*tsState, len(fn.Blocks))
	in[0] = entry.clone()
	work := []int{0}
	queued := map[int]bool{0: true}
	var exit *tsState
	iter := 0
	for len(work) > 0 && iter < 4000 {
		iter++
		bi := work[0]
		work = work[1:]
		queued[bi] = false
		b := fn.Blocks[bi]
		st := in[bi].clone()
		var cond *ssa.If
		for _, ins := range b.Instrs {
			t.Instrs++
			if i, ok := ins.(*ssa.If); ok {
				cond = i
				continue
			}
			if r, ok := ins.(*ssa.Return); ok {
				t.checkUses(fn, st, r)
				if exit == nil {
					exit = st.clone()
				} else {
					exit.join(st)
				}
				continue
			}
			t.step(fn, st, ins)
		}
		for k, s := range b.Succs {
			out := st
			if cond != nil {
				out = t.filterEdge(st, cond, k)
			}
			if out.empty() {
				continue
			}
			// phi nodes of the successor
			out = t.applyPhis(out, b, s)
			if in[s.Index] == nil {
				in[s.Index] = out.clone()
			} else if !in[s.Index].join(out) {
				continue
			}
			if !queued[s.Index] {
				queued[s.Index] = true
				work = append(work, s.Index)
			}
		}
	}
	return exit
}

// applyPhis evaluates the successor's phi nodes for the edge pred->succ.
func (t *Typestate) applyPhis(st *tsState, pred, succ *ssa.BasicBlock) *tsState {
	idx := -1
	for i, p := range succ.Preds {
		if p == pred {
			idx = i
		}
	}
	hasPhi := false
	for _, ins := range succ.Instrs {
		if _, ok := ins.(*ssa.Phi); ok {
			hasPhi = true
		}
	}
	if !hasPhi || idx < 0 {
		return st
	}
	out := st.clone()
	out.each(func(r *refState) {
		upd := map[ssa.Value]pairSet{}
		for _, ins := range succ.Instrs {
			phi, ok := ins.(*ssa.Phi)
			if !ok {
				break
			}
			if !isBufPtr(phi.Type()) && !isByteSlice(phi.Type()) {
				continue
			}
			e := phi.Edges[idx]
			if ps, ok := r.refs[e]; ok {
				upd[phi] = ps.clone()
			} else {
				upd[phi] = pairSet{}
			}
		}
		for k, v := range upd {
			r.refs[k] = v
		}
	})
	return out
}

// filterEdge drops the disjuncts that contradict the branch outcome (what is
// known about the error cell, or about a buffer pointer being nil), records
// nil-ness learnt on the edge and applies executor-result conditions.
func (t *Typestate) filterEdge(st *tsState, i *ssa.If, k int) *tsState {
	out := st.clone()
	cnd, truth := ir.StripNot(i.Cond, k == 0)
	out.each(func(r *refState) {
		if fs, ok := r.cond[cnd]; ok {
			if truth {
				for _, f := range fs {
					t.applyClosureFrees(r, f, i)
				}
			}
			delete(r.cond, cnd)
		}
	})
	// a local bool cell with a known value
	if ld, isLoad := ir.Unconv(cnd).(*ssa.UnOp); isLoad && ld.Op == token.MUL {
		if b, isB := ld.Type().Underlying().(*types.Basic); isB && b.Kind() == types.Bool {
			cell := ir.Root(ld.X)
			if _, isAlloc := cell.(*ssa.Alloc); isAlloc {
				var keep []*refState
				for _, d := range out.ds {
					if v, known := d.bools[cell]; known && v != truth {
						continue
					}
					d.bools[cell] = truth
					keep = append(keep, d)
				}
				out.ds = keep
				return out
			}
		}
	}
	x, isNil, ok := ir.NilTest(i.Cond, k == 0)
	if !ok {
		return out
	}
	// the error cell
	if ld, isLoad := ir.Unconv(x).(*ssa.UnOp); isLoad && ld.Op == token.MUL && t.errCell != nil && ir.Root(ld.X) == t.errCell {
		var keep []*refState
		for _, d := range out.ds {
			switch {
			case isNil && d.errK == pNonNil, !isNil && d.errK == pNil:
				continue
			}
			if isNil {
				d.errK = pNil
			} else {
				d.errK = pNonNil
			}
			keep = append(keep, d)
		}
		out.ds = keep
		return out
	}
	// a buffer pointer
	if !isBufPtr(x.Type()) {
		return out
	}
	var key interface{}
	if ld, isLoad := ir.Unconv(x).(*ssa.UnOp); isLoad && ld.Op == token.MUL {
		key = t.addrKey(ld.X)
	}
	var keep []*refState
	for _, d := range out.ds {
		ps, known := d.refs[x]
		if !isNil {
			if known && len(ps) == 0 {
				continue // known nil on this path: the non-nil edge is infeasible
			}
		} else {
			d.refs[x] = pairSet{}
			if key != nil {
				d.refs[key] = pairSet{}
			}
		}
		keep = append(keep, d)
	}
	out.ds = keep
	return out
}

// freeIn marks every object of ps released in all referrers of r.
func (t *Typestate) freeIn(r *refState, ps pairSet, at ssa.Instruction) {
	strong := len(ps) == 1
	for o := range ps {
		for _, q := range r.refs {
			if w, ok := q[o]; ok {
				w[1] = at
				if strong {
					w[0] = nil
				}
			}
		}
	}
}

// applyClosureFrees applies the releases a closure performs (anywhere in it,
// deferred ones included) to the state, mapping captured variables to the
// enclosing function.
func (t *Typestate) applyClosureFrees(r *refState, f *ssa.Function, at ssa.Instruction) {
	for _, g := range ir.WithClosures(f) {
		for _, b := range g.Blocks {
			for _, ins := range b.Instrs {
				cs, ok := ir.AsCall(ins)
				if !ok {
					continue
				}
				arg := t.cfg.FreeArg(cs)
				if arg == nil {
					continue
				}
				// argument is a (load of a) captured variable
				var key interface{}
				if ld, isLoad := ir.Unconv(arg).(*ssa.UnOp); isLoad && ld.Op == token.MUL {
					key = t.addrKey(ld.X)
				} else {
					key = ir.Root(arg)
				}
				if key == nil {
					continue
				}
				if ps, ok := r.refs[key]; ok && len(ps) > 0 {
					t.freeIn(r, ps, ins)
				}
			}
		}
	}
}

func (t *Typestate) lookup(r *refState, v ssa.Value) pairSet {
	if ps, ok := r.refs[v]; ok {
		return ps
	}
	return nil
}

// checkUses reports operands that may denote a released buffer.
func (t *Typestate) checkUses(fn *ssa.Function, st *tsState, ins ssa.Instruction) {
	switch x := ins.(type) {
	case *ssa.DebugRef, *ssa.Phi:
		return
	case *ssa.BinOp:
		if ir.IsNilConst(x.X) || ir.IsNilConst(x.Y) {
			return
		}
	case *ssa.Store:
		// storing nil / overwriting a cell is not a use of the old content
		_ = x
	}
	var ops []*ssa.Value
	ops = ins.Operands(ops)
	for _, o := range ops {
		if o == nil || *o == nil {
			continue
		}
		v := *o
		if !isBufPtr(v.Type()) && !isByteSlice(v.Type()) {
			continue
		}
		st.each(func(r *refState) {
			if ps := t.lookup(r, v); ps != nil {
				if at := ps.mayFreed(); at != nil {
					what := "the released buffer"
					if isByteSlice(v.Type()) {
						what = "a view of the released buffer's contents"
					}
					t.report(TSUseAfterFree, fn, ins, at, what+" (released at "+t.cfg.P.InstrPos(at)+") is used")
				}
			}
		})
	}
}

func (t *Typestate) step(fn *ssa.Function, st *tsState, ins ssa.Instruction) {
	// calls first: Free / consume / closures
	if cs, ok := ir.AsCall(ins); ok {
		t.stepCall(fn, st, cs)
		return
	}
	if _, ok := ins.(*ssa.RunDefers); ok {
		t.runDefers(fn, st, ins)
		return
	}
	t.checkUses(fn, st, ins)
	switch x := ins.(type) {
	case *ssa.UnOp:
		if x.Op != token.MUL {
			return
		}
		switch {
		case isBufPtr(x.Type()):
			// load of a pointer from a cell / place / element
			key := t.addrKey(x.X)
			st.each(func(r *refState) {
				if key == nil {
					r.refs[x] = pairSet{t.obj(ins): &[2]ssa.Instruction{liveMark, nil}}
					return
				}
				ps, ok := r.refs[key]
				if !ok {
					// first sight of this place on this path: its entry content
					ps = pairSet{t.obj(fmt.Sprintf("entry:%v", keyName(t.cfg.P, key))): &[2]ssa.Instruction{liveMark, nil}}
					r.refs[key] = ps
				}
				r.refs[x] = ps.clone()
			})
		case isByteSlice(x.Type()) && isBufPtr(x.X.Type()):
			// view through a pointer
			st.each(func(r *refState) {
				ps, ok := r.refs[x.X]
				if !ok {
					ps = pairSet{t.obj(x.X): &[2]ssa.Instruction{liveMark, nil}}
					r.refs[x.X] = ps
				}
				r.refs[x] = ps.clone()
			})
		}
	case *ssa.Slice:
		if isByteSlice(x.Type()) {
			st.each(func(r *refState) {
				if ps, ok := r.refs[x.X]; ok {
					r.refs[x] = ps.clone()
				} else {
					delete(r.refs, x)
				}
			})
		}
	case *ssa.Store:
		t.stepStore(st, x)
	case *ssa.MakeClosure, *ssa.Alloc, *ssa.Phi:
		// phi values were computed on the incoming edge (applyPhis)
	default:
		if v, ok := ins.(ssa.Value); ok && (isBufPtr(v.Type()) || isByteSlice(v.Type())) {
			st.each(func(r *refState) { delete(r.refs, v) })
		}
	}
}

func keyName(p *ir.Prog, key interface{}) string {
	switch k := key.(type) {
	case string:
		return k
	case ssa.Value:
		return k.Name() + "@" + p.FuncName(k.Parent())
	}
	return "?"
}

func (t *Typestate) stepStore(st *tsState, x *ssa.Store) {
	// the designated error cell
	if t.errCell != nil && ir.Root(x.Addr) == t.errCell {
		switch {
		case ir.IsNilConst(x.Val):
			st.collapse(pNil)
		case t.nonNilError(x.Val):
			st.collapse(pNonNil)
		default:
			st.collapse(pUnk)
		}
		return
	}
	// local bool cells
	if b, isB := x.Val.Type().Underlying().(*types.Basic); isB && b.Kind() == types.Bool {
		if cell, isAlloc := ir.Root(x.Addr).(*ssa.Alloc); isAlloc {
			st.each(func(r *refState) {
				if v, ok := ir.ConstBool(x.Val); ok {
					r.bools[cell] = v
				} else {
					delete(r.bools, cell)
				}
			})
		}
		return
	}
	// whole-struct store: *res = emptyResponse
	if pt, ok := x.Addr.Type().Underlying().(*types.Pointer); ok {
		if _, isStruct := pt.Elem().Underlying().(*types.Struct); isStruct {
			if _, isFA := x.Addr.(*ssa.FieldAddr); !isFA {
				prefix := t.cfg.P.TypeName(pt.Elem()) + "."
				st.each(func(r *refState) {
					for k := range r.refs {
						if s, ok := k.(string); ok && len(s) > len(prefix) && s[:len(prefix)] == prefix {
							delete(r.refs, k)
						}
					}
				})
				return
			}
		}
	}
	if !isBufPtr(x.Val.Type()) {
		// a store through a buffer pointer: *p = (*p)[:n] (re-slice in place) is a use, checked by checkUses
		return
	}
	key := t.addrKey(x.Addr)
	if key == nil {
		return
	}
	st.each(func(r *refState) {
		if ir.IsNilConst(x.Val) {
			r.refs[key] = pairSet{}
			return
		}
		if ps, ok := r.refs[x.Val]; ok {
			r.refs[key] = ps.clone()
		} else {
			r.refs[key] = pairSet{t.obj(x): &[2]ssa.Instruction{liveMark, nil}}
		}
	})
}

func (t *Typestate) nonNilError(v ssa.Value) bool {
	v = ir.Unconv(v)
	if a, ok := ir.IsLoad(v); ok {
		if g, ok := a.(*ssa.Global); ok {
			n := g.Name()
			return len(n) >= 3 && (n[:3] == "Err" || n[:3] == "err")
		}
	}
	if call, ok := v.(*ssa.Call); ok {
		switch t.cfg.P.CalleeName(&call.Call) {
		case "errors.New", "fmt.Errorf":
			return true
		}
	}
	return false
}

// Trace, when non-nil, receives a dump of the durable state before each call
// instruction (debugging aid).
var Trace func(fn *ssa.Function, in ssa.Instruction, dump string)

func (t *Typestate) dump(st *tsState) string {
	out := ""
	for i, d := range st.ds {
		out += fmt.Sprintf("  [%d] err=%d bools=%d", i, d.errK, len(d.bools))
		var keys []string
		for k, ps := range d.refs {
			if !durable(k) {
				continue
			}
			s := keyName(t.cfg.P, k) + "={"
			for o, f := range ps {
				s += fmt.Sprintf("%v", o.origin)
				if f[0] != nil {
					s += ":L"
				}
				if f[1] != nil {
					s += ":F"
				}
				s += " "
			}
			keys = append(keys, s+"}")
		}
		sort.Strings(keys)
		for _, k := range keys {
			out += " " + k
		}
		out += "\n"
	}
	return out
}

func (t *Typestate) stepCall(fn *ssa.Function, st *tsState, cs ir.CallSite) {
	ins := cs.In
	if Trace != nil {
		Trace(fn, ins, t.dump(st))
	}
	// deferred calls are replayed at RunDefers
	if cs.Kind == "defer" {
		st.each(func(r *refState) { r.deferred = append(r.deferred, ins) })
		return
	}
	if cs.Kind == "go" {
		t.checkUses(fn, st, ins)
		return
	}
	if arg := t.cfg.FreeArg(cs); arg != nil {
		t.Frees++
		t.doFree(fn, st, ins, arg)
		return
	}
	if arg := t.cfg.ConsumeArg(cs); arg != nil {
		t.Consumes++
		// other operands (the appended data) are uses
		t.checkUsesExcept(fn, st, ins, arg)
		st.each(func(r *refState) {
			if ps := t.lookup(r, arg); ps != nil {
				if at := ps.mayFreed(); at != nil {
					t.report(TSUseAfterFree, fn, ins, at, "a buffer released at "+t.cfg.P.InstrPos(at)+" is resized")
				}
				t.freeIn(r, ps.clone(), ins)
			}
			if v := cs.Value(); v != nil {
				r.refs[v] = pairSet{t.obj(ins): &[2]ssa.Instruction{liveMark, nil}}
			}
		})
		return
	}
	t.checkUses(fn, st, ins)
	if t.cfg.IsMalloc(cs) {
		if v := cs.Value(); v != nil {
			st.each(func(r *refState) { r.refs[v] = pairSet{t.obj(ins): &[2]ssa.Instruction{liveMark, nil}} })
		}
		return
	}
	// executor with a closure: conditional transfer
	if cl := t.cfg.ExecutorClosure(cs); cl != nil {
		if v := cs.Value(); v != nil {
			refs := v.Referrers()
			if refs != nil && len(*refs) > 0 {
				st.each(func(r *refState) { r.cond[v] = append(r.cond[v], cl) })
				return
			}
		}
		// result ignored: the closure may run
		st.each(func(r *refState) { t.applyClosureFrees(r, cl, ins) })
		return
	}
	// locally defined closure invoked in line
	if callee := ir.StaticCallee(cs.Common); callee != nil {
		if callee.Parent() != nil && ir.Outermost(callee) == ir.Outermost(fn) {
			// the closure has its own defer stack; the caller's is restored afterwards
			var saved []ssa.Instruction
			seenD := map[ssa.Instruction]bool{}
			st.each(func(r *refState) {
				for _, d := range r.deferred {
					if !seenD[d] {
						seenD[d] = true
						saved = append(saved, d)
					}
				}
			})
			perDisjunct := len(st.ds) == 1
			st.each(func(r *refState) { r.deferred = nil })
			if out := t.analyze(callee, st); out != nil {
				*st = *out
			}
			// values of the finished closure are dead: forget them so that
			// disjuncts differing only there collapse
			dead := map[*ssa.Function]bool{}
			for _, g := range ir.WithClosures(callee) {
				dead[g] = true
			}
			st.each(func(r *refState) {
				for k := range r.refs {
					if v, ok := k.(ssa.Value); ok && dead[v.Parent()] {
						delete(r.refs, k)
					}
				}
				for k := range r.bools {
					if dead[k.Parent()] {
						delete(r.bools, k)
					}
				}
				for k := range r.cond {
					if dead[k.Parent()] {
						delete(r.cond, k)
					}
				}
			})
			st.dedupe()
			_ = perDisjunct
			st.each(func(r *refState) { r.deferred = append([]ssa.Instruction{}, saved...) })
			t.resultObj(st, cs)
			return
		}
		if t.cfg.FreesParam != nil {
			for _, i := range t.cfg.FreesParam(callee) {
				if i < len(cs.Common.Args) {
					arg := cs.Common.Args[i]
					st.each(func(r *refState) {
						if ps := t.lookup(r, arg); ps != nil {
							t.freeIn(r, ps.clone(), ins)
						}
					})
				}
			}
		}
	}
	t.resultObj(st, cs)
}

// resultObj gives pointer-typed call results a fresh object.
func (t *Typestate) resultObj(st *tsState, cs ir.CallSite) {
	v := cs.Value()
	if v == nil {
		return
	}
	if isBufPtr(v.Type()) {
		st.each(func(r *refState) { r.refs[v] = pairSet{t.obj(cs.In): &[2]ssa.Instruction{liveMark, nil}} })
	}
	// tuple results: extracts get fresh objects when first used (see step default)
}

func (t *Typestate) checkUsesExcept(fn *ssa.Function, st *tsState, ins ssa.Instruction, except ssa.Value) {
	var ops []*ssa.Value
	ops = ins.Operands(ops)
	for _, o := range ops {
		if o == nil || *o == nil || *o == except {
			continue
		}
		v := *o
		if !isBufPtr(v.Type()) && !isByteSlice(v.Type()) {
			continue
		}
		st.each(func(r *refState) {
			if ps := t.lookup(r, v); ps != nil {
				if at := ps.mayFreed(); at != nil {
					t.report(TSUseAfterFree, fn, ins, at, "a buffer (or view) released at "+t.cfg.P.InstrPos(at)+" is used")
				}
			}
		})
	}
}

func (t *Typestate) doFree(fn *ssa.Function, st *tsState, ins ssa.Instruction, arg ssa.Value) {
	st.each(func(r *refState) {
		ps := t.lookup(r, arg)
		if ps == nil {
			// unknown pointer: give it an object so that a second release is seen
			ps = pairSet{t.obj(arg): &[2]ssa.Instruction{liveMark, nil}}
			r.refs[arg] = ps
		}
		if at := ps.mayFreed(); at != nil {
			t.report(TSDoubleFree, fn, ins, at, "the buffer was already released at "+t.cfg.P.InstrPos(at)+" on some path: it would be handed out twice by the pool")
		}
		t.freeIn(r, ps.clone(), ins)
	})
}

func (t *Typestate) runDefers(fn *ssa.Function, st *tsState, at ssa.Instruction) {
	// each disjunct replays its own registered defers in LIFO order
	var result []*refState
	for _, d := range st.ds {
		ds := d.deferred
		d.deferred = nil
		cur := &tsState{ds: []*refState{d}, merged: st.merged}
		for i := len(ds) - 1; i >= 0; i-- {
			df := ds[i].(*ssa.Defer)
			cs := ir.CallSite{In: df, Common: &df.Call, Kind: "call"}
			if arg := t.cfg.FreeArg(cs); arg != nil {
				t.Frees++
				t.doFree(fn, cur, df, arg)
				continue
			}
			if callee := ir.StaticCallee(&df.Call); callee != nil && callee.Parent() != nil && ir.Outermost(callee) == ir.Outermost(fn) {
				if out := t.analyze(callee, cur); out != nil {
					cur = out
				}
			}
		}
		result = append(result, cur.ds...)
	}
	st.ds = result
	st.each(func(r *refState) { r.deferred = nil })
}
