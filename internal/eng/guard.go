package eng

import (
	"golang.org/x/tools/go/ssa"

	"verif/internal/ir"
)

// Guard is one row of a guarded-by table.
type Guard struct {
	Field  string // "nbio.Conn.writeList"
	Lock   string // "nbio.Conn.mux"
	Reads  bool   // reads must hold the lock
	Writes bool   // writes must hold the lock
}

// GuardSite is one checked access.
type GuardSite struct {
	Fn     *ssa.Function
	Access ir.Access
	Guard  Guard
	Held   bool
	Reason string // why an unheld access is nevertheless accepted ("" = violation)
}

// Exception accepts accesses to Field inside function Fn (short name; closures
// of Fn included) without the lock, with a stated reason.
type Exception struct {
	Fn     string
	Field  string
	Reason string
}

// CheckGuarded evaluates the guarded-by table over the given functions.
// Accesses through an object allocated in the same function (composite
// literal / new, i.e. not yet published) are initialisation, not accesses.
func CheckGuarded(l *Locks, funcs []*ssa.Function, table []Guard, exc []Exception) []GuardSite {
	byField := map[string]Guard{}
	for _, g := range table {
		byField[g.Field] = g
	}
	var out []GuardSite
	for _, f := range funcs {
		accs := l.P.FieldAccesses(f, func(k string) bool { _, ok := byField[k]; return ok })
		for _, a := range accs {
			g := byField[a.Field]
			if a.AddrTaken {
				// taking the address is not an access; the dereference is checked
				// where it happens (see AddrFlows).
				continue
			}
			if a.Write && !g.Writes || !a.Write && !g.Reads {
				continue
			}
			if a.Addr != nil {
				if _, fresh := ir.Root(a.Addr.X).(*ssa.Alloc); fresh {
					continue
				}
			}
			s := GuardSite{Fn: f, Access: a, Guard: g, Held: l.HeldClass(a.In, g.Lock)}
			if !s.Held {
				outer := l.P.FuncName(ir.Outermost(f))
				for _, e := range exc {
					if e.Field == a.Field && (e.Fn == outer || e.Fn == l.P.FuncName(f)) {
						s.Reason = e.Reason
					}
				}
			}
			out = append(out, s)
		}
	}
	return out
}

// AtomicOnly checks that every use of the field address is an argument of a
// sync/atomic function (or initialisation through a fresh object).
type AtomicSite struct {
	Fn *ssa.Function
	In ssa.Instruction
	OK bool
}

func CheckAtomicOnly(p *ir.Prog, funcs []*ssa.Function, field string) []AtomicSite {
	var out []AtomicSite
	for _, f := range funcs {
		for _, b := range f.Blocks {
			for _, in := range b.Instrs {
				fa, ok := in.(*ssa.FieldAddr)
				if !ok || p.FieldKey(fa) != field {
					continue
				}
				if _, fresh := ir.Root(fa.X).(*ssa.Alloc); fresh {
					continue
				}
				refs := fa.Referrers()
				if refs == nil {
					continue
				}
				for _, r := range *refs {
					if _, dbg := r.(*ssa.DebugRef); dbg {
						continue
					}
					ok := false
					if cs, isCall := ir.AsCall(r); isCall {
						if callee := ir.StaticCallee(cs.Common); callee != nil && callee.Pkg != nil && callee.Pkg.Pkg.Path() == "sync/atomic" {
							ok = true
						}
					}
					out = append(out, AtomicSite{Fn: f, In: r, OK: ok})
				}
			}
		}
	}
	return out
}
