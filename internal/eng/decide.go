package eng

import (
	"fmt"
	"go/constant"
	"go/token"
	"go/types"

	"golang.org/x/tools/go/ssa"

	"verif/internal/ir"
)

// Engine E8: finite decision tables.  For a loop-free function the condition
// under which each block executes is a boolean formula over its branch
// conditions; the conditions are pure expressions over a few input terms
// (parameters, field loads).  The formulas are extracted from the SSA and then
// evaluated over a finite input domain and compared with an oracle table.
// No statement of the analysed program is executed: only its branch
// conditions are read.

// Formula is a boolean formula DAG.
type Formula struct {
	Op   byte // 'c' const, 'a' atom, '!' not, '&' and, '|' or
	B    bool
	V    ssa.Value
	X, Y *Formula
}

var fTrue = &Formula{Op: 'c', B: true}
var fFalse = &Formula{Op: 'c', B: false}

func fAnd(x, y *Formula) *Formula {
	if x.Op == 'c' {
		if x.B {
			return y
		}
		return fFalse
	}
	if y.Op == 'c' {
		if y.B {
			return x
		}
		return fFalse
	}
	return &Formula{Op: '&', X: x, Y: y}
}

func fOr(x, y *Formula) *Formula {
	if x.Op == 'c' {
		if x.B {
			return fTrue
		}
		return y
	}
	if y.Op == 'c' {
		if y.B {
			return fTrue
		}
		return x
	}
	return &Formula{Op: '|', X: x, Y: y}
}

func fNot(x *Formula) *Formula {
	if x.Op == 'c' {
		if x.B {
			return fFalse
		}
		return fTrue
	}
	return &Formula{Op: '!', X: x}
}

// Decision holds the block conditions of a loop-free function.
type Decision struct {
	P     *ir.Prog
	Fn    *ssa.Function
	Block map[*ssa.BasicBlock]*Formula
	edge  map[[2]int]*Formula
}

// Decide computes block conditions; it fails on functions with loops.
func Decide(p *ir.Prog, fn *ssa.Function) (*Decision, error) {
	d := &Decision{P: p, Fn: fn, Block: map[*ssa.BasicBlock]*Formula{}, edge: map[[2]int]*Formula{}}
	// topological order (fail on cycles)
	state := map[*ssa.BasicBlock]int{}
	var order []*ssa.BasicBlock
	var visit func(b *ssa.BasicBlock) error
	visit = func(b *ssa.BasicBlock) error {
		switch state[b] {
		case 1:
			return fmt.Errorf("%s has a loop (block %d): not a finite decision table", p.FuncName(fn), b.Index)
		case 2:
			return nil
		}
		state[b] = 1
		for _, s := range b.Succs {
			if err := visit(s); err != nil {
				return err
			}
		}
		state[b] = 2
		order = append(order, b)
		return nil
	}
	if len(fn.Blocks) == 0 {
		return nil, fmt.Errorf("%s has no body", p.FuncName(fn))
	}
	if err := visit(fn.Blocks[0]); err != nil {
		return nil, err
	}
	// reverse postorder
	for i, j := 0, len(order)-1; i < j; i, j = i+1, j-1 {
		order[i], order[j] = order[j], order[i]
	}
	d.Block[fn.Blocks[0]] = fTrue
	for _, b := range order {
		if b != fn.Blocks[0] {
			var f *Formula = fFalse
			for _, pr := range b.Preds {
				pc, ok := d.Block[pr]
				if !ok {
					continue // unreachable predecessor
				}
				f = fOr(f, fAnd(pc, d.edgeCond(pr, b)))
			}
			d.Block[b] = f
		}
	}
	return d, nil
}

// edgeCond is the condition under which control leaves `from` towards `to`.
func (d *Decision) edgeCond(from, to *ssa.BasicBlock) *Formula {
	if len(from.Instrs) == 0 {
		return fTrue
	}
	if i, ok := from.Instrs[len(from.Instrs)-1].(*ssa.If); ok {
		c := d.ValueFormula(i.Cond)
		switch {
		case from.Succs[0] == to && from.Succs[1] == to:
			return fTrue
		case from.Succs[0] == to:
			return c
		default:
			return fNot(c)
		}
	}
	return fTrue
}

// ValueFormula turns a boolean SSA value into a formula (phi nodes of
// short-circuit operators are expanded through the block conditions).
func (d *Decision) ValueFormula(v ssa.Value) *Formula {
	switch x := v.(type) {
	case *ssa.Const:
		if b, ok := ir.ConstBool(x); ok {
			if b {
				return fTrue
			}
			return fFalse
		}
	case *ssa.UnOp:
		if x.Op == token.NOT {
			return fNot(d.ValueFormula(x.X))
		}
	case *ssa.Phi:
		// value = OR_i ( reached-through-edge_i AND value_i ), relative to the
		// phi block being reached.
		var f *Formula = fFalse
		for i, pr := range x.Block().Preds {
			pc, ok := d.Block[pr]
			if !ok {
				continue
			}
			f = fOr(f, fAnd(fAnd(pc, d.edgeCond(pr, x.Block())), d.ValueFormula(x.Edges[i])))
		}
		return f
	}
	return &Formula{Op: 'a', V: v}
}

// Env supplies the values of input terms by descriptor.
type Env map[string]int64

// evaluator with memoisation per formula node
type evaluator struct {
	d    *Decision
	env  Env
	memo map[*Formula]int8
	err  error
}

// Eval evaluates a formula under env; an input term missing from env is an
// error (the table would be undecided).
func (d *Decision) Eval(f *Formula, env Env) (bool, error) {
	e := &evaluator{d: d, env: env, memo: map[*Formula]int8{}}
	r := e.eval(f)
	return r, e.err
}

func (e *evaluator) eval(f *Formula) bool {
	if m, ok := e.memo[f]; ok {
		return m == 1
	}
	var r bool
	switch f.Op {
	case 'c':
		r = f.B
	case '!':
		r = !e.eval(f.X)
	case '&':
		r = e.eval(f.X) && e.eval(f.Y)
	case '|':
		r = e.eval(f.X) || e.eval(f.Y)
	case 'a':
		v, err := e.d.evalVal(f.V, e.env, 0)
		if err != nil && e.err == nil {
			e.err = err
		}
		r = v != 0
	}
	if r {
		e.memo[f] = 1
	} else {
		e.memo[f] = 0
	}
	return r
}

// EvalInt evaluates a pure integer/boolean expression under env.
func (d *Decision) EvalInt(v ssa.Value, env Env) (int64, error) { return d.evalVal(v, env, 0) }

func (d *Decision) evalVal(v ssa.Value, env Env, depth int) (int64, error) {
	if depth > 40 {
		return 0, fmt.Errorf("expression too deep")
	}
	if n, ok := env[d.P.Desc(v)]; ok {
		return n, nil
	}
	switch x := v.(type) {
	case *ssa.Const:
		if x.Value == nil {
			return 0, nil
		}
		switch x.Value.Kind() {
		case constant.Bool:
			if constant.BoolVal(x.Value) {
				return 1, nil
			}
			return 0, nil
		case constant.Int:
			if n, ok := ir.ConstInt(x); ok {
				return n, nil
			}
		}
	case *ssa.Convert:
		n, err := d.evalVal(x.X, env, depth+1)
		if err != nil {
			return 0, err
		}
		return truncTo(n, x.Type()), nil
	case *ssa.ChangeType:
		return d.evalVal(x.X, env, depth+1)
	case *ssa.UnOp:
		switch x.Op {
		case token.NOT:
			n, err := d.evalVal(x.X, env, depth+1)
			if n == 0 {
				return 1, err
			}
			return 0, err
		case token.SUB:
			n, err := d.evalVal(x.X, env, depth+1)
			return -n, err
		}
	case *ssa.BinOp:
		a, err := d.evalVal(x.X, env, depth+1)
		if err != nil {
			return 0, err
		}
		b, err := d.evalVal(x.Y, env, depth+1)
		if err != nil {
			return 0, err
		}
		bo := func(c bool) (int64, error) {
			if c {
				return 1, nil
			}
			return 0, nil
		}
		switch x.Op {
		case token.ADD:
			return truncTo(a+b, x.Type()), nil
		case token.SUB:
			return truncTo(a-b, x.Type()), nil
		case token.MUL:
			return truncTo(a*b, x.Type()), nil
		case token.QUO:
			if b == 0 {
				return 0, fmt.Errorf("division by zero in %s", d.P.Desc(v))
			}
			return a / b, nil
		case token.REM:
			if b == 0 {
				return 0, fmt.Errorf("division by zero in %s", d.P.Desc(v))
			}
			return a % b, nil
		case token.AND:
			return a & b, nil
		case token.OR:
			return a | b, nil
		case token.XOR:
			return a ^ b, nil
		case token.SHL:
			return truncTo(a<<uint(b), x.Type()), nil
		case token.SHR:
			return a >> uint(b), nil
		case token.EQL:
			return bo(a == b)
		case token.NEQ:
			return bo(a != b)
		case token.LSS:
			return bo(a < b)
		case token.LEQ:
			return bo(a <= b)
		case token.GTR:
			return bo(a > b)
		case token.GEQ:
			return bo(a >= b)
		}
	case *ssa.Phi:
		// pick the edge whose condition holds
		for i, pr := range x.Block().Preds {
			pc, ok := d.Block[pr]
			if !ok {
				continue
			}
			c, err := d.Eval(fAnd(pc, d.edgeCond(pr, x.Block())), env)
			if err != nil {
				return 0, err
			}
			if c {
				return d.evalVal(x.Edges[i], env, depth+1)
			}
		}
		return 0, fmt.Errorf("phi %s: no incoming edge condition holds", x.Name())
	}
	return 0, fmt.Errorf("input term %q is not in the table's domain", d.P.Desc(v))
}

func truncTo(n int64, t types.Type) int64 {
	b, ok := t.Underlying().(*types.Basic)
	if !ok {
		return n
	}
	switch b.Kind() {
	case types.Int8:
		return int64(int8(n))
	case types.Uint8:
		return int64(uint8(n))
	case types.Int16:
		return int64(int16(n))
	case types.Uint16:
		return int64(uint16(n))
	case types.Int32:
		return int64(int32(n))
	case types.Uint32:
		return int64(uint32(n))
	}
	return n
}

// ReturnCase is one return instruction with its path condition.
type ReturnCase struct {
	Ret  *ssa.Return
	Cond *Formula
}

// Returns lists the function's returns with their conditions.
func (d *Decision) Returns() []ReturnCase {
	var out []ReturnCase
	for _, b := range d.Fn.Blocks {
		if len(b.Instrs) == 0 {
			continue
		}
		if r, ok := b.Instrs[len(b.Instrs)-1].(*ssa.Return); ok {
			if c, ok := d.Block[b]; ok {
				out = append(out, ReturnCase{Ret: r, Cond: c})
			}
		}
	}
	return out
}

// Atoms lists the distinct atom descriptors of a formula.
func (d *Decision) Atoms(f *Formula) []string {
	seen := map[*Formula]bool{}
	set := map[string]bool{}
	var rec func(*Formula)
	rec = func(g *Formula) {
		if g == nil || seen[g] {
			return
		}
		seen[g] = true
		if g.Op == 'a' {
			set[d.P.Desc(g.V)] = true
		}
		rec(g.X)
		rec(g.Y)
	}
	rec(f)
	var out []string
	for k := range set {
		out = append(out, k)
	}
	return out
}

// Leaves lists the descriptors of the input terms (non-constant leaves) that
// the atoms of f depend on.
func (d *Decision) Leaves(f *Formula) map[string]bool {
	out := map[string]bool{}
	seenF := map[*Formula]bool{}
	seenV := map[ssa.Value]bool{}
	var recV func(v ssa.Value)
	var recF func(*Formula)
	recV = func(v ssa.Value) {
		if v == nil || seenV[v] {
			return
		}
		seenV[v] = true
		switch x := v.(type) {
		case *ssa.Const:
		case *ssa.Convert:
			recV(x.X)
		case *ssa.ChangeType:
			recV(x.X)
		case *ssa.UnOp:
			if x.Op == token.NOT || x.Op == token.SUB {
				recV(x.X)
			} else {
				out[d.P.Desc(v)] = true
			}
		case *ssa.BinOp:
			recV(x.X)
			recV(x.Y)
		case *ssa.Phi:
			for i, pr := range x.Block().Preds {
				if pc, ok := d.Block[pr]; ok {
					recF(fAnd(pc, d.edgeCond(pr, x.Block())))
				}
				recV(x.Edges[i])
			}
		default:
			out[d.P.Desc(v)] = true
		}
	}
	recF = func(g *Formula) {
		if g == nil || seenF[g] {
			return
		}
		seenF[g] = true
		if g.Op == 'a' {
			recV(g.V)
		}
		recF(g.X)
		recF(g.Y)
	}
	recF(f)
	return out
}

// And / Or / Not build formulas (exported for rule code).
func And(x, y *Formula) *Formula { return fAnd(x, y) }
func Or(x, y *Formula) *Formula  { return fOr(x, y) }
func Not(x *Formula) *Formula    { return fNot(x) }
