// nbverif decides the structural obligations of DESIGN.md for one property of
// lesismal/nbio by static analysis of /repo's current working tree.
package main

import (
	"flag"
	"fmt"
	"os"
	"path/filepath"
	"runtime/debug"
	"strconv"
	"strings"

	"golang.org/x/tools/go/ssa"

	"verif/internal/fix"
	"verif/internal/ir"
	"verif/internal/props"
	"verif/internal/rep"
)

func verifDir() string {
	if d := os.Getenv("VERIF_DIR"); d != "" {
		return d
	}
	exe, err := os.Executable()
	if err == nil {
		d := filepath.Dir(filepath.Dir(exe))
		if _, err := os.Stat(filepath.Join(d, "properties.jsonl")); err == nil {
			return d
		}
	}
	wd, _ := os.Getwd()
	return wd
}

func main() {
	if len(os.Args) < 2 {
		usage()
	}
	switch os.Args[1] {
	case "check":
		os.Exit(cmdCheck(os.Args[2:]))
	case "explain":
		if len(os.Args) < 3 {
			usage()
		}
		b, err := os.ReadFile(os.Args[2])
		if err != nil {
			fmt.Println(err)
			os.Exit(2)
		}
		os.Stdout.Write(b)
		fmt.Println()
	case "list":
		for _, id := range props.IDs() {
			fmt.Println(id)
		}
	case "dump":
		cmdDump(os.Args[2:])
	default:
		usage()
	}
}

func usage() {
	fmt.Fprintln(os.Stderr, "usage: nbverif check -p Cxx [-tier quick|thorough] [-repo DIR] | explain FILE | list | dump [-repo DIR] FUNC...")
	os.Exit(2)
}

func cmdCheck(args []string) (code int) {
	fs := flag.NewFlagSet("check", flag.ExitOnError)
	prop := fs.String("p", "", "property id")
	tier := fs.String("tier", "", "quick|thorough")
	repo := fs.String("repo", "/repo", "repository directory")
	_ = fs.Parse(args)
	if *tier == "" {
		*tier = os.Getenv("VERIF_TIER")
	}
	if *tier != "thorough" {
		*tier = "quick"
	}
	seed, _ := strconv.ParseInt(os.Getenv("VERIF_SEED"), 10, 64)
	pr := props.Get(*prop)
	vd := verifDir()
	if pr == nil {
		fmt.Printf("unknown property %q\n", *prop)
		return 2
	}
	chk := rep.New(pr.ID, *tier, seed)
	chk.Explanation = pr.Explanation
	chk.NotCovered = pr.NotCovered
	chk.CheckerCmd = "bin/nbverif check -p " + pr.ID + " -tier " + *tier
	chk.TrustedBase = []string{"go/types type checker", "golang.org/x/tools v0.29.0 go/packages + go/ssa construction",
		"the rule tables of /verif/internal/props (anchors by role and by identifier)",
		"oracle tables transcribed from RFC 6455 / RFC 7230 / net/http where a rule names one"}
	chk.Assumptions = []string{
		"only the linux/amd64 build is decided (thorough: linux/386 and darwin/amd64 re-loads where stated)",
		"lock identity is by (struct type, mutex field), not by object",
		"user-supplied callbacks, executors and allocators are outside the analysed program",
		"what is decided is the code shape (a necessary condition), not the run-time behaviour; see not_covered",
	}
	defer func() {
		if r := recover(); r != nil {
			fmt.Printf("analyzer panic: %v\n%s\n", r, debug.Stack())
			chk.Unres(pr.ID+".panic", "analyzer", fmt.Sprint(r))
			code = chk.Finish(vd)
		}
	}()

	// Engine fixtures first: an engine that misbehaves on its fixtures fails
	// the check before /repo is looked at.
	okN, fails := fix.Run(filepath.Join(vd, "fixtures"), pr.Engines)
	chk.Fixtures = okN
	chk.FixtureFail = fails
	for _, f := range fails {
		chk.Unres(pr.ID+".fixtures", f, "engine fixture did not behave as expected")
	}

	p, err := ir.Load(ir.LoadOpts{Dir: *repo, DepsBodies: false})
	if err != nil {
		fmt.Printf("LOAD ERROR: %v\n", err)
		chk.Unres(pr.ID+".load", "linux/amd64", err.Error())
		return chk.Finish(vd)
	}
	chk.Packages = len(p.Pkgs)
	chk.Functions = len(p.Funcs)
	for _, f := range p.Funcs {
		for _, b := range f.Blocks {
			for _, in := range b.Instrs {
				if _, ok := ir.AsCall(in); ok {
					chk.CallSites++
				}
			}
		}
	}
	chk.Builds = append(chk.Builds, "linux/amd64")
	chk.Build = "linux/amd64"
	ctx := &props.Ctx{Check: chk, P: p, Tier: *tier}
	ctx.LoadBuild = func(goos, goarch string) (*ir.Prog, error) {
		q, err := ir.Load(ir.LoadOpts{Dir: *repo, GOOS: goos, GOARCH: goarch})
		if err == nil {
			chk.Builds = append(chk.Builds, goos+"/"+goarch)
		}
		return q, err
	}
	pr.Run(ctx)
	code = chk.Finish(vd)
	if code == 0 {
		fmt.Printf("OK property=%s tier=%s obligations=%d\n", pr.ID, *tier, len(chk.Results))
	}
	return code
}

func cmdDump(args []string) {
	fs := flag.NewFlagSet("dump", flag.ExitOnError)
	repo := fs.String("repo", "/repo", "repository directory")
	desc := fs.Bool("desc", false, "print descriptors of values")
	_ = fs.Parse(args)
	p, err := ir.Load(ir.LoadOpts{Dir: *repo})
	if err != nil {
		fmt.Println(err)
		os.Exit(2)
	}
	for _, name := range fs.Args() {
		found := false
		for _, f := range p.Funcs {
			if p.FuncName(f) == name || strings.HasPrefix(p.FuncName(f), name+"$") {
				found = true
				f.WriteTo(os.Stdout)
				if *desc {
					for _, b := range f.Blocks {
						for _, in := range b.Instrs {
							if v, ok := in.(ssa.Value); ok {
								fmt.Printf("  %s = %s\n", v.Name(), p.Desc(v))
							}
						}
					}
				}
			}
		}
		if !found {
			fmt.Println("not found:", name)
			for _, f := range p.Funcs {
				if strings.Contains(p.FuncName(f), name) {
					fmt.Println("  candidate:", p.FuncName(f))
				}
			}
		}
	}
}
