module fixtures

go 1.16
