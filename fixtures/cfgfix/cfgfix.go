// Package cfgfix holds fixtures for the control-flow primitives (E4/E6):
// branch-edge dominance through &&, ||, switch, goto and early returns.
package cfgfix

var sink int

func mark(int) {}

// In every Dom* function mark(1) must be dominated by the fact "n > 0 is
// true"; in every NoDom* function it must not.
func DomIf(n int) {
	if n > 0 {
		mark(1)
	}
}

func DomEarlyReturn(n int) {
	if n <= 0 {
		return
	}
	mark(1)
}

func DomAnd(n int, b bool) {
	if b && n > 0 {
		mark(1)
	}
}

func DomSwitch(n int) {
	switch {
	case n > 0:
		mark(1)
	default:
	}
}

func DomGoto(n int) {
	if !(n > 0) {
		goto out
	}
	mark(1)
out:
	sink++
}

func DomLoop(n int) {
	for n > 0 {
		mark(1)
		n--
	}
}

func NoDomOr(n int, b bool) {
	if b || n > 0 {
		mark(1)
	}
}

func NoDomJoin(n int) {
	if n > 0 {
		sink++
	}
	mark(1)
}

func NoDomElse(n int) {
	if n > 0 {
		sink++
	} else {
		mark(1)
	}
}

// Must*: every path from mark(1) to the function exit passes mark(2).
func MustStraight() {
	mark(1)
	mark(2)
}

func MustBothBranches(b bool) {
	mark(1)
	if b {
		mark(2)
	} else {
		mark(2)
	}
}

func MustDefer() {
	defer mark(2)
	mark(1)
}

// Escape*: some path from mark(1) reaches the exit without mark(2).
func EscapeOneBranch(b bool) {
	mark(1)
	if b {
		mark(2)
	}
}

func EscapeEarlyReturn(b bool) {
	mark(1)
	if b {
		return
	}
	mark(2)
}

func EscapeLoopBreak(n int) {
	mark(1)
	for i := 0; i < n; i++ {
		if i == 3 {
			return
		}
	}
	mark(2)
}

// Zero-test normal forms: each ZeroTrue* condition is "len(q)==0 on the true
// edge", each ZeroFalse* is "len(q)==0 on the false edge".
func ZeroTrueA(q []int) {
	if len(q) == 0 {
		mark(1)
	}
}
func ZeroTrueB(q []int) {
	if len(q) <= 0 {
		mark(1)
	}
}
func ZeroTrueC(q []int) {
	if len(q) < 1 {
		mark(1)
	}
}
func ZeroTrueD(q []int) {
	if !(len(q) > 0) {
		mark(1)
	}
}
func ZeroTrueE(q []int) {
	if 0 == len(q) {
		mark(1)
	}
}
func ZeroFalseA(q []int) {
	if len(q) > 0 {
		mark(1)
	}
}
func ZeroFalseB(q []int) {
	if len(q) != 0 {
		mark(1)
	}
}
func ZeroFalseC(q []int) {
	if len(q) >= 1 {
		mark(1)
	}
}
func ZeroNoneA(q []int) {
	if len(q) > 1 {
		mark(1)
	}
}
func ZeroNoneB(q []int) {
	if len(q) == 1 {
		mark(1)
	}
}
