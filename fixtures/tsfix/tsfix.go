// Package tsfix holds fixtures for engine E2 (pooled-buffer typestate):
// functions whose name starts with Bad must be reported, Ok* must stay silent.
package tsfix

import "errors"

var ErrX = errors.New("x")

func Malloc(n int) *[]byte                   { b := make([]byte, n); return &b }
func Free(p *[]byte)                         {}
func Append(p *[]byte, more ...byte) *[]byte { *p = append(*p, more...); return p }
func use([]byte)                             {}
func write([]byte) error                     { return nil }
func Execute(f func()) bool                  { f(); return true }

type S struct {
	buf  *[]byte
	body *[]byte
	n    int
}

func OkSimple() {
	p := Malloc(10)
	use(*p)
	Free(p)
}

func BadUseAfterFree() {
	p := Malloc(10)
	Free(p)
	use(*p)
}

func BadDoubleFree() {
	p := Malloc(10)
	Free(p)
	Free(p)
}

func BadDoubleFreeOnErrorPath() error {
	p := Malloc(10)
	err := write(*p)
	Free(p)
	if err != nil {
		Free(p)
		return err
	}
	return nil
}

func OkErrorPathFree() error {
	p := Malloc(10)
	err := write(*p)
	if err != nil {
		Free(p)
		return err
	}
	use(*p)
	Free(p)
	return nil
}

func BadViewAfterFree() {
	p := Malloc(10)
	d := *p
	Free(p)
	use(d[1:])
}

func BadResliceAfterFree() {
	p := Malloc(10)
	Free(p)
	*p = (*p)[0:0]
}

func (s *S) OkFieldFreeThenNil() {
	Free(s.buf)
	s.buf = nil
}

func (s *S) BadDanglingField() {
	if s.buf != nil {
		Free(s.buf)
	}
}

func (s *S) OkFieldMove() {
	p := s.buf
	s.buf = nil
	if p == nil {
		return
	}
	use(*p)
	Free(p)
}

func (s *S) BadFieldFreedThenRead() {
	Free(s.buf)
	use(*s.buf)
	s.buf = nil
}

func OkAppendReassign() {
	p := Malloc(0)
	p = Append(p, 1, 2)
	use(*p)
	Free(p)
}

func (s *S) OkAppendField() {
	s.buf = Append(s.buf, 1)
	use(*s.buf)
}

func BadAppendDropped() {
	p := Malloc(0)
	q := Append(p, 1)
	use(*p)
	Free(q)
}

func OkLoopFree(list []*[]byte) {
	for i, b := range list {
		if b != nil {
			Free(b)
			list[i] = nil
		}
	}
}

func OkLoopReload(q []*[]byte) {
	p := Malloc(1)
	for i := 0; i < len(q); i++ {
		use(*p)
		Free(p)
		p = q[i]
		if p == nil {
			return
		}
	}
}

func (s *S) OkPathFreedReplaced(a bool) {
	if a {
		Free(s.buf)
		s.buf = nil
	}
	if s.buf != nil {
		use(*s.buf)
	}
}

func OkReleaseIdiom(n int) error {
	var err error
	var msg *[]byte
	release := func() {
		if msg != nil {
			Free(msg)
		}
	}
	func() {
		msg = Malloc(n)
		if n > 5 {
			err = ErrX
			release()
			return
		}
	}()
	if err != nil {
		return err
	}
	use(*msg)
	Free(msg)
	return nil
}

func BadReleaseIdiomNoErr(n int) error {
	var err error
	var msg *[]byte
	release := func() {
		if msg != nil {
			Free(msg)
		}
	}
	func() {
		msg = Malloc(n)
		if n > 5 {
			release()
			return
		}
	}()
	if err != nil {
		return err
	}
	use(*msg)
	Free(msg)
	return nil
}

func OkExecutorTransfer(h func(*[]byte)) {
	p := Malloc(4)
	if !Execute(func() {
		defer Free(p)
		h(p)
	}) {
		Free(p)
	}
}

func BadExecutorInverted(h func(*[]byte)) {
	p := Malloc(4)
	if Execute(func() {
		defer Free(p)
		h(p)
	}) {
		Free(p)
	}
}

func OkDeferFree() {
	p := Malloc(4)
	defer Free(p)
	use(*p)
}

func BadDeferAndExplicit() {
	p := Malloc(4)
	defer Free(p)
	use(*p)
	Free(p)
}

func (s *S) OkWholeStructReset() {
	if s.buf != nil {
		Free(s.buf)
	}
	*s = S{}
}

func (s *S) BadStoreFreed() {
	p := Malloc(3)
	Free(p)
	s.buf = p
}

func (s *S) OkSwapFields() error {
	err := write(*s.buf)
	Free(s.buf)
	s.buf = nil
	if err != nil {
		Free(s.body)
		s.body = nil
		return err
	}
	s.buf = s.body
	s.body = nil
	err = write(*s.buf)
	Free(s.buf)
	s.buf = nil
	return err
}

func (s *S) BadSwapKeepsBoth() error {
	s.buf = s.body
	err := write(*s.buf)
	Free(s.buf)
	s.buf = nil
	return err
}
