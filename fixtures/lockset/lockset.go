// Package lockset holds engine fixtures for E1: functions whose outermost name
// starts with Bad must be reported by the guarded-by rule (table: S.f, S.q,
// S.closed guarded by S.mu), functions starting with Ok must stay silent.
// Fixtures are type-checked and analysed, never executed.
package lockset

import "sync"

type S struct {
	mu     sync.Mutex
	f      int
	q      []int
	closed bool
	cnt    int32
}

func (s *S) Lock()   { s.mu.Lock() }
func (s *S) Unlock() { s.mu.Unlock() }

func (s *S) OkPlain() {
	s.mu.Lock()
	s.f = 1
	s.mu.Unlock()
}

func (s *S) OkDefer() {
	s.mu.Lock()
	defer s.mu.Unlock()
	s.f++
}

func (s *S) OkBranch() int {
	s.mu.Lock()
	if s.closed {
		s.mu.Unlock()
		return 0
	}
	v := s.f
	s.mu.Unlock()
	return v
}

// helper has no lock of its own: its entry lockset is inferred from its callers.
func (s *S) helper() { s.f = 2 }

func (s *S) OkHelperCaller() {
	s.mu.Lock()
	s.helper()
	s.mu.Unlock()
}

func (s *S) OkHelperCaller2() {
	s.Lock()
	s.helper()
	s.Unlock()
}

func (s *S) OkWrapper() {
	s.Lock()
	s.q = append(s.q, 1)
	s.Unlock()
}

func (s *S) OkDeferredClosure() {
	s.mu.Lock()
	defer func() {
		s.mu.Unlock()
		_ = recover()
	}()
	s.f = 1
}

func (s *S) OkLocalClosure() {
	s.mu.Lock()
	w := func() { s.q[0] = 9 }
	w()
	s.mu.Unlock()
}

func (s *S) OkImmediateClosure() {
	func() {
		s.mu.Lock()
		defer s.mu.Unlock()
		s.f = 4
	}()
}

func OkFresh() *S {
	s := &S{f: 1}
	s.f = 2
	return s
}

func (s *S) OkLoop(n int) {
	for i := 0; i < n; i++ {
		s.mu.Lock()
		s.f += i
		s.mu.Unlock()
	}
}

func (s *S) BadUnlockedStore() { s.f = 1 }

func (s *S) BadUnlockBeforeStore() {
	s.mu.Lock()
	s.mu.Unlock()
	s.f = 1
}

func (s *S) BadOneBranch(b bool) {
	s.mu.Lock()
	if b {
		s.mu.Unlock()
	}
	s.f = 1
	if !b {
		s.mu.Unlock()
	}
}

func (s *S) badHelper2() { s.f = 1 }

// The helper is reported (its meet-over-call-sites entry lockset is empty).
func (s *S) OkCallsBadHelper2() {
	s.mu.Lock()
	s.badHelper2()
	s.mu.Unlock()
	s.badHelper2()
}

func (s *S) BadGoClosure() {
	s.mu.Lock()
	go func() { s.f = 1 }()
	s.mu.Unlock()
}

func (s *S) BadEscapingClosure(run func(func())) {
	s.mu.Lock()
	run(func() { s.f = 1 })
	s.mu.Unlock()
}

func (s *S) BadElemWrite() { s.q[0] = 1 }

func (s *S) BadReadUnlocked() int { return len(s.q) }

func (s *S) BadLoopRelease(n int) {
	s.mu.Lock()
	for i := 0; i < n; i++ {
		s.f += i
		s.mu.Unlock()
	}
}
