# Table consumed by genmanifest.py.  claim(id, technique, level text, note, design ref) / na(id, reason)

claim("C17", "CFG dominance + decision-table extraction + who-may-write over go/ssa",
      "Decides on every path of write/writev/flush/newToWriteBuf that the overflow test on the whole input dominates every kernel write and enqueue, that overflow(n) is exactly Max>0 && left+n>Max (formula read off the branch conditions), that the backlog counter is incremented by len(buf) once per enqueue and decremented by the very syscall count that advances the entry offset, and that nothing else writes it. A necessary structural condition of the bound, not the numeric invariant over histories.",
      "Not covered: the numeric invariant over histories, teardown dropping queued bytes, Sendfile ranges (not counted by design).",
      "DESIGN.md §4 C17")

claim("C01", "lockset dataflow + CFG must-pass/dominance + feasibility + sibling-predicate agreement over go/ssa",
      "Decides, on every path of Write/Writev/Sendfile/write/writev/flush in the linux build, the code shape that makes 'accepted => sent once, in order, whole' true: kernel writes and enqueues run under the connection mutex in the critical section of the closed test; after a short direct write every success path queues b[n:] (or nothing is left); stream-type predicates treat Unix like TCP; the vectored remainder loop is total and its enqueue sites feasible; success returns carry the input length; the queue copies the caller's slice; flush consumes head-first by the syscall count and pops index 0 only on completion after release; EINTR/EAGAIN never reach teardown; a failed Dup never reaches a success return. 48 obligation instances; three genuine defects found and repaired (known_findings.json).",
      "Not covered: what the kernel does with the bytes, byte-for-byte equality at the peer, sendfile offset arithmetic beyond the matched pattern, peer pacing, UDP.",
      "DESIGN.md §4 C01")

claim("C03", "branch-edge dominance + lockset atomic regions + frozen who-may-call sets over go/ssa",
      "Decides the code shape behind exactly-once close and closed-check-first on every path: each teardown call is dominated by the !closed edge and closed=true inside one critical section; the close/open notification fields, deleteConn and close(fd) have exactly the frozen caller sets; open/close use the same type predicate and the connection WaitGroup Add/Done sites are the frozen sets; every effect of Write/Writev/Sendfile/Read/Execute/SetDeadline/modWrite/resetRead/flush is dominated by the !closed edge and the closed edge is inert and returns the closed indication; table removal precedes close(fd); open precedes registration; closeErr has only its two writers; dial success must be dominated by evidence of establishment (open known finding).",
      "Not covered: histories and interleavings as such, descriptor reuse by the kernel, UDP session races. Known finding (open): truthful/always-reported async dial result, see known_findings.json.",
      "DESIGN.md §4 C03")

claim("C04", "CFG must-pass queries + lockset + constant-mask folding over go/ssa",
      "Decides the invariant flush liveness rests on (queue non-empty => write interest registered) as code shape: arm after every enqueue before the mutex is released; disarm only under the mutex on the queue-empty edge; flag and epoll registration change together; the epoll interest masks carry the required bits in every mode branch; flush is dispatched only from the poller's write-event edge; the one-shot re-arm chooses by queue state under the mutex; a registration issued after a user callback reconciles the backlog it created; every one-shot dispatch path re-registers the descriptor. Four genuine defects found and repaired (known_findings.json).",
      "Not covered: that the kernel delivers the event, eventual delivery itself, edge-triggered timing.",
      "DESIGN.md §4 C04")

claim("C05", "guarded-by lockset + hand-over shape (head-starts-drainer / atomic drain region) + frozen routing sets over go/ssa",
      "Decides the necessary shape of per-connection job serialisation on every path: jobList only under Conn.mux; Execute's closed test and append in one critical section, closed edge inert; a drainer is started only on 'list was empty' decided inside the append's critical section (Execute and MustExecute); the drainer's exhaustion test and list reset are one critical section, the job runs with the mutex released inside its own recover frame, the index advances by one; MustExecute never looks at closed; the nbhttp close hook does all its work inside a MustExecute job; poller-path parsers and WebSocket connections use the bound Execute of the registered connection.",
      "Not covered: the hand-over under all interleavings (model-checking statement), user-supplied executors.",
      "DESIGN.md §4 C05")

claim("C19", "CFG pairing/must-pass + atomic-only + hand-over shape over go/ssa",
      "Decides on every path of taskpool and timer: each failed fork is undone before the next fork/return and nothing else decrements the running-worker counter; the worker defers its decrement; the go statement is guarded by the atomic increment's own result < bound; Stop saturates before close; tasks are invoked only in recover frames; a task received from the queue reaches exactly one of fork/caller; the counter is atomic-only; Timer.Async's head-starts-drainer hand-over has the atomic shape. Two genuine defects found and repaired (known_findings.json).",
      "Not covered: exactly-once/FIFO under all interleavings, submissions racing Stop, the barrier-of-waiting-tasks behaviour itself.",
      "DESIGN.md §4 C19")

claim("C14", "guarded-by lockset + hand-over shape + dominance + frozen dispatch sets over go/ssa",
      "Decides the code shape behind 'callbacks ordered, writes whole': sendQueue only under the connection mutex, writeFrame always entered with it, WriteMessage/WriteFrame release it only by their deferred unlock (all fragments in one critical section); the send-queue drainer is spawned only on len==1 after the append, its exhaustion test and reset are atomic, its closed edge exits, the head slot is cleared on capture; CloseAndClean test-and-sets closed first and is the only, unlocked caller of the close callback; the open handler precedes the read goroutine, the success return and the dialer's result notification; message/data-frame/control handlers run only in closures handed to Execute or SyncCall; a frame rejected by a full queue is released and reported.",
      "Not covered: interleavings as such, the four upgrade paths as executions.",
      "DESIGN.md §4 C14")

claim("C16", "CFG dominance on timer cells + guarded-by lockset + frozen call-site pairs over go/ssa",
      "Decides the bookkeeping around the deadline timers (timing itself is wall-clock): create only on the cell-is-nil edge and store there, Reset on the non-nil edge, Stop always paired with clearing the cell, all under Conn.mux with the cell addresses flowing only into setDeadline; durations are time.Until(t) of the caller's t on the non-zero edge; each timer closes with its own timeout error; close cancels both timers in the critical section that sets closed; Write/Writev clear the write timer exactly on the queue-empty edge; the seven keep-alive renewal sites exist and pass time.Now().Add(KeepaliveTime).",
      "Not covered: timing, the race between a firing timer and Reset, the HTTP client's per-request deadlines.",
      "DESIGN.md §4 C16")

claim("C18", "CFG ordering/must-pass + resource pairing + frozen sets over go/ssa",
      "Decides the ordering and pairing that Stop's termination depends on: Engine.Stop's eight steps in order with both waits on every path to the return and the snapshot under the engine mutex; poller.stop sets the flag before the wake-up and both loops re-read it; each poller goroutine is started after Add(1), defers Done first and the close of its descriptors; newPoller closes opened descriptors on error exits; nbhttp.listen pairs Add/deferred Done; nbhttp Stop/Shutdown/stop-hook order; lmux.Stop closes listeners and channel and Accept selects on it; the connection WaitGroup Add/Done sets.",
      "Not covered: that Stop returns, goroutine/descriptor counts, races of Stop with accepts and callbacks.",
      "DESIGN.md §4 C18")

claim("C08", "error-result discipline + CFG must-pass + exhaustiveness over go/ssa",
      "Decides on every path of the HTTP parser and its read paths: each call of a parse entry point tests the returned error and its failure edge closes / propagates / leaves the read loop into a closing defer; the carry-buffer append and the body reader's accounting/allocations are unreachable without the read-limit / body-size test on retained+incoming; every ParseInt/Atoi failure reaches a non-nil error return and stored lengths are dominated by the <0 and >MaxInt rejections; chunked only for exactly one Transfer-Encoding equal to chunked; all 35 parser states have a case; the ten CR/LF states accept only the expected byte or return an error; recover frames are deferred in Parse and the data handlers; no processor callback between an error's detecting comparison and its return. One genuine defect found and repaired.",
      "Not covered: absence of panics as such (index safety is value-level; containment is decided), termination/progress of the loop index, allocator traffic.",
      "DESIGN.md §4 C08")

claim("C12", "interval facts on length classes + constant/bit-mask agreement + CFG path rules over go/ssa",
      "Decides that WebSocket writer and reader agree on the wire format (payload equality is value-level): the encoder's length classes [0,125]/[126,65535]/rest with codes literal/126/127, extended-length fields [2:4]/[2:10] and header sizes 2/4/10 (+4 masked) and the decoder's equal RFC 6455; identical header bit masks reaching the right results; clients mask only their own copy with the key directly before the payload, the decoder unmasks exactly on the frame-complete edge and every later path consumes the frame or fails; WriteMessage's fragmentation shape (opcode/compression first only, FIN iff last, n=min(len,Max), rest advances by n, empty message one FIN frame); reassembly shape including a hand-off that does not depend on the buffer being non-nil. One genuine defect found and repaired.",
      "Not covered: payload bytes, maskXOR arithmetic, deflate and tail trimming, all segmentations as executions.",
      "DESIGN.md §4 C12")

claim("C13", "finite decision tables read off branch conditions + CFG dominance + error-result discipline over go/ssa",
      "Decides: validFrame composed with Parse's opcode switch against the RFC 6455 table over all 2048 (opcode, FIN, RSV1-3, expecting-continuation, compression) cells; the control-payload>125 and negative-64-bit-length rejections dominate acceptance; a failed nextFrame returns before anything is copied; UTF-8, close-code and close-reason checks dominate the text and close handlers, each failing edge writes a 1002 close and closes, type-0 messages are closed undelivered; validCloseCode's partition (boundary points in quick, all 65 536 codes in thorough); every WebSocket read path tests Parse's error and fails the connection; default ping/close handlers echo payload/code. One genuine defect found and repaired.",
      "Not covered: 'accepts everything valid' beyond the frame table, UTF-8 across fragment boundaries as values, segmentation.",
      "DESIGN.md §4 C13")

claim("C15", "CFG must-pass / dominance + decision-table extraction over go/ssa",
      "Decides the dominating tests behind the size limits: the too-large pre-check on buffered+declared length dominates frame acceptance; in readAll every extension by the read count is followed by a limit test before the buffer can be returned and growth happens only behind isMessageTooLarge(len+1)==false; WriteMessage refuses control payloads >125 for opcodes 8,9,10 before any writeFrame; the input-cache append is unreachable without the ReadLimit test; both size errors answer 1009 before the return; isMessageTooLarge(n) == limit>0 && n>limit. One genuine defect (decompression bomb bound) found and repaired.",
      "Not covered: peak allocator bytes, actual inflated sizes, boundary arithmetic as values.",
      "DESIGN.md §4 C15")

claim("C11", "flow- and path-sensitive ownership typestate over go/ssa (abstract buffers x referrers, disjunctive states under a predicate abstraction)",
      "Decides, on every path of every function of nbio, nbhttp and nbhttp/websocket (~780 bodies, ~280 release and ~120 resize events), that a pooled buffer, every view of its contents and every field or local still referring to it is not used, stored, resized or released again after Free / after being consumed by Append, that a field whose buffer was released is overwritten before the function returns, and that buffers released by a closure handed to an executor are released by the caller exactly on the !ok edge. Plus: the terminal-state guard that justifies the one frozen exception, the write-queue release protocol (flush completion edge / teardown loop then drop), and that views handed to body/parse sinks are only read or copied. One genuine use-after-release + double release found and repaired.",
      "Not covered: cross-goroutine use after release that needs a schedule, user allocators, heap aliasing beyond struct-field places keyed by type and local cells; a program point with more than 1024 distinct abstract path states would be merged (none on this tree).",
      "DESIGN.md §4 C11")

claim("C09", "CFG dominance + per-path emitted-token sequences + nil-flow of comma-ok assertions + fresh-buffer initialisation over go/ssa",
      "Decides on every path of the response writer: success returns of Write/writeChunk report len(data); each success path of writeChunk appends formatInt(l,16) CRLF data CRLF; the chunked terminator and trailer lines have the RFC 7230 shape and pending body is never written before pending head; every choice of chunked framing removes Content-Length and adds Transfer-Encoding on every path, the fallback needs HTTP/1.1, no Content-Length and a status other than 204/304, Content-Length is emitted only when !chunked; head encoding and framing choice are once-only behind their flags; pointers bound by comma-ok assertions are dereferenced only behind ok (50 sites in nbio/nbhttp/websocket); every Malloc'ed buffer is truncated or filled before it is appended to (24 sites). Three genuine defects found and repaired.",
      "Not covered: decoding by an independent client (byte-level), the 64 KiB threshold arithmetic, Content-Length versus bytes written, trailer values set after the head was encoded.",
      "DESIGN.md §4 C09")

claim("C02", "CFG dominance/must-pass + sibling agreement of the three read loops + atomic-only + positivity proof of buffer lengths over go/ssa",
      "Decides at the three read loops (poller sync loop, one-shot read task, gated read task): the data callback is guarded by n>0 and receives the connection and the [:n] re-slice of that very read; EINTR retries, EAGAIN leaves, other errors close and leave, a short count leaves, the iteration bound is the configured one; the one-shot task re-arms on every exit; every borrowed buffer is paid back; the async gate's shape (atomic-only counter, submit iff increment==1, over-count undone, exit only at 0); every buffer that reaches a kernel read is made with a provably positive length (normalised field / parameter / constant); the fd table has only its three writers and an identity-guarded removal; the UDP session map's lookup/insert/announce shape. One genuine defect found and repaired.",
      "Not covered: the lost-edge race of the gate under all schedules, kernel ET/ONESHOT semantics, CPU usage at quiescence, datagram boundaries, the configuration matrix as executions.",
      "DESIGN.md §4 C02")

claim("C06", "loop-carried-value (phi) inventory + CFG exit classification + carry-block shape + who-may-write over go/ssa",
      "Decides the mechanism segmentation independence rests on, not the equivalence itself: Parse resumes by prepending the carried bytes, so a cut can only matter through per-call local state, the carry/rebase code, or an exit that skips the carry. Decided: the only values carried from one byte to the next are the index, the token start and the data slice (everything else lives in Parser fields); the loop starts at the carried length with token start 0 and the carry block stores exactly data[start:] when something is left, keeps the buffer when start==0 and releases it when nothing is left; the only success returns are the empty-input guard, the upgrade hand-off and the return behind the carry block, and body states leave the loop only on their not-enough-bytes edge into the carry block; only Parse writes the carry buffer.",
      "Not covered: equality of the event sequences over all (message, cut) pairs; the per-state token logic (start = i versus i+1 is value-level); ReadLimit.",
      "DESIGN.md §4 C06")

claim("C07", "constant/table agreement against net/http's own source (AST of GOROOT's httpguts and net/http) + decision-table extraction over go/ssa",
      "Agreement with net/http as a whole is differential and not decided; four clauses are table / decision agreement and are decided against net/http's source as loaded for this build (never linked or run): the token alphabets of nbhttp and of the WebSocket handshake parser equal httpguts.isTokenTable on all 256 bytes; chunk sizes are parsed with radix 16 and Content-Length with radix 10, bit size <= 63; chunked framing removes Content-Length, trailers are parsed only when chunked, and the trailer names Transfer-Encoding / Trailer / Content-Length are rejected; the connection-persistence decision of ServerProcessor.OnComplete equals net/http's shouldClose over its whole finite domain.",
      "Not covered: header multimap, body bytes, trailer values (the trailer-value state cuts a value at its first space; no rule here decides values), message boundaries.",
      "DESIGN.md §4 C07")

claim("C10", "closure-body effect sequences + CFG must-pass/pairing + lockset + sibling switch agreement over go/ssa",
      "Ordering, exactly-once and isolation over histories rest on C05, C09 and C11; decided here is the glue specific to HTTP exchanges: the job handed to the connection's executor for each request is handler-then-flush and nothing else, and on the !ok edge the request is released and no handler runs; flushResponse closes on the Close edge only after the flush, immediately on a flush error, renews the keep-alive deadline otherwise, and releases request and response exactly once on every path; the client appends its handler under the mutex before the request is written, pops index 0 under the mutex, and on close invokes every pending handler and clears the list in the same critical section; the TLS and non-TLS listener dispatch have the same IOMod case set and hand each listener to the add-function of the matching kind.",
      "Not covered: everything quantified over histories / concurrency; net/http interoperability.",
      "DESIGN.md §4 C10")

claim("C20", "per-path last-store analysis + interval facts + ownership typestate inside the allocators + who-may-call over go/ssa",
      "Content preservation and non-aliasing over all operation sequences are value-level and not decided. Decided: every return of each of the three Malloc implementations yields a slice whose last store on every path is make([]byte,size) or x[:size] (nil only for size<0); inside the allocators a block is read before it is released and never used, returned or released afterwards, and Append/Realloc copy the old contents to offset 0 and the new bytes to offset len(old); a pooling Free puts back only buffers of positive capacity within its bound; the pooled allocator grows a pooled buffer by size-cap on the cap<size edge before [:size]; the aligned allocator indexes its class table only for sizes inside the table and each class allocates at least the size recorded for it; sync.Pool.Put only in the two Free methods and no allocator stores a handed-out buffer into a field, global or map. One genuine defect found and repaired (zero-capacity buffer pooled by AlignedAllocator.Free).",
      "Not covered: content preservation and non-overlap for all sequences and sizes; that every capacity filed under an aligned class is a class size (foreign buffers with cap a multiple of 32 but not a power of two are filed under a larger class); concurrent use (delegated to sync.Pool); the TraceDebugger wrapper.",
      "DESIGN.md §4 C20")

PENDING = "check not built yet in this round (static rule tables are being added property by property; see DESIGN.md §4 for the planned obligations)"
for pid in ["C%02d" % i for i in range(1, 21)]:
    if pid not in PROPS:
        na(pid, PENDING)
