# Table consumed by genmanifest.py.  claim(id, technique, level text, note, design ref) / na(id, reason)

claim("C17", "CFG dominance + decision-table extraction + who-may-write over go/ssa",
      "Decides on every path of write/writev/flush/newToWriteBuf that the overflow test on the whole input dominates every kernel write and enqueue, that overflow(n) is exactly Max>0 && left+n>Max (formula read off the branch conditions), that the backlog counter is incremented by len(buf) once per enqueue and decremented by the very syscall count that advances the entry offset, and that nothing else writes it. A necessary structural condition of the bound, not the numeric invariant over histories.",
      "Not covered: the numeric invariant over histories, teardown dropping queued bytes, Sendfile ranges (not counted by design).",
      "DESIGN.md §4 C17")

PENDING = "check not built yet in this round (static rule tables are being added property by property; see DESIGN.md §4 for the planned obligations)"
for pid in ["C01","C02","C03","C04","C05","C06","C07","C08","C09","C10","C11","C12","C13","C14","C15","C16","C18","C19","C20"]:
    na(pid, PENDING)
