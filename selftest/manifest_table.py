# Table consumed by genmanifest.py.  claim(id, technique, level text, note, design ref) / na(id, reason)

claim("C17", "CFG dominance + decision-table extraction + who-may-write over go/ssa",
      "Decides on every path of write/writev/flush/newToWriteBuf that the overflow test on the whole input dominates every kernel write and enqueue, that overflow(n) is exactly Max>0 && left+n>Max (formula read off the branch conditions), that the backlog counter is incremented by len(buf) once per enqueue and decremented by the very syscall count that advances the entry offset, and that nothing else writes it. A necessary structural condition of the bound, not the numeric invariant over histories.",
      "Not covered: the numeric invariant over histories, teardown dropping queued bytes, Sendfile ranges (not counted by design).",
      "DESIGN.md §4 C17")

claim("C01", "lockset dataflow + CFG must-pass/dominance + feasibility + sibling-predicate agreement over go/ssa",
      "Decides, on every path of Write/Writev/Sendfile/write/writev/flush in the linux build, the code shape that makes 'accepted => sent once, in order, whole' true: kernel writes and enqueues run under the connection mutex in the critical section of the closed test; after a short direct write every success path queues b[n:] (or nothing is left); stream-type predicates treat Unix like TCP; the vectored remainder loop is total and its enqueue sites feasible; success returns carry the input length; the queue copies the caller's slice; flush consumes head-first by the syscall count and pops index 0 only on completion after release; EINTR/EAGAIN never reach teardown; a failed Dup never reaches a success return. 48 obligation instances; three genuine defects found and repaired (known_findings.json).",
      "Not covered: what the kernel does with the bytes, byte-for-byte equality at the peer, sendfile offset arithmetic beyond the matched pattern, peer pacing, UDP.",
      "DESIGN.md §4 C01")

PENDING = "check not built yet in this round (static rule tables are being added property by property; see DESIGN.md §4 for the planned obligations)"
for pid in ["C02","C03","C04","C05","C06","C07","C08","C09","C10","C11","C12","C13","C14","C15","C16","C18","C19","C20"]:
    na(pid, PENDING)
