#!/usr/bin/env python3
"""Seeded changes (written by independent sub-agents that never saw /verif): confirm and check.

  seeded.py confirm ID...   in a scratch worktree of /repo under /tmp: the patch applies and builds,
                            the pinned suite passes with it, the demonstration fails with it and
                            passes without it.  Records the outcome in seeded/ID/meta.json ("ran").
  seeded.py check [ID...]   applies seeded/ID/patch.diff to /repo itself, runs every registered check
                            against it (evidence redirected to a scratch dir so that the committed
                            evidence stays the clean tree's), undoes the patch straight afterwards
                            and rewrites seeded/RESULTS.md.

meta.json: {"property": "C01", "title": ..., "needs": ..., "demo": [{"src": file in seeded/ID,
"dst": path in the repository}], "demo_cmd": "go test ...", "ran": {...}}
"""
import json, os, shutil, subprocess, sys, tempfile, concurrent.futures as cf

VERIF = os.path.dirname(os.path.dirname(os.path.abspath(__file__)))
SEEDED = os.path.join(VERIF, "seeded")
REPO = "/repo"
ENV = dict(os.environ, GOFLAGS="-mod=mod", GOPROXY="off", GOSUMDB="off", GOTOOLCHAIN="local")
SUITE = "go test -vet=off -count=1 -timeout 25m ./..."

def sh(cmd, cwd, timeout=1500):
    r = subprocess.run(cmd, cwd=cwd, env=ENV, shell=True, capture_output=True, text=True, timeout=timeout)
    return r.returncode, (r.stdout + r.stderr)

def ids(args):
    if args:
        return args
    return sorted(d for d in os.listdir(SEEDED) if os.path.isfile(os.path.join(SEEDED, d, "meta.json")))

def confirm(sid):
    d = os.path.join(SEEDED, sid)
    meta = json.load(open(os.path.join(d, "meta.json")))
    wt = tempfile.mkdtemp(prefix="nbseed.")
    os.rmdir(wt)
    ran = {}
    try:
        rc, out = sh("git -C %s worktree add --detach %s HEAD -q" % (REPO, wt), "/")
        assert rc == 0, out
        for f in meta["demo"]:
            dst = os.path.join(wt, f["dst"])
            os.makedirs(os.path.dirname(dst), exist_ok=True)
            shutil.copy(os.path.join(d, f["src"]), dst)
        rc, out = sh(meta["demo_cmd"], wt)
        ran["demo_without_change"] = "pass" if rc == 0 else "FAIL: " + out[-600:]
        rc, out = sh("git apply %s" % os.path.join(d, "patch.diff"), wt)
        assert rc == 0, "patch does not apply: " + out
        rc, out = sh("go build ./...", wt)
        ran["build_with_change"] = "ok" if rc == 0 else "FAIL: " + out[-600:]
        rc, out = sh(meta["demo_cmd"], wt)
        ran["demo_with_change"] = "fails" if rc != 0 else "PASSES (no demonstration)"
        ran["demo_with_change_tail"] = out[-500:] if rc != 0 else ""
        for f in meta["demo"]:
            os.remove(os.path.join(wt, f["dst"]))
        os.makedirs("/tmp/seed", exist_ok=True)
        rc, out = sh("flock /tmp/seed/test.lock " + SUITE, wt)
        ran["suite_with_change"] = "pass" if rc == 0 else "FAIL: " + out[-800:]
    finally:
        sh("git -C %s worktree remove --force %s" % (REPO, wt), "/")
        shutil.rmtree(wt, ignore_errors=True)
    ran["commands"] = ["git apply patch.diff", "go build ./...", meta["demo_cmd"], SUITE]
    ran["repo_head"] = sh("git -C %s rev-parse --short HEAD" % REPO, "/")[1].strip()
    meta["ran"] = ran
    json.dump(meta, open(os.path.join(d, "meta.json"), "w"), indent=1)
    ok = (ran["demo_without_change"] == "pass" and ran["build_with_change"] == "ok"
          and ran["demo_with_change"] == "fails" and ran["suite_with_change"] == "pass")
    print("%-28s %s" % (sid, "confirmed" if ok else "NOT CONFIRMED " + json.dumps({k: v for k, v in ran.items() if k != "commands"})[:900]))
    return ok

def check(sids):
    props = ["C%02d" % i for i in range(1, 21)]
    rc, out = sh("git status --porcelain", REPO)
    assert out.strip() == "", "/repo is not clean:\n" + out
    results = {}
    for sid in sids:
        d = os.path.join(SEEDED, sid)
        meta = json.load(open(os.path.join(d, "meta.json")))
        vd = tempfile.mkdtemp(prefix="nbseedv.")
        os.symlink(os.path.join(VERIF, "fixtures"), os.path.join(vd, "fixtures"))
        shutil.copy(os.path.join(VERIF, "known_findings.json"), vd)
        try:
            rc, out = sh("git -C %s apply %s" % (REPO, os.path.join(d, "patch.diff")), "/")
            if rc != 0:
                results[sid] = {"property": meta["property"], "status": "STALE", "fired": {}, "title": meta.get("title", ""), "first_contact": meta.get("first_contact", ""), "strengthened": "patch no longer applies: " + out.strip()[-120:]}
                print("%-28s STALE (patch does not apply)" % sid)
                continue
            def one(p):
                r = subprocess.run([os.path.join(VERIF, "bin/nbverif"), "check", "-p", p],
                                   env=dict(ENV, VERIF_DIR=vd), capture_output=True, text=True)
                obs = sorted(set(l.split()[1] for l in r.stdout.splitlines() if l.startswith(("VIOLATED", "UNRESOLVED"))))
                lines = [l for l in r.stdout.splitlines() if l.startswith(("VIOLATED", "UNRESOLVED"))]
                return p, r.returncode, obs, lines
            fired = {}
            with cf.ThreadPoolExecutor(10) as ex:
                for p, rc, obs, lines in ex.map(one, props):
                    if rc != 0:
                        fired[p] = {"obligations": obs, "lines": lines[:6]}
        finally:
            sh("git -C %s checkout -- ." % REPO, "/")
            shutil.rmtree(vd, ignore_errors=True)
        own = meta["property"]
        st = "caught" if own in fired else ("caught-by-other" if fired else "MISSED")
        results[sid] = {"property": own, "status": st, "fired": fired, "title": meta.get("title", ""), "first_contact": meta.get("first_contact", ""), "strengthened": meta.get("strengthened", "")}
        print("%-28s %-16s %s" % (sid, st, ", ".join("%s[%s]" % (p, " ".join(v["obligations"])) for p, v in fired.items())), flush=True)
        # keep what we have (a long run may be interrupted)
        rp0 = os.path.join(SEEDED, "results.json")
        all0 = json.load(open(rp0)) if os.path.exists(rp0) else {}
        all0.update(results)
        json.dump(all0, open(rp0, "w"), indent=1, sort_keys=True)
    rc, out = sh("git status --porcelain", REPO)
    assert out.strip() == "", "/repo left dirty"
    # merge into RESULTS
    rp = os.path.join(SEEDED, "results.json")
    allr = json.load(open(rp)) if os.path.exists(rp) else {}
    allr.update(results)
    json.dump(allr, open(rp, "w"), indent=1, sort_keys=True)
    write_table(allr)
    return results

def write_table(allr):
    # first-contact / strengthened columns always come from the seed's own meta.json
    for sid in list(allr):
        mp = os.path.join(SEEDED, sid, "meta.json")
        if not os.path.exists(mp):
            del allr[sid]
            continue
        meta = json.load(open(mp))
        allr[sid]["first_contact"] = meta.get("first_contact", "")
        allr[sid]["strengthened"] = meta.get("strengthened", "")
        allr[sid]["title"] = meta.get("title", "")
    with open(os.path.join(SEEDED, "RESULTS.md"), "w") as f:
        f.write("# Seeded changes: which check reports which\n\nGenerated by selftest/seeded.py check (patch applied to /repo, all 20 checks run, patch undone).\n\n")
        f.write("| seeded change | property | at first contact | now | reporting obligations | what was strengthened |\n|---|---|---|---|---|---|\n")
        for sid in sorted(allr):
            r = allr[sid]
            f.write("| %s — %s | %s | %s | %s | %s | %s |\n" % (sid, r["title"], r["property"], r.get("first_contact", ""), r["status"],
                    "; ".join("%s: %s" % (p, " ".join(v["obligations"])) for p, v in sorted(r["fired"].items())) or "—", r.get("strengthened", "")))

if __name__ == "__main__":
    if len(sys.argv) >= 2 and sys.argv[1] == "table":
        rp = os.path.join(SEEDED, "results.json")
        allr = json.load(open(rp))
        write_table(allr)
        json.dump(allr, open(rp, "w"), indent=1, sort_keys=True)
        print("RESULTS.md rewritten:", len(allr), "seeds")
        sys.exit(0)
    if len(sys.argv) < 2 or sys.argv[1] not in ("confirm", "check"):
        print(__doc__)
        sys.exit(2)
    if sys.argv[1] == "confirm":
        bad = [s for s in ids(sys.argv[2:]) if not confirm(s)]
        sys.exit(1 if bad else 0)
    res = check(ids(sys.argv[2:]))
    sys.exit(0)
