#!/usr/bin/env python3
"""ingest.py SRC_DIR ID PROPERTY DST_REL 'DEMO_CMD' 'TITLE' 'NEEDS'
Copies a sub-agent's out/<n> directory into /verif/seeded/<ID> and writes meta.json."""
import json, os, shutil, sys
V = os.path.dirname(os.path.dirname(os.path.abspath(__file__)))
src, sid, prop, dst, cmd, title, needs = sys.argv[1:8]
d = os.path.join(V, "seeded", sid)
os.makedirs(d, exist_ok=True)
demo = []
files = []
for root, _, fs in os.walk(src):
    for f in fs:
        files.append(os.path.join(root, f))
for path in sorted(files):
    f = os.path.basename(path)
    if f in ("go.mod",):
        continue
    shutil.copy(path, os.path.join(d, f if not f.endswith("_test.go") else f + ".txt"))
    if f.endswith("_test.go") or (f.endswith(".go") and f != "patch.diff"):
        tgt = dst if dst.endswith(".go") else os.path.join(dst, f)
        demo.append({"src": f + ".txt" if f.endswith("_test.go") else f, "dst": tgt})
meta = {"property": prop, "title": title, "needs": needs, "demo": demo, "demo_cmd": cmd,
        "origin": "written by an independent sub-agent that was given only the property text and a scratch worktree"}
json.dump(meta, open(os.path.join(d, "meta.json"), "w"), indent=1)
print(sid, demo)
