#!/usr/bin/env python3
"""Development-time validation of the checker (DESIGN §7); not a registered check.

Each mutant is a single-site edit of a scratch copy of /repo that must still
compile and must make the named obligation fire; each refactor is a
behaviour-preserving edit on which every check must stay silent.

usage: mutants.py [-k SUBSTR] [-j N] [--refactors] [--list]
"""
import argparse, json, os, shutil, subprocess, sys, tempfile, concurrent.futures as cf

VERIF = os.path.dirname(os.path.dirname(os.path.abspath(__file__)))
REPO = "/repo"
ENV = dict(os.environ, GOFLAGS="-mod=mod", GOPROXY="off", GOSUMDB="off", GOTOOLCHAIN="local")

def load(kind):
    out = []
    d = os.path.join(VERIF, "selftest", kind)
    for fn in sorted(os.listdir(d)):
        if fn.endswith(".json"):
            for m in json.load(open(os.path.join(d, fn))):
                out.append(m)
    return out

def apply_edits(root, m):
    if "patch" in m:
        # a seeded change: applied with patch(1), undone by restoring the touched files
        pf = os.path.join(VERIF, m["patch"])
        saved = {}
        for line in open(pf):
            if line.startswith("+++ b/"):
                fp = os.path.join(root, line[6:].strip())
                if os.path.exists(fp):
                    saved[fp] = open(fp).read()
                else:
                    saved[fp] = None
        r = subprocess.run("patch -p1 -s --no-backup-if-mismatch < " + pf, cwd=root, shell=True, capture_output=True, text=True)
        if r.returncode != 0:
            for fp, txt in saved.items():
                if txt is not None:
                    open(fp, "w").write(txt)
            raise RuntimeError("%s: patch does not apply: %s" % (m["id"], (r.stdout + r.stderr)[-200:]))
        return saved
    edits = m.get("edits") or [m]
    saved = {}
    for e in edits:
        p = os.path.join(root, e["file"])
        s = open(p).read()
        saved.setdefault(p, s)
        if e.get("regex"):
            import re
            s, cnt = re.subn(e["old"], e["new"], s)
            if cnt == 0 or ("count" in e and cnt != e["count"]):
                raise RuntimeError("%s: regex matched %d times in %s: %r" % (m["id"], cnt, e["file"], e["old"][:60]))
            open(p, "w").write(s)
            continue
        cnt = s.count(e["old"])
        want = e.get("count", 1)
        if cnt != want:
            raise RuntimeError("%s: pattern occurs %d times in %s (want %d): %r" % (m["id"], cnt, e["file"], want, e["old"][:60]))
        s = s.replace(e["old"], e["new"])
        open(p, "w").write(s)
    return saved

def run_one(m, root, refactor):
    saved = apply_edits(root, m)
    try:
        b = subprocess.run(["go", "build", "./..."], cwd=root, env=ENV, capture_output=True, text=True)
        if b.returncode != 0:
            return (m["id"], "NOBUILD", b.stderr[-400:])
        v = subprocess.run(["go", "vet", "./..."], cwd=root, env=ENV, capture_output=True, text=True)
        vet = "" if v.returncode == 0 else " (vet complains)"
        props = m["props"] if "props" in m else [m["prop"]]
        outs = []
        fired = False
        for pr in props:
            r = subprocess.run([os.path.join(VERIF, "bin/nbverif"), "check", "-p", pr, "-repo", root],
                               env=dict(ENV, VERIF_DIR=os.path.join(root, "_verif")), capture_output=True, text=True)
            outs.append(r.stdout)
            if r.returncode != 0:
                fired = True
        out = "\n".join(outs)
        if refactor:
            if fired:
                return (m["id"], "FALSE-ALARM", out[-800:])
            return (m["id"], "silent", "")
        if not fired:
            return (m["id"], "MISSED" + vet, "")
        ob = m.get("ob")
        if ob and (" " + ob + " ") not in out:
            return (m["id"], "FIRED-OTHER" + vet, out[-600:])
        return (m["id"], "caught" + vet, "")
    finally:
        for p, s in saved.items():
            if s is None:
                if os.path.exists(p):
                    os.remove(p)
            else:
                open(p, "w").write(s)

def worker(ms, refactor):
    root = tempfile.mkdtemp(prefix="nbmut.")
    res = []
    try:
        # the committed tree, not the working tree: seeded.py may have a patch applied to /repo right now
        subprocess.run("git -C %s archive HEAD | tar -x -C %s" % (REPO, root), shell=True, check=True)
        vd = os.path.join(root, "_verif")
        os.makedirs(vd)
        # the scratch verif dir shares fixtures and known findings, evidence goes to scratch
        os.symlink(os.path.join(VERIF, "fixtures"), os.path.join(vd, "fixtures"))
        if os.path.exists(os.path.join(VERIF, "known_findings.json")):
            shutil.copy(os.path.join(VERIF, "known_findings.json"), vd)
        for m in ms:
            try:
                res.append(run_one(m, root, refactor))
            except Exception as e:
                res.append((m["id"], "ERROR", str(e)))
    finally:
        shutil.rmtree(root, ignore_errors=True)
    return res

def main():
    ap = argparse.ArgumentParser()
    ap.add_argument("-k", default="")
    ap.add_argument("-j", type=int, default=8)
    ap.add_argument("--refactors", action="store_true")
    ap.add_argument("--list", action="store_true")
    ap.add_argument("--seeded", action="store_true", help="run the seeded changes (seeded/*/patch.diff) as mutants in scratch copies")
    a = ap.parse_args()
    kind = "refactors" if a.refactors else "mutants"
    if a.seeded:
        ms = []
        sd = os.path.join(VERIF, "seeded")
        res = {}
        if os.path.exists(os.path.join(sd, "results.json")):
            res = json.load(open(os.path.join(sd, "results.json")))
        for sid in sorted(os.listdir(sd)):
            mp = os.path.join(sd, sid, "meta.json")
            if not os.path.isfile(mp):
                continue
            meta = json.load(open(mp))
            props = [meta["property"]] + [p for p in res.get(sid, {}).get("fired", {}) if p != meta["property"]]
            ms.append({"id": "seed-" + sid, "props": props, "patch": os.path.join("seeded", sid, "patch.diff")})
        ms = [m for m in ms if a.k in m["id"]]
    else:
        ms = [m for m in load(kind) if a.k in m["id"] or a.k in m.get("prop", "") or a.k in m.get("ob", "")]
    if a.list:
        for m in ms:
            print(m["id"], m.get("prop", m.get("props")), m.get("ob", ""))
        return
    j = max(1, min(a.j, len(ms)))
    chunks = [ms[i::j] for i in range(j)]
    bad = 0
    with cf.ThreadPoolExecutor(j) as ex:
        for res in ex.map(lambda c: worker(c, a.refactors), chunks):
            for mid, st, detail in res:
                print("%-40s %s" % (mid, st))
                if st not in ("caught", "silent", "caught (vet complains)"):
                    bad += 1
                    if detail:
                        print("    " + detail.replace("\n", "\n    "))
    print("%d mutants, %d not as expected" % (len(ms), bad))
    sys.exit(1 if bad else 0)

if __name__ == "__main__":
    main()
