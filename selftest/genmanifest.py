#!/usr/bin/env python3
"""Regenerates /verif/MANIFEST.json from the table below and validates it
against /root/.vp/MANIFEST.schema.json (when available).  Development helper;
the manifest itself is the committed artefact."""
import json, os, subprocess, sys

VERIF = os.path.dirname(os.path.dirname(os.path.abspath(__file__)))

SETUP = ("cd /verif && GOFLAGS=-mod=mod GOPROXY=off GOSUMDB=off GOTOOLCHAIN=local GOWORK=off "
         "go build -o bin/nbverif ./cmd/nbverif")

COMMON_NOTE = ("Trusted base: go/types, golang.org/x/tools v0.29.0 go/packages+go/ssa, the rule tables in /verif/internal/props "
               "(anchors resolved by role, guarded state by struct type + field name), oracle tables transcribed by hand where named. "
               "Only the linux/amd64 build is decided. Decides code shape on every path (a necessary condition), not run-time behaviour. ")

# id -> (claimed?, technique, level text, extra note / n.a. reason)
PROPS = {}

def claim(pid, technique, text, note, design):
    PROPS[pid] = dict(claimed=True, technique=technique, text=text, note=note, design=design)

def na(pid, reason):
    PROPS[pid] = dict(claimed=False, reason=reason)

exec(open(os.path.join(VERIF, "selftest", "manifest_table.py")).read())

ENGINES = [
    ("E1 lockset / guarded-by / atomic-only", "internal/eng/lockset.go", "must-hold lockset dataflow over go/ssa with inferred entry locksets"),
    ("E2 pooled-buffer typestate", "internal/eng/typestate.go", "ownership typestate of *[]byte values, fields and views"),
    ("E3 error-result discipline", "internal/eng/errflow.go", "every listed call's error result reaches a nil test whose non-nil edge reacts"),
    ("E4 CFG path obligations", "internal/ir/cfg.go", "branch-edge dominance and instruction-level must-pass / must-not-pass queries"),
    ("E5 who-may-call / who-may-write", "internal/props", "frozen caller / writer sets over all functions of the build"),
    ("E6 feasibility", "internal/ir/match.go", "interval contradiction of dominating comparisons on identical SSA values"),
    ("E7 sibling agreement", "internal/props", "structural comparison of sibling implementations"),
    ("E8 finite decision tables", "internal/eng/decide.go", "branch-condition formula extraction + exhaustive comparison with an oracle table"),
    ("E9 constant / table agreement", "internal/props", "constant folding of literals and tables, compared with each other or a reference"),
    ("E10 emitted-token sequences", "internal/eng/tokens.go", "per-path sequence of appended/written tokens matched against a grammar production"),
]

def main():
    checks, nas = [], []
    serves = {}
    for pid in sorted(PROPS):
        p = PROPS[pid]
        if not p["claimed"]:
            nas.append({"property_id": pid, "reason": p["reason"]})
            continue
        checks.append({
            "property_id": pid,
            "quick_cmd": "./bin/nbverif check -p %s -tier quick" % pid,
            "thorough_cmd": "./bin/nbverif check -p %s -tier thorough" % pid,
            "evidence_file": "/verif/evidence/%s.json" % pid,
            "replay_cmd_template": "./bin/nbverif explain {path}",
            "engine": "nbverif",
            "level_claimed": {"category": "other", "text": p["text"], "design_ref": p["design"]},
            "level_note": COMMON_NOTE + p["note"],
            "technique": p["technique"],
        })
    man = {
        "version": 1,
        "setup_cmd": SETUP,
        "hooks": {
            "guard": "verif",
            "enable": "none needed: the analysis reads ordinary source; the build tag is unused",
            "baseline_off_cmd": "cd /repo && go test -vet=off -count=1 -timeout 25m ./...",
            "source_commits": [],
            "add_only": True,
        },
        "engines": [{"name": n, "path": "/verif/" + path, "serves_properties": sorted(k for k, v in PROPS.items() if v["claimed"]),
                     "kind_free_text": t} for n, path, t in ENGINES],
        "checks": checks,
        "notes": ("Static analysis only: every check re-loads /repo's current working tree (go/packages -> go/types -> go/ssa), "
                  "evaluates the obligation tables of DESIGN.md §4 and writes evidence/<id>.json. Genuine defects repaired by fix: commits "
                  "and open findings are listed in known_findings.json."),
        "not_applicable": nas,
    }
    out = os.path.join(VERIF, "MANIFEST.json")
    json.dump(man, open(out, "w"), indent=1)
    open(out, "a").write("\n")
    schema = "/root/.vp/MANIFEST.schema.json"
    if os.path.exists(schema):
        try:
            import jsonschema
            jsonschema.validate(man, json.load(open(schema)))
            print("MANIFEST.json valid: %d checks, %d not applicable" % (len(checks), len(nas)))
        except ImportError:
            print("jsonschema not importable; run with python3-vt to validate")

if __name__ == "__main__":
    main()
